(* C04 proofs, part 14: RevTree.MarshalJSON / UnmarshalJSON at byte level.
   decode_json (encode_json t') = t' for every listing t' of a tree in normal form; the bytes depend on
   the tree only through the order in which the Go map was iterated; listing the tree in id order gives
   canonical bytes. *)
From Coq Require Import Permutation.
From SG Require Import Base.Prelude C04.RevId C04.RevTree C04.History C04.CodecX C04.Json C04.OrderProofs
  C04.WinnerProofs C04.WfProofs C04.PruneProofs C04.PruneLeaves C04.CodecProofs C04.CodecXProofs C04.JsonProofs.
Open Scope N_scope.

(* ---------- association lists under permutation ---------- *)
Lemma lookup_none_notin {V} : forall (m : list (list N * V)) k, ~ In k (map fst m) -> lookup k m = None.
Proof.
  induction m as [|[k' v] m IH]; intros k H; cbn [lookup]; auto.
  destruct (bytes_eqb k' k) eqn:E.
  - apply bytes_eqb_eq in E. subst. exfalso. apply H. left. reflexivity.
  - apply IH. intros I. apply H. right. exact I.
Qed.

Lemma lookup_perm {V} : forall (m m' : list (list N * V)) k, Permutation m m' -> NoDup (map fst m) ->
  lookup k m = lookup k m'.
Proof.
  intros m m' k P. induction P as [| [k1 v1] l l' P IH | [k1 v1] [k2 v2] l | l l' l'' P1 IH1 P2 IH2]; intros ND.
  - reflexivity.
  - cbn [lookup]. inversion ND; subst. rewrite IH; auto.
  - cbn [lookup]. destruct (bytes_eqb k2 k) eqn:E2; destruct (bytes_eqb k1 k) eqn:E1; auto.
    apply bytes_eqb_eq in E1, E2. subst. cbn [map fst] in ND. inversion ND as [|? ? NI _]; subst.
    exfalso. apply NI. left. reflexivity.
  - rewrite IH1 by exact ND. apply IH2. eapply Permutation_NoDup; [apply Permutation_map; exact P1 | exact ND].
Qed.

Lemma chans_at_notin : forall (cm : list (N * list (list N))) k, ~ In k (map fst cm) -> chans_at cm k = [].
Proof.
  unfold chans_at. induction cm as [|[k' v] cm IH]; intros k H; cbn [find fst]; auto.
  destruct (N.eqb_spec k' k) as [-> | NE].
  - exfalso. apply H. left. reflexivity.
  - apply IH. intros I. apply H. right. exact I.
Qed.

Lemma chans_at_perm : forall (m m' : list (N * list (list N))) k, Permutation m m' -> NoDup (map fst m) ->
  chans_at m k = chans_at m' k.
Proof.
  intros m m' k P. unfold chans_at.
  induction P as [| [k1 v1] l l' P IH | [k1 v1] [k2 v2] l | l l' l'' P1 IH1 P2 IH2]; intros ND.
  - reflexivity.
  - cbn [find fst]. inversion ND; subst. destruct (k1 =? k); [reflexivity | apply IH; auto].
  - cbn [find fst]. destruct (N.eqb_spec k2 k) as [-> | N2]; destruct (N.eqb_spec k1 k) as [-> | N1]; auto.
    cbn [map fst] in ND. inversion ND as [|? ? NI _]; subst. exfalso. apply NI. left. reflexivity.
  - rewrite IH1 by exact ND. apply IH2. eapply Permutation_NoDup; [apply Permutation_map; exact P1 | exact ND].
Qed.

Lemma resolve_perm : forall n m m', Permutation m m' -> forall cm, resolve_chanmap n m = COk cm ->
  exists cm', resolve_chanmap n m' = COk cm' /\ Permutation cm cm'.
Proof.
  intros n m m' P. induction P as [| [k1 v1] l l' P IH | [k1 v1] [k2 v2] l | l l' l'' P1 IH1 P2 IH2]; intros cm H.
  - exists cm. split; auto.
  - cbn [resolve_chanmap] in *. destruct (parse_int k1) as [z|]; [|discriminate].
    destruct (idx_ok n z); [|discriminate].
    destruct (resolve_chanmap n l) as [c| |] eqn:R; try discriminate. inversion H; subst.
    destruct (IH c eq_refl) as (c' & -> & Pc). eexists. split; [reflexivity|]. constructor. exact Pc.
  - cbn [resolve_chanmap] in *.
    destruct (parse_int k2) as [z2|]; [|discriminate]. destruct (idx_ok n z2); [|discriminate].
    destruct (parse_int k1) as [z1|]; [|discriminate]. destruct (idx_ok n z1); [|discriminate].
    destruct (resolve_chanmap n l) as [c| |]; try discriminate. inversion H; subst.
    eexists. split; [reflexivity|]. apply perm_swap.
  - destruct (IH1 cm H) as (c1 & R1 & P1'). destruct (IH2 c1 R1) as (c2 & R2 & P2').
    exists c2. split; auto. eapply Permutation_trans; eauto.
Qed.

Lemma build_ext : forall e e' cm cm' rs ps k,
  (forall j, body_at e j = body_at e' j) -> (forall j, key_at e j = key_at e' j) ->
  l_revs e = l_revs e' -> l_deleted e = l_deleted e' -> l_att e = l_att e' ->
  (forall j, chans_at cm j = chans_at cm' j) ->
  build e cm k rs ps = build e' cm' k rs ps.
Proof.
  intros e e' cm cm' rs. induction rs as [|i rs IH]; intros [|p ps] k B K R D A C; cbn [build]; auto.
  rewrite (IH ps (N.succ k) B K R D A C). unfold parent_at. rewrite B, K, R, D, A, C. reflexivity.
Qed.

Lemma is_nil_perm {A} : forall (a b : list A), Permutation a b -> is_nil a = is_nil b.
Proof.
  intros a b P. apply Permutation_length in P. destruct a, b; cbn in *; auto; discriminate.
Qed.

(* reading the maps in the key order of the JSON text instead of any other order changes nothing, as long
   as no key occurs twice *)
Theorem xdecode_canon : forall e cm,
  l_bodies_old e = None -> l_chans_old e = [] ->
  (forall m, l_bodymap e = Some m -> NoDup (map fst m)) -> NoDup (map fst (l_keymap e)) ->
  resolve_chanmap (length (l_revs e)) (l_chanmap e) = COk cm -> NoDup (map fst cm) ->
  xdecode (canon e) = xdecode e.
Proof.
  intros e cm BO CO NB NK RC NC. unfold xdecode.
  change (l_revs (canon e)) with (l_revs e). change (l_parents (canon e)) with (l_parents e).
  change (l_deleted (canon e)) with (l_deleted e). change (l_att (canon e)) with (l_att e).
  change (l_chans_old (canon e)) with (@nil (list (list N))). rewrite CO.
  change (parents_ok (canon e)) with (parents_ok e).
  assert (B1 : bodies_old_ok (canon e) = true).
  { unfold bodies_old_ok. cbn [canon l_bodymap l_bodies_old]. destruct (l_bodymap e) as [[|? ?]|]; reflexivity. }
  assert (B2 : bodies_old_ok e = true) by (unfold bodies_old_ok; rewrite BO; destruct (l_bodymap e); reflexivity).
  rewrite B1, B2. cbn [is_nil negb]. rewrite !andb_false_r.
  change (l_chanmap (canon e)) with (sort_keys (l_chanmap e)).
  destruct (resolve_perm _ _ _ (Permutation_sym (sort_keys_perm (l_chanmap e))) cm RC) as (cm' & RC' & Pc).
  rewrite RC, RC'.
  assert (BE : build (canon e) cm' 0 (l_revs e) (l_parents e) = build e cm 0 (l_revs e) (l_parents e)).
  { apply build_ext; try reflexivity.
    - intros j. unfold body_at. cbn [canon l_bodymap l_bodies_old]. rewrite BO.
      destruct (l_bodymap e) as [[|kv m]|] eqn:BM; try reflexivity.
      rewrite (lookup_perm _ _ (dec j) (sort_keys_perm (kv :: m))); [reflexivity|].
      eapply Permutation_NoDup; [apply Permutation_map, Permutation_sym, sort_keys_perm | apply NB; reflexivity].
    - intros j. unfold key_at. cbn [canon l_keymap].
      rewrite (lookup_perm _ _ (dec j) (sort_keys_perm (l_keymap e))); [reflexivity|].
      eapply Permutation_NoDup; [apply Permutation_map, Permutation_sym, sort_keys_perm | exact NK].
    - intros j. symmetry. apply chans_at_perm; auto. }
  rewrite BE. reflexivity.
Qed.

(* ---------- the maps written by the encoder have distinct keys ---------- *)
Lemma enc_entries_in {V} : forall (f : xrev -> option V) t k key v, In (key, v) (enc_entries f t k) ->
  exists j x, key = dec j /\ k <= j /\ In x t /\ f x = Some v.
Proof.
  intros f. induction t as [|x t IH]; intros k key v I; cbn [enc_entries] in I; [destruct I|].
  destruct (f x) as [v'|] eqn:F.
  - destruct I as [E | I].
    + inversion E; subst. exists k, x. repeat split; auto; [lia | left; reflexivity].
    + destruct (IH _ _ _ I) as (j & y & A & B & C & D). exists j, y. repeat split; auto; [lia | right; exact C].
  - destruct (IH _ _ _ I) as (j & y & A & B & C & D). exists j, y. repeat split; auto; [lia | right; exact C].
Qed.

Lemma enc_entries_nodup {V} : forall (f : xrev -> option V) t k, NoDup (map fst (enc_entries f t k)).
Proof.
  intros f. induction t as [|x t IH]; intros k; cbn [enc_entries]; [constructor|].
  destruct (f x); [|apply IH]. cbn [map fst]. constructor; [|apply IH].
  intros I. apply in_map_iff in I. destruct I as ([key v'] & E & I). cbn [fst] in E. subst key.
  destruct (enc_entries_in _ _ _ _ _ I) as (j & _ & A & B & _). apply dec_inj in A. lia.
Qed.

Lemma enc_entriesN_nodup {V} : forall (f : xrev -> option V) t k,
  NoDup (map fst (enc_entriesN f t k)) /\ forall j, In j (map fst (enc_entriesN f t k)) -> k <= j.
Proof.
  intros f. induction t as [|x t IH]; intros k; cbn [enc_entriesN]; [split; [constructor | intros j []]|].
  destruct (IH (N.succ k)) as [A B]. destruct (f x).
  - cbn [map fst]. split.
    + constructor; auto. intros I. specialize (B _ I). lia.
    + intros j [<- | I]; [lia | specialize (B _ I); lia].
  - split; auto. intros j I. specialize (B _ I). lia.
Qed.

(* ---------- the byte-level round trip ---------- *)
Definition xascii (t : xtree) : Prop := forall x, In x t ->
  ascii (dig (xid x)) /\ (forall b, x_body (x_i x) = Some b -> ascii b) /\ ascii (x_key (x_i x)) /\
  (forall c, In c (x_chans (x_i x)) -> ascii c).
Definition gens_le (t : xtree) : Prop := forall x, In x t -> gen (xid x) <= max_int.

Lemma xencode_ascii : forall t, xascii t -> rtl_ascii (xencode t).
Proof.
  intros t A. unfold rtl_ascii. cbn [xencode l_revs l_bodymap l_keymap l_chanmap]. split; [|split; [|split]].
  - intros i I. apply in_map_iff in I. destruct I as (x & <- & Ix). destruct (A x Ix) as (A1 & _). exact A1.
  - intros m k v E I. destruct (is_nil (enc_entries body_entry t 0)); [discriminate|]. inversion E; subst m.
    destruct (enc_entries_in _ _ _ _ _ I) as (j & x & -> & _ & Ix & F). split; [apply ascii_dec|].
    destruct (A x Ix) as (_ & A2 & _).
    unfold body_entry in F. destruct (is_nil (x_key (x_i x))); [|discriminate]. apply A2. exact F.
  - intros k v I. destruct (enc_entries_in _ _ _ _ _ I) as (j & x & -> & _ & Ix & F). split; [apply ascii_dec|].
    destruct (A x Ix) as (_ & _ & A3 & _).
    unfold key_entry in F. destruct (is_nil (x_key (x_i x))); [discriminate|]. inversion F. exact A3.
  - intros k v I. destruct (enc_entries_in _ _ _ _ _ I) as (j & x & -> & _ & Ix & F). split; [apply ascii_dec|].
    destruct (A x Ix) as (_ & _ & _ & A4).
    unfold chan_entry in F. destruct (is_nil (x_chans (x_i x))); [discriminate|]. inversion F. exact A4.
Qed.

(* revtree_json_roundtrip: for every tree in normal form (well-formed, bodies in normal form; trees after
   pruning included: their cut parents are roots), whatever order the encoder lists it in, decoding the
   bytes gives back exactly that listing *)
Theorem revtree_json_roundtrip : forall t t', xwf t -> Permutation t t' -> xascii t -> gens_le t ->
  (Z.of_nat (length t) <= max_int64)%Z ->
  decode_json (encode_json t') = Some (DOk t').
Proof.
  intros t t' W P A G M. pose proof (xwf_perm t t' P W) as W'.
  assert (A' : xascii t') by (intros x I; apply A; eapply Permutation_in; [apply Permutation_sym, P | exact I]).
  assert (M' : (Z.of_nat (length t') <= max_int64)%Z) by (rewrite <- (Permutation_length P); exact M).
  unfold decode_json, encode_json.
  rewrite parse_print_rtl; [| apply xencode_ascii; exact A' | | reflexivity | reflexivity].
  - rewrite (xdecode_canon (xencode t') (enc_entriesN chan_entry t' 0)); try reflexivity.
    + f_equal. eapply revtree_struct_roundtrip; eauto.
    + intros m E. cbn [xencode l_bodymap] in E. destruct (is_nil (enc_entries body_entry t' 0)); [discriminate|].
      inversion E. apply enc_entries_nodup.
    + apply enc_entries_nodup.
    + cbn [xencode l_revs l_chanmap]. rewrite map_length. apply resolve_enc; [lia | exact M'].
    + apply enc_entriesN_nodup.
  - intros i I. cbn [xencode l_revs] in I. apply in_map_iff in I. destruct I as (x & <- & Ix). split.
    + destruct W' as ((_ & V & _) & _). apply (V (x_r x)). unfold strip. apply in_map. exact Ix.
    + apply G. eapply Permutation_in; [apply Permutation_sym, P | exact Ix].
Qed.

(* ---------- determinism up to the iteration order; canonical bytes ---------- *)
Fixpoint insert_rev (x : xrev) (l : xtree) : xtree :=
  match l with
  | [] => [x]
  | y :: l' => match cmp_id (xid x) (xid y) with Gt => y :: insert_rev x l' | _ => x :: l end
  end.
Fixpoint sort_tree (l : xtree) : xtree :=
  match l with [] => [] | x :: l' => insert_rev x (sort_tree l') end.

Fixpoint ssorted (l : xtree) : Prop :=
  match l with [] => True | a :: l' => (forall b, In b l' -> cmp_id (xid a) (xid b) = Lt) /\ ssorted l' end.

Lemma insert_rev_perm : forall x l, Permutation (insert_rev x l) (x :: l).
Proof.
  induction l as [|y l IH]; cbn [insert_rev]; [apply Permutation_refl|].
  destruct (cmp_id (xid x) (xid y)); try apply Permutation_refl.
  eapply Permutation_trans; [apply perm_skip; exact IH | apply perm_swap].
Qed.

Lemma sort_tree_perm : forall l, Permutation (sort_tree l) l.
Proof.
  induction l as [|x l IH]; cbn [sort_tree]; [constructor|].
  eapply Permutation_trans; [apply insert_rev_perm | apply perm_skip; exact IH].
Qed.

Lemma insert_rev_sorted : forall x l, ssorted l -> ~ In (xid x) (map xid l) -> ssorted (insert_rev x l).
Proof.
  induction l as [|y l IH]; intros S NI; cbn [insert_rev]; [split; [intros b [] | exact Logic.I]|].
  destruct S as [Hy Sl]. destruct (cmp_id (xid x) (xid y)) eqn:C.
  - apply cmp_id_eq in C. exfalso. apply NI. left. symmetry. exact C.
  - cbn [ssorted]. split; [|split; auto]. intros b [<- | Ib]; auto.
    eapply cmp_id_lt_trans; [exact C | apply Hy; exact Ib].
  - cbn [ssorted]. split.
    + intros b Ib. apply (Permutation_in _ (insert_rev_perm x l)) in Ib. destruct Ib as [<- | Ib]; auto.
      apply cmp_id_gt_lt. exact C.
    + apply IH; auto. intros I. apply NI. right. exact I.
Qed.

Lemma sort_tree_sorted : forall l, NoDup (map xid l) -> ssorted (sort_tree l).
Proof.
  induction l as [|x l IH]; intros ND; cbn [sort_tree]; [exact Logic.I|].
  cbn [map] in ND. inversion ND as [|? ? NI ND']; subst. apply insert_rev_sorted; auto.
  intros I. apply NI. eapply Permutation_in; [apply Permutation_map, sort_tree_perm | exact I].
Qed.

Lemma sorted_perm_eq : forall l1 l2, ssorted l1 -> ssorted l2 -> Permutation l1 l2 -> l1 = l2.
Proof.
  induction l1 as [|a l1 IH]; intros l2 S1 S2 P.
  - apply Permutation_nil in P. subst. reflexivity.
  - destruct l2 as [|b l2]; [apply Permutation_sym, Permutation_nil in P; discriminate|].
    destruct S1 as [Ha S1]. destruct S2 as [Hb S2].
    assert (E : a = b).
    { assert (Ia : In a (b :: l2)) by (eapply Permutation_in; [exact P | left; reflexivity]).
      assert (Ib : In b (a :: l1)) by (eapply Permutation_in; [apply Permutation_sym; exact P | left; reflexivity]).
      destruct Ia as [<- | Ia]; auto. destruct Ib as [<- | Ib]; auto.
      pose proof (Hb a Ia) as L1. pose proof (Ha b Ib) as L2.
      pose proof (cmp_id_lt_trans _ _ _ L1 L2) as L. rewrite cmp_id_refl in L. discriminate. }
    subst b. f_equal. apply IH; auto. eapply Permutation_cons_inv; eauto.
Qed.

Theorem sort_tree_canonical : forall t1 t2, NoDup (map xid t1) -> Permutation t1 t2 -> sort_tree t1 = sort_tree t2.
Proof.
  intros t1 t2 ND P.
  assert (ND2 : NoDup (map xid t2)) by (eapply Permutation_NoDup; [apply Permutation_map; exact P | exact ND]).
  apply sorted_perm_eq; try (apply sort_tree_sorted; assumption).
  eapply Permutation_trans; [apply sort_tree_perm|]. eapply Permutation_trans; [exact P|].
  apply Permutation_sym, sort_tree_perm.
Qed.

(* encode_deterministic_up_to_order.  The bytes MarshalJSON writes are a function of the tree AND of the
   order in which the Go map happened to be iterated (the list order of the model tree): two iteration
   orders give byte strings that decode to the same tree, and listing the tree in revision-id order
   makes the bytes canonical. *)
Theorem encode_deterministic_up_to_order : forall t t1 t2, xwf t -> xascii t -> gens_le t ->
  (Z.of_nat (length t) <= max_int64)%Z -> Permutation t t1 -> Permutation t t2 ->
  decode_json (encode_json t1) = Some (DOk t1) /\ decode_json (encode_json t2) = Some (DOk t2) /\
  Permutation t1 t2 /\
  encode_json (sort_tree t1) = encode_json (sort_tree t2) /\
  decode_json (encode_json (sort_tree t1)) = Some (DOk (sort_tree t1)) /\ Permutation (sort_tree t1) t.
Proof.
  intros t t1 t2 W A G M P1 P2.
  assert (P12 : Permutation t1 t2) by (eapply Permutation_trans; [apply Permutation_sym; exact P1 | exact P2]).
  assert (ND1 : NoDup (map xid t1)).
  { destruct (xwf_perm t t1 P1 W) as ((ND & _) & _). rewrite strip_ids in ND. exact ND. }
  split; [eapply revtree_json_roundtrip; eauto|]. split; [eapply revtree_json_roundtrip; eauto|].
  split; auto. split; [rewrite (sort_tree_canonical t1 t2 ND1 P12); reflexivity|].
  assert (PS : Permutation t (sort_tree t1)).
  { eapply Permutation_trans; [exact P1 | apply Permutation_sym, sort_tree_perm]. }
  split; [eapply revtree_json_roundtrip; eauto | apply Permutation_sym; exact PS].
Qed.
