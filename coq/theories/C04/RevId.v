(* C04 model, part 1: revision ids.
   db/revision.go: parseRevID, ParseRevID, compareRevIDs.
   A revision id "<gen>-<digest>" is modelled by its parsed form (generation : N, digest : bytes).
   The byte-level functions below reproduce the parsing of the textual form, so that the
   correspondence harness can also feed malformed / non-canonical strings. *)
From SG Require Import Base.Prelude.
Open Scope N_scope.

Record revid := I { gen : N; dig : list N }.

(* Go string comparison: byte-wise lexicographic, a proper prefix is smaller *)
Fixpoint cmp_dig (a b : list N) : comparison :=
  match a, b with
  | [], [] => Eq
  | [], _ :: _ => Lt
  | _ :: _, [] => Gt
  | x :: a', y :: b' => match x ?= y with Eq => cmp_dig a' b' | c => c end
  end.

(* compareRevIDs on parsed ids: the literal switch
     case gen1 > gen2: 1; case gen1 < gen2: -1; case sha1 > sha2: 1; case sha1 < sha2: -1; default 0 *)
Definition cmp_id (a b : revid) : comparison :=
  if gen b <? gen a then Gt
  else if gen a <? gen b then Lt
  else match cmp_dig (dig a) (dig b) with Gt => Gt | Lt => Lt | Eq => Eq end.

Definition is_gt (c : comparison) : bool := match c with Gt => true | _ => false end.

Definition revid_eqb (a b : revid) : bool := (gen a =? gen b) && list_eqb N.eqb (dig a) (dig b).

(* ---------- textual form ---------- *)
Definition is_digit (c : N) : bool := (48 <=? c) && (c <=? 57).

(* strings.Index(revid, "-"): split at the first '-' (45) *)
Fixpoint split_dash (s : list N) : option (list N * list N) :=
  match s with
  | [] => None
  | c :: r => if c =? 45 then Some ([], r)
              else match split_dash r with Some (a, b) => Some (c :: a, b) | None => None end
  end.

Fixpoint digits_val (acc : N) (s : list N) : option N :=
  match s with
  | [] => Some acc
  | c :: r => if is_digit c then digits_val (acc * 10 + (c - 48)) r else None
  end.

Definition max_int : N := 9223372036854775807.

(* strconv.Atoi on a string that contains no '-', followed by the [gen < 1] test of parseRevID:
   optional '+', at least one decimal digit, no other character, value in 1 .. 2^63-1 *)
Definition atoi_pos (s : list N) : option N :=
  let body := match s with c :: r => if c =? 43 then r else s | [] => s end in
  match body with
  | [] => None
  | _ => match digits_val 0 body with
         | Some v => if (1 <=? v) && (v <=? max_int) then Some v else None
         | None => None
         end
  end.

(* One switch for the two repairs made to /repo after this model exposed the defects
   (commit 140db63: parseRevID rejects a generation whose text is not strconv.Itoa(gen);
    commit ac6ea40: documentUpdateFunc recomputes Branched after pruneRevisions pruned something).
   [true] = the repaired code (what the correspondence runs against); the old behaviour stays
   reachable through the [_gen false] functions for the witnesses in C04_Refuted.v. *)
Definition code_fixed : bool := true.

(* strconv.Itoa(gen) == revid[:idx], given that Atoi accepted the prefix with a value >= 1:
   no '+' sign and no leading '0' *)
Definition canonical_prefix (p : list N) : bool :=
  match p with
  | [] => false
  | c :: _ => negb (c =? 43) && negb (c =? 48)
  end.

(* parseRevID: None = error *)
Definition parse_revid_gen (fx : bool) (s : list N) : option (N * list N) :=
  match split_dash s with
  | None => None
  | Some (p, d) => match atoi_pos p with
                   | Some g => if fx && negb (canonical_prefix p) then None else Some (g, d)
                   | None => None
                   end
  end.
Definition parse_revid : list N -> option (N * list N) := parse_revid_gen code_fixed.

(* ParseRevID: "" -> (0,""), error -> (-1,"") *)
Definition parse_pub_gen (fx : bool) (s : list N) : Z * list N :=
  match s with
  | [] => (0%Z, [])
  | _ => match parse_revid_gen fx s with Some (g, d) => (Z.of_N g, d) | None => ((-1)%Z, []) end
  end.

(* compareRevIDs on the textual form *)
Definition cmp_raw_gen (fx : bool) (a b : list N) : Z :=
  let (g1, d1) := parse_pub_gen fx a in
  let (g2, d2) := parse_pub_gen fx b in
  if (g2 <? g1)%Z then 1%Z
  else if (g1 <? g2)%Z then (-1)%Z
  else match cmp_dig d1 d2 with Gt => 1%Z | Lt => (-1)%Z | Eq => 0%Z end.
Definition cmp_raw : list N -> list N -> Z := cmp_raw_gen code_fixed.

Definition cmp_to_Z (c : comparison) : Z := match c with Gt => 1%Z | Lt => (-1)%Z | Eq => 0%Z end.
