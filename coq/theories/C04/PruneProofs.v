(* C04 proofs, part 7: pruning keeps the tree well-formed (no dangling parent, generations still
   increasing) and only removes records / cuts parent links. *)
From Coq Require Import Permutation.
From SG Require Import Base.Prelude C04.RevId C04.RevTree C04.OrderProofs C04.WinnerProofs C04.WfProofs.
Open Scope N_scope.

Lemma snip_ids : forall t, map rid (snip t) = map rid t.
Proof.
  intros t. unfold snip. rewrite map_map. apply map_ext. intros r.
  destruct (rpar r) as [p|]; auto. destruct (contains t p); reflexivity.
Qed.

Lemma contains_snip : forall t i, contains (snip t) i = contains t i.
Proof.
  intros t i. destruct (contains t i) eqn:E.
  - apply contains_in. rewrite snip_ids. apply contains_in. exact E.
  - apply contains_false. rewrite snip_ids. apply contains_false. exact E.
Qed.

Lemma in_snip : forall t r', In r' (snip t) ->
  exists r, In r t /\ rid r' = rid r /\ rdel r' = rdel r /\
    ((rpar r' = rpar r /\ forall p, rpar r = Some p -> contains t p = true) \/ (rpar r' = None)).
Proof.
  intros t r' I. unfold snip in I. apply in_map_iff in I. destruct I as (r & E & I).
  exists r. split; auto. destruct (rpar r) as [p|] eqn:Ep.
  - destruct (contains t p) eqn:C; subst r'; cbn [rid rdel rpar].
    + split; [reflexivity|]. split; [reflexivity|]. left. split; [exact Ep|]. intros p' E'. congruence.
    + split; [reflexivity|]. split; [reflexivity|]. right. reflexivity.
  - subst r'. split; [reflexivity|]. split; [reflexivity|]. left. split; [exact Ep|]. intros p' E'. congruence.
Qed.

Lemma nodup_map_filter {A B} (g : A -> B) (f : A -> bool) l : NoDup (map g l) -> NoDup (map g (filter f l)).
Proof.
  induction l as [|x l IH]; intros H; cbn; [constructor|]. inversion H; subst.
  destruct (f x); cbn; auto. constructor; auto.
  intros I. apply H2. apply in_map_iff in I. destruct I as (y & E & Iy). apply filter_In in Iy.
  rewrite <- E. apply in_map. tauto.
Qed.

(* removing any set of records and cutting the links that became dangling preserves well-formedness *)
Lemma wf_filter_snip : forall t f, wf t -> wf (snip (filter f t)).
Proof.
  intros t f (ND & V & P). split; [|split].
  - rewrite snip_ids. apply nodup_map_filter. exact ND.
  - intros r' I. destruct (in_snip _ _ I) as (r & Ir & E & _). rewrite E. apply V. apply filter_In in Ir. tauto.
  - intros r' p I Ep. destruct (in_snip _ _ I) as (r & Ir & E & _ & [[Epar C] | N]); [|congruence].
    rewrite Epar in Ep. split.
    + rewrite contains_snip. auto.
    + rewrite E. apply filter_In in Ir. destruct (P r p (proj1 Ir) Ep). assumption.
Qed.

Lemma filter_length_le {A} (f : A -> bool) l : (length (filter f l) <= length l)%nat.
Proof. induction l as [|x l IH]; cbn; auto. destruct (f x); cbn; lia. Qed.

Lemma filter_length_eq {A} (f : A -> bool) l : length (filter f l) = length l -> filter f l = l.
Proof.
  induction l as [|x l IH]; cbn; auto. destruct (f x); cbn; intros H.
  - f_equal. apply IH. lia.
  - pose proof (filter_length_le f l). lia.
Qed.

Lemma filter_filter {A} (f g : A -> bool) l : filter g (filter f l) = filter (fun x => f x && g x) l.
Proof.
  induction l as [|x l IH]; cbn; auto. destruct (f x); cbn; [destruct (g x); cbn; rewrite IH|]; auto.
Qed.

(* the shape of the result: a filter of t, snipped when something was removed *)
Lemma prune_shape : forall maxd t, exists f,
  fst (prune maxd t) = t \/ fst (prune maxd t) = snip (filter f t).
Proof.
  intros maxd t. unfold prune.
  destruct (N.of_nat (length t) <=? maxd); [exists (fun _ => true); left; reflexivity|].
  set (t1 := filter _ t).
  set (t2 := match map (fun r => gen (rid r)) (filter (fun r => negb (rdel r)) (leaves t1)) with [] => t1 | _ :: _ => _ end).
  assert (F : exists f, t2 = filter f t).
  { subst t2. destruct (map (fun r => gen (rid r)) (filter (fun r => negb (rdel r)) (leaves t1))).
    - eexists. subst t1. reflexivity.
    - unfold remove_ids. subst t1. rewrite filter_filter. eexists. reflexivity. }
  destruct F as (f & F). exists f. cbn [fst].
  destruct (0 <? N.of_nat (length t) - N.of_nat (length t2)) eqn:E.
  - right. rewrite F. reflexivity.
  - left. rewrite F in *. apply filter_length_eq. pose proof (filter_length_le f t). lia.
Qed.

(* prune_wf (and hence prune_no_dangling: every remaining parent link points to a remaining record) *)
Theorem prune_wf : forall maxd t, wf t -> wf (fst (prune maxd t)).
Proof.
  intros maxd t W. destruct (prune_shape maxd t) as (f & [E | E]); rewrite E; auto.
  apply wf_filter_snip. exact W.
Qed.

(* pruning only removes records and cuts parent links: ids and tombstone bits are never altered *)
Theorem prune_sub : forall maxd t r', In r' (fst (prune maxd t)) ->
  exists r, In r t /\ rid r' = rid r /\ rdel r' = rdel r /\ (rpar r' = rpar r \/ rpar r' = None).
Proof.
  intros maxd t r' I. destruct (prune_shape maxd t) as (f & [E | E]); rewrite E in I.
  - exists r'. auto.
  - destruct (in_snip _ _ I) as (r & Ir & A & B & C). apply filter_In in Ir.
    exists r. split; [tauto|]. split; auto. split; auto. destruct C as [[C _] | C]; auto.
Qed.

Theorem prune_count : forall maxd t,
  snd (prune maxd t) = N.of_nat (length t) - N.of_nat (length (fst (prune maxd t))).
Proof.
  intros maxd t. unfold prune.
  destruct (N.of_nat (length t) <=? maxd); cbn [fst snd]; [lia|].
  match goal with |- ?a - ?b = _ => destruct (0 <? a - b) end; unfold snip; rewrite ?map_length; reflexivity.
Qed.

(* below the limit nothing happens *)
Lemma prune_small : forall maxd t, N.of_nat (length t) <= maxd -> prune maxd t = (t, 0).
Proof. intros maxd t H. unfold prune. destruct (N.of_nat (length t) <=? maxd) eqn:E; [reflexivity | lia]. Qed.

(* nothing pruned => the tree is untouched *)
Lemma prune_zero : forall maxd t, snd (prune maxd t) = 0 -> fst (prune maxd t) = t.
Proof.
  intros maxd t. unfold prune.
  destruct (N.of_nat (length t) <=? maxd); [reflexivity|].
  set (t1 := filter _ t).
  set (t2 := match map (fun r => gen (rid r)) (filter (fun r => negb (rdel r)) (leaves t1)) with [] => t1 | _ :: _ => _ end).
  assert (F : exists f, t2 = filter f t).
  { subst t2. destruct (map (fun r => gen (rid r)) (filter (fun r => negb (rdel r)) (leaves t1))).
    - eexists. subst t1. reflexivity.
    - unfold remove_ids. subst t1. rewrite filter_filter. eexists. reflexivity. }
  destruct F as (f & F). cbn [fst snd]. intros H. rewrite H. cbn.
  rewrite F in *. apply filter_length_eq. pose proof (filter_length_le f t). lia.
Qed.
