(* C04 model, part 4: the history queries of db/revtree.go used by replication and the write path:
   getHistory, getParent, findAncestorFromSet, isLeaf (RevTree.v: [is_leaf]), ContainsCycles.
   Functions on the model tree of RevTree.v; no proofs here. *)
From SG Require Import Base.Prelude.
From SG Require Export C04.RevTree.
Open Scope N_scope.

(* getHistory: the loop
     for revid != "" { info, err := tree.getInfo(revid); if err != nil {break}
                       history = append(history, revid)
                       if len(history) > len(tree) { return history, error("cycle") }
                       revid = info.Parent }
   The walk [chain] of RevTree.v with fuel len(tree)+1 produces exactly the first len(tree)+1 revisions
   of the (possibly endless) walk; the Go loop fails exactly when it has collected that many. *)
Definition get_history (t : tree) (i : revid) : list revid * bool :=
  let h := chain (S (length t)) t i in
  (h, (length t <? length h)%nat).

(* getParent: "" (None) for a root and for an id that is not in the tree *)
Definition get_parent (t : tree) (i : revid) : option revid :=
  match find_rev t i with Some r => rpar r | None => None end.

Definition mem_id (ids : list revid) (i : revid) : bool := existsb (revid_eqb i) ids.

(* the ids findAncestorFromSet looks at, in order: the start id ITSELF (whether it is in the tree or not),
   then its parent, ... ; a parent id that is not in the tree (dangling link) is still looked at, and the
   walk stops after it. *)
Fixpoint walk (fuel : nat) (t : tree) (i : revid) : list revid :=
  match fuel with
  | O => []
  | S f => i :: match find_rev t i with
                | Some r => match rpar r with Some p => walk f t p | None => [] end
                | None => []
                end
  end.

(* findAncestorFromSet: the literal loop (membership in [ancestors] is tested BEFORE the tree lookup).
   The Go loop has no cycle guard (it does not terminate on a cyclic tree); the model is given fuel
   len(tree)+1, which is enough for every acyclic tree. *)
Fixpoint find_anc_loop (fuel : nat) (t : tree) (i : revid) (ancs : list revid) : option revid :=
  match fuel with
  | O => None
  | S f => if mem_id ancs i then Some i
           else match find_rev t i with
                | None => None
                | Some r => match rpar r with Some p => find_anc_loop f t p ancs | None => None end
                end
  end.
Definition find_anc (t : tree) (i : revid) (ancs : list revid) : option revid :=
  find_anc_loop (S (length t)) t i ancs.

(* ContainsCycles: getHistory fails for some LEAF (a cycle that no leaf hangs below is not seen) *)
Definition contains_cycles (t : tree) : bool :=
  existsb (fun l => snd (get_history t (rid l))) (leaves t).

(* "a is a proper ancestor of d" as replication code computes it: a occurs in d's history after d *)
Definition is_ancestor (t : tree) (a d : revid) : bool :=
  mem_id (tl (fst (get_history t d))) a.
