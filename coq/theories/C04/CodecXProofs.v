(* C04 proofs, part 12: MarshalJSON / UnmarshalJSON at the revTreeList level with all persisted fields:
   round trip, the decidable well-formedness condition on the arrays, what the decoder does with each
   malformed shape. *)
From Coq Require Import Permutation.
From SG Require Import Base.Prelude C04.RevId C04.RevTree C04.History C04.CodecX C04.OrderProofs C04.WinnerProofs
  C04.WfProofs C04.PruneProofs C04.PruneLeaves C04.CodecProofs.
Open Scope N_scope.

(* ---------- decimal ---------- *)
Lemma digits_val_app : forall l1 l2 a,
  digits_val a (l1 ++ l2) = match digits_val a l1 with Some v => digits_val v l2 | None => None end.
Proof.
  induction l1 as [|c l1 IH]; intros l2 a; cbn [app digits_val]; [reflexivity|].
  destruct (is_digit c); auto.
Qed.

Lemma is_digit_small : forall d, d < 10 -> is_digit (48 + d) = true.
Proof. intros d H. unfold is_digit. apply andb_true_iff. split; apply N.leb_le; lia. Qed.

Lemma dec_fuel_val : forall f n, n < 2 ^ N.of_nat f -> digits_val 0 (dec_fuel (S f) n) = Some n.
Proof.
  induction f as [|f IH]; intros n H.
  - change (N.of_nat 0) with 0 in H. rewrite N.pow_0_r in H. assert (n = 0) by lia. subst. reflexivity.
  - change (dec_fuel (S (S f)) n) with (if n <? 10 then [48 + n] else dec_fuel (S f) (n / 10) ++ [48 + n mod 10]).
    destruct (n <? 10) eqn:E.
    + cbn [digits_val]. rewrite is_digit_small by lia. f_equal. lia.
    + rewrite Nat2N.inj_succ, N.pow_succ_r' in H.
      assert (D : n / 10 < 2 ^ N.of_nat f) by (apply N.div_lt_upper_bound; lia).
      rewrite digits_val_app, (IH _ D). cbn [digits_val].
      pose proof (N.mod_lt n 10 ltac:(lia)) as M. rewrite is_digit_small by exact M.
      pose proof (N.div_mod n 10 ltac:(lia)). f_equal. lia.
Qed.

Lemma dec_val : forall n, digits_val 0 (dec n) = Some n.
Proof. intros n. unfold dec. apply dec_fuel_val. rewrite N2Nat.id. apply N.size_gt. Qed.

Lemma dec_inj : forall a b, dec a = dec b -> a = b.
Proof. intros a b E. pose proof (dec_val a) as A. rewrite E, dec_val in A. congruence. Qed.

Lemma bytes_eqb_eq : forall a b, bytes_eqb a b = true <-> a = b.
Proof. apply (list_eqb_eq N.eqb). apply N.eqb_eq. Qed.

Lemma dec_eqb : forall a b, bytes_eqb (dec a) (dec b) = (a =? b).
Proof.
  intros a b. destruct (N.eqb_spec a b) as [-> | NE].
  - apply bytes_eqb_eq. reflexivity.
  - destruct (bytes_eqb (dec a) (dec b)) eqn:E; auto. apply bytes_eqb_eq in E. apply dec_inj in E. contradiction.
Qed.

Lemma digits_all : forall s a v, digits_val a s = Some v -> forallb is_digit s = true.
Proof.
  induction s as [|c s IH]; intros a v H; cbn in *; auto.
  destruct (is_digit c); [|discriminate]. cbn. eapply IH; eauto.
Qed.

Lemma dec_head : forall n, exists c r, dec n = c :: r /\ is_digit c = true.
Proof.
  intros n. destruct (dec n) as [|c r] eqn:E.
  - pose proof (dec_val n) as V. rewrite E in V. cbn in V. assert (n = 0) by congruence. subst.
    vm_compute in E. discriminate.
  - exists c, r. split; auto. pose proof (digits_all _ _ _ (dec_val n)) as A. rewrite E in A. cbn in A.
    apply andb_true_iff in A. tauto.
Qed.

Lemma parse_int_dec : forall n, (Z.of_N n <= max_int64)%Z -> parse_int (dec n) = Some (Z.of_N n).
Proof.
  intros n H. unfold parse_int. destruct (dec_head n) as (c & r & E & D). pose proof (dec_val n) as V.
  rewrite E in *. unfold is_digit in D. apply andb_true_iff in D. destruct D as [D1 D2]. apply N.leb_le in D1.
  destruct (c =? 45) eqn:E1; [apply N.eqb_eq in E1; lia|].
  destruct (c =? 43) eqn:E2; [apply N.eqb_eq in E2; lia|].
  rewrite V. unfold max_int64 in *. cbv zeta.
  match goal with |- (if ?c then _ else _) = _ =>
    assert (R : c = true) by (apply andb_true_iff; split; apply Z.leb_le; lia); rewrite R; reflexivity end.
Qed.

(* ---------- the index-keyed maps written by the encoder ---------- *)
Lemma lookup_enc : forall V (f : xrev -> option V) t k j,
  lookup (dec j) (enc_entries f t k) =
  if k <=? j then match nth_error t (N.to_nat (j - k)) with Some x => f x | None => None end else None.
Proof.
  intros V f. induction t as [|x t IH]; intros k j.
  - cbn. destruct (k <=? j); [destruct (N.to_nat (j - k))|]; reflexivity.
  - cbn [enc_entries]. destruct (N.eqb_spec k j) as [-> | NE].
    + rewrite N.leb_refl. replace (j - j) with 0 by lia. cbn [N.to_nat nth_error].
      destruct (f x) as [v|].
      * cbn [lookup]. rewrite dec_eqb, N.eqb_refl. reflexivity.
      * rewrite IH. destruct (N.leb_spec (N.succ j) j); [lia | reflexivity].
    + assert (L : lookup (dec j) (match f x with Some v => (dec k, v) :: enc_entries f t (N.succ k) | None => enc_entries f t (N.succ k) end)
                  = lookup (dec j) (enc_entries f t (N.succ k))).
      { destruct (f x); auto. cbn [lookup]. rewrite dec_eqb. destruct (N.eqb_spec k j); [contradiction | reflexivity]. }
      rewrite L, IH. destruct (N.leb_spec (N.succ k) j); destruct (N.leb_spec k j); try lia; auto.
      replace (N.to_nat (j - k)) with (S (N.to_nat (j - N.succ k))) by lia. reflexivity.
Qed.

Fixpoint enc_entriesN {V} (f : xrev -> option V) (t : xtree) (k : N) : list (N * V) :=
  match t with
  | [] => []
  | x :: t' => match f x with
               | Some v => (k, v) :: enc_entriesN f t' (N.succ k)
               | None => enc_entriesN f t' (N.succ k)
               end
  end.

Lemma resolve_enc : forall t k n, N.of_nat (length t) + k <= N.of_nat n -> (Z.of_nat n <= max_int64)%Z ->
  resolve_chanmap n (enc_entries chan_entry t k) = COk (enc_entriesN chan_entry t k).
Proof.
  induction t as [|x t IH]; intros k n L M; cbn [enc_entries enc_entriesN resolve_chanmap]; [reflexivity|].
  cbn [length] in L.
  destruct (chan_entry x) as [c|]; [|apply IH; auto; lia].
  cbn [resolve_chanmap]. rewrite parse_int_dec by lia.
  assert (I : idx_ok n (Z.of_N k) = true).
  { unfold idx_ok. apply andb_true_iff. split; [apply Z.leb_le | apply Z.ltb_lt]; lia. }
  rewrite I, IH by (auto; lia). rewrite N2Z.id. reflexivity.
Qed.

Lemma chans_at_enc : forall (f : xrev -> option (list (list N))) t k j,
  chans_at (enc_entriesN f t k) j =
  if k <=? j then match nth_error t (N.to_nat (j - k)) with
                  | Some x => match f x with Some c => c | None => [] end
                  | None => []
                  end else [].
Proof.
  intros f. induction t as [|x t IH]; intros k j.
  - cbn. destruct (k <=? j); [destruct (N.to_nat (j - k))|]; reflexivity.
  - cbn [enc_entriesN]. destruct (N.eqb_spec k j) as [-> | NE].
    + rewrite N.leb_refl. replace (j - j) with 0 by lia. cbn [N.to_nat nth_error].
      destruct (f x) as [v|].
      * unfold chans_at. cbn [find fst snd]. rewrite N.eqb_refl. reflexivity.
      * rewrite IH. destruct (N.leb_spec (N.succ j) j); [lia | reflexivity].
    + assert (L : chans_at (match f x with Some v => (k, v) :: enc_entriesN f t (N.succ k) | None => enc_entriesN f t (N.succ k) end) j
                  = chans_at (enc_entriesN f t (N.succ k)) j).
      { destruct (f x); auto. unfold chans_at. cbn [find fst]. destruct (N.eqb_spec k j); [contradiction | reflexivity]. }
      rewrite L, IH. destruct (N.leb_spec (N.succ k) j); destruct (N.leb_spec k j); try lia; auto.
      replace (N.to_nat (j - k)) with (S (N.to_nat (j - N.succ k))) by lia. reflexivity.
Qed.

Lemma lookup_enc0 : forall V (f : xrev -> option V) t k x, nth_error t (N.to_nat k) = Some x ->
  lookup (dec k) (enc_entries f t 0) = f x.
Proof.
  intros V f t k x H. rewrite lookup_enc. destruct (N.leb_spec 0 k); [|lia].
  replace (k - 0) with k by lia. rewrite H. reflexivity.
Qed.

Lemma chans_at_enc0 : forall (f : xrev -> option (list (list N))) t k x, nth_error t (N.to_nat k) = Some x ->
  chans_at (enc_entriesN f t 0) k = match f x with Some c => c | None => [] end.
Proof.
  intros f t k x H. rewrite chans_at_enc. destruct (N.leb_spec 0 k); [|lia].
  replace (k - 0) with k by lia. rewrite H. reflexivity.
Qed.

(* ---------- index lists ---------- *)
Lemma zeqb_ofN : forall a b, (Z.of_N a =? Z.of_N b)%Z = (a =? b).
Proof.
  intros a b. destruct (N.eqb_spec a b) as [-> | NE]; [apply Z.eqb_refl | apply Z.eqb_neq; lia].
Qed.

Lemma zmem_map : forall j l, zmem j (map Z.of_N l) = existsb (N.eqb j) l.
Proof.
  intros j l. unfold zmem. induction l as [|a l IH]; cbn; auto. rewrite zeqb_ofN, IH. reflexivity.
Qed.

Lemma deleted_at : forall t j,
  existsb (N.eqb j) (deleted_idx t 0) = match nth_error t (N.to_nat j) with Some r => rdel r | None => false end.
Proof.
  intros t j. destruct (existsb (N.eqb j) (deleted_idx t 0)) eqn:E.
  - apply deleted_idx_spec in E. destruct E as [_ (r & H & D)]. replace (j - 0) with j in H by lia.
    rewrite H. auto.
  - destruct (nth_error t (N.to_nat j)) as [r|] eqn:H; auto. destruct (rdel r) eqn:D; auto.
    assert (K : existsb (N.eqb j) (deleted_idx t 0) = true).
    { apply deleted_idx_spec. split; [lia|]. exists r. replace (j - 0) with j by lia. auto. }
    congruence.
Qed.

Lemma deleted_idx_bound : forall t k j, In j (deleted_idx t k) -> k <= j < k + N.of_nat (length t).
Proof.
  induction t as [|x t IH]; intros k j I; cbn [deleted_idx] in I; [destruct I|].
  cbn [length]. destruct (rdel x).
  - destruct I as [<- | I]; [lia|]. specialize (IH _ _ I). lia.
  - specialize (IH _ _ I). lia.
Qed.

Definition att_rec (x : xrev) : rev := R (xid x) None (x_att (x_i x)).
Lemma att_as_deleted : forall t k, att_idx t k = deleted_idx (map att_rec t) k.
Proof.
  induction t as [|x t IH]; intros k; cbn [att_idx map deleted_idx]; auto.
  cbn [att_rec rdel]. rewrite IH. reflexivity.
Qed.

(* ---------- records ---------- *)
Lemma snip_rec_sn : forall t0 r, snip_rec t0 r = sn t0 r.
Proof. reflexivity. Qed.

Lemma snip_rec_eta : forall t0 r, snip_rec t0 r = R (rid r) (rpar (snip_rec t0 r)) (rdel r).
Proof.
  intros t0 [i [p|] d]; unfold snip_rec; cbn; auto. destruct (contains t0 p); reflexivity.
Qed.

Lemma strip_ids : forall t, map rid (strip t) = map xid t.
Proof. intros t. unfold strip. rewrite map_map. reflexivity. Qed.

Definition enc_parent (revs : list revid) (x : xrev) : Z :=
  match rpar (x_r x) with
  | None => (-1)%Z
  | Some p => match index_of p revs 0 with Some j => Z.of_N j | None => (-1)%Z end
  end.

Lemma parent_at_enc : forall t x,
  parent_at (xencode t) (enc_parent (map xid t) x) = rpar (snip_rec (strip t) (x_r x)).
Proof.
  intros t x. unfold parent_at, enc_parent, snip_rec. cbn [xencode l_revs].
  destruct (rpar (x_r x)) as [p|] eqn:Ep; [|rewrite Ep; reflexivity].
  destruct (index_of p (map xid t) 0) as [j|] eqn:Ix.
  - destruct (index_of_nth _ _ _ _ Ix) as [_ Nth]. replace (j - 0) with j in Nth by lia.
    destruct (Z.ltb_spec (Z.of_N j) 0); [lia|]. replace (Z.to_nat (Z.of_N j)) with (N.to_nat j) by lia. rewrite Nth.
    assert (C : contains (strip t) p = true).
    { apply contains_in. rewrite strip_ids. eapply nth_error_In; eauto. }
    rewrite C. exact (eq_sym Ep).
  - apply index_of_none in Ix. assert (C : contains (strip t) p = false).
    { apply contains_false. rewrite strip_ids. exact Ix. }
    rewrite C. reflexivity.
Qed.

Lemma nth_error_mid {A} : forall (pre : list A) x rest, nth_error (pre ++ x :: rest) (length pre) = Some x.
Proof. intros. rewrite nth_error_app2, Nat.sub_diag by lia. reflexivity. Qed.

(* ---------- position by position ---------- *)
Lemma build_enc : forall t rest pre, t = pre ++ rest ->
  build (xencode t) (enc_entriesN chan_entry t 0) (N.of_nat (length pre)) (map xid rest)
        (map (enc_parent (map xid t)) rest)
  = map (xnorm_rec (strip t)) rest.
Proof.
  intros t. induction rest as [|x rest IH]; intros pre E; cbn [map build]; [reflexivity|].
  assert (E' : t = (pre ++ [x]) ++ rest) by (rewrite <- app_assoc; exact E).
  specialize (IH (pre ++ [x]) E'). rewrite app_length in IH. cbn [length] in IH.
  replace (N.of_nat (length pre + 1)) with (N.succ (N.of_nat (length pre))) in IH by lia.
  rewrite IH. f_equal.
  set (k := N.of_nat (length pre)).
  assert (Nx : nth_error t (N.to_nat k) = Some x).
  { subst k. rewrite Nat2N.id, E. apply nth_error_mid. }
  unfold xnorm_rec. rewrite (snip_rec_eta (strip t) (x_r x)). f_equal; [f_equal|f_equal].
  - apply parent_at_enc.
  - cbn [xencode l_deleted]. rewrite zmem_map, deleted_at. unfold strip. rewrite nth_error_map, Nx. reflexivity.
  - unfold body_at. cbn [xencode l_bodymap l_bodies_old].
    pose proof (lookup_enc0 _ body_entry t k x Nx) as L.
    destruct (enc_entries body_entry t 0) as [|en bm] eqn:BM; cbn [is_nil].
    + cbn [lookup] in L. rewrite <- L. reflexivity.
    + rewrite L. destruct (body_entry x) as [b|]; reflexivity.
  - unfold key_at. cbn [xencode l_keymap].
    rewrite (lookup_enc0 _ key_entry t k x Nx). unfold key_entry.
    destruct (x_key (x_i x)); reflexivity.
  - rewrite (chans_at_enc0 chan_entry t k x Nx). unfold chan_entry.
    destruct (x_chans (x_i x)); reflexivity.
  - cbn [xencode l_att]. rewrite zmem_map, att_as_deleted, deleted_at, nth_error_map, Nx. reflexivity.
Qed.

Lemma merge_nodup : forall l, NoDup (map xid l) -> merge_dups l = l.
Proof.
  induction l as [|x l IH]; intros ND; cbn [merge_dups]; auto. cbn [map] in ND. inversion ND as [|? ? NI ND']; subst.
  assert (F : existsb (revid_eqb (xid x)) (map xid l) = false).
  { destruct (existsb (revid_eqb (xid x)) (map xid l)) eqn:E; auto. apply existsb_exists in E.
    destruct E as (y & I & Ey). apply revid_eqb_eq in Ey. subst. contradiction. }
  rewrite F, IH; auto.
Qed.

Lemma xnorm_ids : forall t0 t, map xid (map (xnorm_rec t0) t) = map xid t.
Proof.
  intros t0 t. rewrite map_map. apply map_ext. intros x. unfold xid, xnorm_rec. cbn [x_r].
  rewrite snip_rec_sn. apply sn_id.
Qed.

Lemma apply_chans_old_nil : forall w t0 revs t, apply_chans_old w t0 revs [] t = t.
Proof. intros w t0 [|i revs] t; reflexivity. Qed.

(* revtree round trip at the revTreeList level, for whatever order the encoder iterated the map in:
   decoding returns the listing it was given, with dangling parents cut and bodies in normal form *)
Theorem xcodec_roundtrip_norm : forall t, NoDup (map xid t) -> (Z.of_nat (length t) <= max_int64)%Z ->
  xdecode (xencode t) = DOk (xnorm t).
Proof.
  intros t ND M. unfold xdecode.
  assert (Lr : length (l_revs (xencode t)) = length t) by (cbn; apply map_length).
  assert (Lp : length (l_parents (xencode t)) = length t) by (cbn; apply map_length).
  rewrite Lr, Lp, Nat.eqb_refl. cbn [negb].
  assert (CO : l_chans_old (xencode t) = []) by reflexivity. rewrite CO. cbn [is_nil negb]. rewrite andb_false_r.
  assert (PO : parents_ok (xencode t) = true).
  { unfold parents_ok. rewrite Lr. cbn [xencode l_parents]. apply forallb_forall. intros z I.
    apply in_map_iff in I. destruct I as (x & <- & _).
    destruct (rpar (x_r x)) as [p|]; [|reflexivity].
    destruct (index_of p (map xid t) 0) as [j|] eqn:Ix; [|reflexivity].
    destruct (index_of_nth _ _ _ _ Ix) as [_ Nth]. assert (K : (N.to_nat (j - 0) < length (map xid t))%nat).
    { apply nth_error_Some. congruence. }
    rewrite map_length in K. apply orb_true_iff. right. apply Z.ltb_lt. lia. }
  assert (BO : bodies_old_ok (xencode t) = true).
  { unfold bodies_old_ok. cbn [xencode l_bodymap l_bodies_old]. destruct (is_nil _); reflexivity. }
  rewrite PO, BO. cbn [andb negb].
  assert (DO : forallb (idx_ok (length t)) (l_deleted (xencode t)) = true).
  { cbn [xencode l_deleted]. apply forallb_forall. intros z I. apply in_map_iff in I. destruct I as (j & <- & I).
    apply deleted_idx_bound in I. unfold strip in I. rewrite map_length in I.
    unfold idx_ok. apply andb_true_iff. split; [apply Z.leb_le | apply Z.ltb_lt]; lia. }
  assert (AO : forallb (idx_ok (length t)) (l_att (xencode t)) = true).
  { cbn [xencode l_att]. apply forallb_forall. intros z I. apply in_map_iff in I. destruct I as (j & <- & I).
    rewrite att_as_deleted in I. apply deleted_idx_bound in I. rewrite map_length in I.
    unfold idx_ok. apply andb_true_iff. split; [apply Z.leb_le | apply Z.ltb_lt]; lia. }
  rewrite DO, AO. cbn [negb].
  assert (RC : resolve_chanmap (length t) (l_chanmap (xencode t)) = COk (enc_entriesN chan_entry t 0)).
  { cbn [xencode l_chanmap]. apply resolve_enc; auto. lia. }
  rewrite RC. cbn [length Nat.ltb Nat.leb]. rewrite apply_chans_old_nil.
  pose proof (build_enc t t [] eq_refl) as B. cbn [length N.of_nat] in B.
  change (l_revs (xencode t)) with (map xid t).
  change (l_parents (xencode t)) with (map (enc_parent (map xid t)) t).
  rewrite B. rewrite merge_nodup; [reflexivity|]. rewrite xnorm_ids. exact ND.
Qed.

(* ---------- trees in normal form ---------- *)
Definition xnormal (x : xrev) : Prop :=
  (x_key (x_i x) <> [] -> x_body (x_i x) = None) /\ x_body (x_i x) <> Some [].
Definition xwf (t : xtree) : Prop := wf (strip t) /\ forall x, In x t -> xnormal x.

Lemma xnorm_id : forall t, xwf t -> xnorm t = t.
Proof.
  intros t (W & NF). unfold xnorm. rewrite <- (map_id t) at 3. apply map_ext_in. intros x Ix.
  destruct (NF x Ix) as [N1 N2]. destruct x as [r [b k c a]]. unfold xnorm_rec, body_entry. cbn [x_r x_i x_key x_body x_chans x_att] in *.
  f_equal.
  - unfold snip_rec. destruct (rpar r) as [p|] eqn:Ep; auto.
    destruct W as (_ & _ & P). destruct (P r p) as [C _]; auto.
    + unfold strip. apply in_map_iff. exists (X r (XI b k c a)). auto.
    + rewrite C. reflexivity.
  - f_equal. destruct k as [|k0 k]; cbn [is_nil].
    + destruct b as [[|b0 b]|]; auto. congruence.
    + rewrite N1; [reflexivity | discriminate].
Qed.

Lemma xwf_perm : forall t t', Permutation t t' -> xwf t -> xwf t'.
Proof.
  intros t t' P (W & NF). split.
  - eapply wf_perm; [|exact W]. unfold strip. apply Permutation_map. exact P.
  - intros x I. apply NF. eapply Permutation_in; [apply Permutation_sym, P | exact I].
Qed.

Theorem revtree_struct_roundtrip : forall t t', xwf t -> Permutation t t' ->
  (Z.of_nat (length t) <= max_int64)%Z ->
  xdecode (xencode t') = DOk t'.
Proof.
  intros t t' W P M. pose proof (xwf_perm t t' P W) as W'.
  rewrite xcodec_roundtrip_norm.
  - rewrite xnorm_id; auto.
  - destruct W' as ((ND & _) & _). rewrite strip_ids in ND. exact ND.
  - rewrite <- (Permutation_length P). exact M.
Qed.

(* ---------- arrays_wf ---------- *)
Lemma nodupb_iff : forall l, nodupb l = true <-> NoDup l.
Proof.
  induction l as [|x l IH]; cbn [nodupb].
  - split; [constructor | reflexivity].
  - rewrite andb_true_iff, negb_true_iff, IH. split.
    + intros [E ND]. constructor; auto. intros I.
      assert (K : existsb (revid_eqb x) l = true) by (apply existsb_exists; exists x; split; auto; apply revid_eqb_refl).
      congruence.
    + intros ND. inversion ND as [|? ? NI ND']; subst. split; auto.
      destruct (existsb (revid_eqb x) l) eqn:E; auto. apply existsb_exists in E. destruct E as (y & I & Ey).
      apply revid_eqb_eq in Ey. subst. contradiction.
Qed.

Lemma build_ids : forall e cm rs ps k, length rs = length ps -> map xid (build e cm k rs ps) = rs.
Proof.
  intros e cm. induction rs as [|i rs IH]; intros [|p ps] k L; cbn in L; try discriminate; cbn [build map]; auto.
  f_equal. apply IH. lia.
Qed.

Lemma absorb_id : forall x y, xid (absorb x y) = xid y.
Proof. intros x y. unfold absorb. destruct (revid_eqb (xid x) (xid y)); reflexivity. Qed.

Lemma merge_ids_sub : forall l i, In i (map xid (merge_dups l)) -> In i (map xid l).
Proof.
  induction l as [|x l IH]; intros i I; cbn [merge_dups] in I; auto.
  destruct (existsb (revid_eqb (xid x)) (map xid l)).
  - rewrite map_map in I. rewrite (map_ext _ xid) in I by (intros; apply absorb_id). right. apply IH. exact I.
  - cbn [map] in *. destruct I as [E | I]; [left; exact E | right; apply IH; exact I].
Qed.

Lemma merge_length : forall l, (length (merge_dups l) <= length l)%nat /\
  (length (merge_dups l) = length l -> NoDup (map xid l)).
Proof.
  induction l as [|x l [IH1 IH2]]; cbn [merge_dups length map].
  - split; [lia | constructor].
  - destruct (existsb (revid_eqb (xid x)) (map xid l)) eqn:E.
    + rewrite map_length. split; [lia | intros; lia].
    + cbn [length]. split; [lia|]. intros H. constructor; [|apply IH2; lia].
      intros I. assert (K : existsb (revid_eqb (xid x)) (map xid l) = true).
      { apply existsb_exists. exists (xid x). split; auto. apply revid_eqb_refl. }
      congruence.
Qed.

Lemma apply_chans_old_length : forall w t0 revs cs t, length (apply_chans_old w t0 revs cs t) = length t.
Proof.
  intros w t0. induction revs as [|i revs IH]; intros [|c cs] t; cbn [apply_chans_old]; auto.
  rewrite IH. destruct (is_leaf t0 i && negb (opt_id_eqb (Some i) w)); auto. unfold set_chans. apply map_length.
Qed.

Lemma build_pgen : forall e cm rs ps k, length rs = length ps ->
  (pgen_ok e rs ps = true <->
   forall x, In x (build e cm k rs ps) ->
     1 <= gen (xid x) /\ forall q, rpar (x_r x) = Some q -> gen q < gen (xid x)).
Proof.
  intros e cm. induction rs as [|i rs IH]; intros [|p ps] k L; cbn in L; try discriminate; cbn [pgen_ok build].
  - split; [intros _ x [] | reflexivity].
  - specialize (IH ps (N.succ k) ltac:(lia)). rewrite !andb_true_iff, IH. split.
    + intros [[G P] H] x [<- | I]; [|auto]. cbn [xid x_r rid rpar]. split; [apply N.leb_le; exact G|].
      intros q Eq. rewrite Eq in P. apply N.ltb_lt. exact P.
    + intros H. split; [split|].
      * destruct (H _ (or_introl eq_refl)) as [G _]. cbn [xid x_r rid] in G. apply N.leb_le. exact G.
      * destruct (H _ (or_introl eq_refl)) as [_ P]. cbn [xid x_r rid rpar] in P.
        destruct (parent_at e p) as [q|]; auto. apply N.ltb_lt. apply P. reflexivity.
      * intros x I. apply H. right. exact I.
Qed.

Lemma build_parent_in : forall e cm rs ps k x q, In x (build e cm k rs ps) -> rpar (x_r x) = Some q -> In q (l_revs e).
Proof.
  intros e cm. induction rs as [|i rs IH]; intros ps k x q I Eq; [destruct I|].
  destruct ps as [|p ps]; [destruct I|]. cbn [build] in I. destruct I as [<- | I].
  - cbn [x_r rpar] in Eq. unfold parent_at in Eq. destruct (p <? 0)%Z; [discriminate|]. eapply nth_error_In; eauto.
  - eapply IH; eauto.
Qed.

Lemma build_length : forall e cm rs ps k, length rs = length ps -> length (build e cm k rs ps) = length rs.
Proof. intros. rewrite <- (map_length xid), build_ids; auto. Qed.

(* arrays_wf is exactly the condition under which the decoder returns a well-formed tree with one
   record per array position (stated for revTreeLists without the two legacy fields) *)
Theorem arrays_wf_iff : forall e, modern e ->
  (arrays_wf e = true <->
   exists t, xdecode e = DOk t /\ wf (strip t) /\ length t = length (l_revs e)).
Proof.
  intros e (MB & MC). unfold arrays_wf, xdecode. rewrite MC. cbn [is_nil negb length Nat.ltb Nat.leb].
  rewrite andb_false_r.
  assert (BO : bodies_old_ok e = true) by (unfold bodies_old_ok; rewrite MB; destruct (l_bodymap e); reflexivity).
  rewrite BO, andb_true_r.
  destruct ((length (l_revs e) =? length (l_parents e))%nat) eqn:EL; cbn [negb andb];
    [|split; [discriminate | intros (t & H & _); discriminate]].
  apply Nat.eqb_eq in EL.
  destruct (parents_ok e); cbn [negb andb]; [|split; [discriminate | intros (t & H & _); discriminate]].
  destruct (forallb (idx_ok (length (l_revs e))) (l_deleted e)); cbn [negb andb];
    [|split; [discriminate | intros (t & H & _); discriminate]].
  destruct (forallb (idx_ok (length (l_revs e))) (l_att e)); cbn [negb andb];
    [|split; [discriminate | intros (t & H & _); discriminate]].
  destruct (resolve_chanmap (length (l_revs e)) (l_chanmap e)) as [cm| |]; cbn [andb];
    [|split; [discriminate | intros (t & H & _); discriminate] ..].
  rewrite apply_chans_old_nil. rewrite andb_true_iff, nodupb_iff.
  set (b := build e cm 0 (l_revs e) (l_parents e)).
  assert (Ib : map xid b = l_revs e) by (apply build_ids; exact EL).
  split.
  - intros [ND PG]. exists b. rewrite merge_nodup by (rewrite Ib; exact ND).
    split; [reflexivity|]. split; [|apply build_length; exact EL].
    pose proof (proj1 (build_pgen e cm _ _ 0 EL) PG) as PG'. fold b in PG'. clear PG. rename PG' into PG. split; [rewrite strip_ids, Ib; exact ND|]. split.
    + intros r I. unfold strip in I. apply in_map_iff in I. destruct I as (x & <- & I). apply (PG x I).
    + intros r q I Eq. unfold strip in I. apply in_map_iff in I. destruct I as (x & <- & I). split; [|apply (PG x I); exact Eq].
      apply contains_in. rewrite strip_ids, Ib. eapply build_parent_in; eauto.
  - intros (t & H & W & L). inversion H; subst t. clear H.
    pose proof (build_length e cm _ _ 0 EL) as BL. fold b in BL.
    destruct (merge_length b) as [_ M]. rewrite BL in M.
    assert (ND : NoDup (map xid b)) by (apply M; exact L).
    rewrite merge_nodup in W by exact ND. split; [rewrite <- Ib; exact ND|].
    apply (proj2 (build_pgen e cm _ _ 0 EL)). fold b. intros x I. destruct W as (_ & V & P).
    assert (Ir : In (x_r x) (strip b)) by (unfold strip; apply in_map; exact I).
    split; [apply (V _ Ir)|]. intros q Eq. destruct (P _ _ Ir Eq). assumption.
Qed.

(* ---------- what the decoder does with each malformed shape ---------- *)
Theorem decode_length_mismatch : forall e, length (l_revs e) <> length (l_parents e) -> xdecode e = DErr.
Proof.
  intros e H. unfold xdecode. destruct (Nat.eqb_spec (length (l_revs e)) (length (l_parents e))); [contradiction | reflexivity].
Qed.

Theorem decode_both_channel_fields : forall e, length (l_revs e) = length (l_parents e) ->
  l_chanmap e <> [] -> l_chans_old e <> [] -> xdecode e = DErr.
Proof.
  intros e L A B. unfold xdecode. rewrite L, Nat.eqb_refl. cbn [negb].
  destruct (l_chanmap e); [contradiction|]. destruct (l_chans_old e); [contradiction|]. reflexivity.
Qed.

Theorem decode_parent_out_of_range : forall e p, length (l_revs e) = length (l_parents e) ->
  (l_chanmap e = [] \/ l_chans_old e = []) ->
  In p (l_parents e) -> (Z.of_nat (length (l_revs e)) <= p)%Z -> xdecode e = DPanic.
Proof.
  intros e p L C I H. unfold xdecode. rewrite L, Nat.eqb_refl. cbn [negb].
  assert (B : negb (is_nil (l_chanmap e)) && negb (is_nil (l_chans_old e)) = false).
  { destruct C as [-> | ->]; cbn; auto. apply andb_false_r. }
  rewrite B. assert (PO : parents_ok e = false).
  { unfold parents_ok. destruct (forallb _ (l_parents e)) eqn:F; auto. rewrite forallb_forall in F.
    specialize (F p I). rewrite L in H. rewrite L in F. apply orb_true_iff in F.
    destruct F as [F | F]; [apply Z.ltb_lt in F | apply Z.ltb_lt in F]; lia. }
  rewrite PO. reflexivity.
Qed.

Theorem decode_index_out_of_range : forall e z, length (l_revs e) = length (l_parents e) ->
  (l_chanmap e = [] \/ l_chans_old e = []) -> parents_ok e = true -> bodies_old_ok e = true ->
  In z (l_deleted e) \/ In z (l_att e) -> idx_ok (length (l_revs e)) z = false -> xdecode e = DPanic.
Proof.
  intros e z L C PO BO I H. unfold xdecode. rewrite L, Nat.eqb_refl. cbn [negb].
  assert (B : negb (is_nil (l_chanmap e)) && negb (is_nil (l_chans_old e)) = false).
  { destruct C as [-> | ->]; cbn; auto. apply andb_false_r. }
  rewrite B, PO, BO. cbn [andb negb]. rewrite <- L.
  destruct (forallb (idx_ok (length (l_revs e))) (l_deleted e)) eqn:FD; cbn [negb]; auto.
  destruct (forallb (idx_ok (length (l_revs e))) (l_att e)) eqn:FA; cbn [negb]; auto.
  rewrite forallb_forall in FD, FA. destruct I as [I | I]; [rewrite (FD z I) in H | rewrite (FA z I) in H]; discriminate.
Qed.

(* duplicate revision ids are accepted silently: the records are merged (the later position wins) and the
   tree has fewer records than the arrays have positions *)
Theorem decode_duplicates_merged : forall e t, xdecode e = DOk t ->
  (length t <= length (l_revs e))%nat /\ (length t = length (l_revs e) <-> NoDup (l_revs e)).
Proof.
  intros e t H. unfold xdecode in H.
  destruct ((length (l_revs e) =? length (l_parents e))%nat) eqn:EL; cbn [negb] in H; [|discriminate].
  apply Nat.eqb_eq in EL.
  destruct (negb (is_nil (l_chanmap e)) && negb (is_nil (l_chans_old e))); [discriminate|].
  destruct (negb (parents_ok e && bodies_old_ok e)); [discriminate|].
  destruct (negb (forallb (idx_ok (length (l_revs e))) (l_deleted e))); [discriminate|].
  destruct (negb (forallb (idx_ok (length (l_revs e))) (l_att e))); [discriminate|].
  destruct (resolve_chanmap (length (l_revs e)) (l_chanmap e)) as [cm| |]; try discriminate.
  destruct (length (l_revs e) <? length (l_chans_old e))%nat; [discriminate|].
  inversion H; subst t. clear H. rewrite apply_chans_old_length.
  set (b := build e cm 0 (l_revs e) (l_parents e)).
  pose proof (build_length e cm _ _ 0 EL) as BL. fold b in BL.
  pose proof (build_ids e cm _ _ 0 EL) as BI. fold b in BI.
  destruct (merge_length b) as [M1 M2]. rewrite BL in M1, M2.
  split; auto. split.
  - intros E. rewrite <- BI. apply M2. exact E.
  - intros ND. rewrite merge_nodup; [exact BL|]. rewrite BI. exact ND.
Qed.

(* a parent index may point anywhere, also at the revision itself: the decoder accepts the arrays, the
   tree it returns is cyclic, getHistory reports the cycle - and ContainsCycles does not see it, because
   it only walks up from leaves and a pure cycle has none *)
Definition self_parent_arrays : rtl := RTL [I 1 [97]] [0%Z] [] None None [] [] [] [].
Example decode_accepts_cycle :
  arrays_wf self_parent_arrays = false /\
  exists t, xdecode self_parent_arrays = DOk t /\ strip t = [R (I 1 [97]) (Some (I 1 [97])) false] /\
    snd (get_history (strip t) (I 1 [97])) = true /\ contains_cycles (strip t) = false.
Proof. split; [reflexivity|]. eexists. split; [vm_compute; reflexivity|]. repeat split. Qed.
