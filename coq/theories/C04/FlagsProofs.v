(* C04 proofs, part 4: the current revision is the maximal leaf, the flags agree with the leaves, and
   fully accepted insertion sequences that are permutations of each other give the same result. *)
From Coq Require Import Permutation.
From SG Require Import Base.Prelude C04.RevId C04.RevTree C04.DocModel C04.OrderProofs C04.WinnerProofs C04.WfProofs.
Open Scope N_scope.

Definition max_leaf (t : tree) (w : rev) : Prop :=
  In w (leaves t) /\ forall r, In r (leaves t) -> outranks w r \/ r = w.

Lemma leaves_nodup_eq : forall t a b, wf t -> In a (leaves t) -> In b (leaves t) -> rid a = rid b -> a = b.
Proof.
  intros t a b W Ia Ib E. apply in_leaves in Ia, Ib. eapply wf_unique_parent; eauto; tauto.
Qed.

(* the winner computed on a well-formed non-empty tree is its maximal leaf *)
Lemma winning_is_max_leaf : forall t, wf t -> t <> [] ->
  exists w, max_leaf t w /\ w_id (winner_fold (leaves t)) = Some (rid w).
Proof.
  intros t W NE.
  destruct (winner_is_max (leaves t) (wf_has_leaf t W NE) (leaves_valid t W)) as (w & I & A & _ & M).
  exists w. split; auto. split; auto.
  intros r Ir. destruct (M r Ir) as [O | [E _]]; auto. right. eapply leaves_nodup_eq; eauto.
Qed.

Lemma del_of_in : forall t w, wf t -> In w t -> del_of t (Some (rid w)) = rdel w.
Proof.
  intros t w (ND & _) I. unfold del_of. rewrite (find_rev_nodup t w ND I). reflexivity.
Qed.

(* flags_agree *)
Theorem flags_agree : forall t, wf t -> t <> [] ->
  let d := update_flags t in
  exists w, max_leaf t w /\ dcur d = Some (rid w) /\
    ddel d = rdel w /\
    (ddel d = true <-> forall l, In l (leaves t) -> rdel l = true) /\
    (dconf d = true <-> (2 <= length (filter live (leaves t)))%nat) /\
    (dbranch d = true <-> (2 <= length (leaves t))%nat).
Proof.
  intros t W NE. cbn zeta.
  destruct (winning_is_max_leaf t W NE) as (w & [Iw M] & A).
  exists w. unfold update_flags; cbn [dcur ddel dconf dbranch].
  destruct (winner_counts (leaves t)) as [CL CA].
  assert (Iwt : In w t) by (apply in_leaves in Iw; tauto).
  rewrite A, (del_of_in t w W Iwt), CL, CA.
  split; [split; auto|]. split; auto. split; auto. split; [|split].
  - split.
    + intros D l Il. destruct (M l Il) as [[[O1 O2] | [O1 O2]] | ->]; auto; congruence.
    + intros H. apply H. exact Iw.
  - rewrite N.ltb_lt. lia.
  - rewrite N.ltb_lt. lia.
Qed.

(* ---- sequences of accepted insertions ---- *)
Fixpoint add_all (t : tree) (l : list rev) : option tree :=
  match l with
  | [] => Some t
  | r :: l' => match add t r with Some t' => add_all t' l' | None => None end
  end.

Lemma add_some_cons : forall t r t', add t r = Some t' -> t' = r :: t /\ contains t (rid r) = false.
Proof.
  intros t r t' H. unfold add in H. destruct (contains t (rid r)) eqn:C; [congruence|].
  split; auto.
  destruct (rpar r) as [p|]; [|congruence].
  destruct (negb (contains t p)); [congruence|]. destruct (gen (rid r) <=? gen p); congruence.
Qed.

Lemma add_all_shape : forall l t t', add_all t l = Some t' -> t' = List.rev l ++ t.
Proof.
  induction l as [|r l IH]; intros t t' H; cbn in H.
  - inversion H. reflexivity.
  - destruct (add t r) as [t1|] eqn:E; [|congruence].
    destruct (add_some_cons _ _ _ E) as [-> _]. rewrite (IH _ _ H). cbn. rewrite <- app_assoc. reflexivity.
Qed.

Lemma add_all_wf : forall l t t', wf t -> (forall r, In r l -> 1 <= gen (rid r)) -> add_all t l = Some t' -> wf t'.
Proof.
  induction l as [|r l IH]; intros t t' W V H; cbn in H.
  - inversion H; subst. exact W.
  - destruct (add t r) as [t1|] eqn:E; [|congruence].
    destruct (add_wf t r t1 W (V r (or_introl eq_refl)) E) as [_ W1].
    eapply IH; eauto. intros x I. apply V. right. exact I.
Qed.

Lemma del_of_perm : forall t t' w, NoDup (map rid t) -> Permutation t t' -> del_of t w = del_of t' w.
Proof.
  intros t t' [i|] ND P; cbn; auto.
  assert (ND' : NoDup (map rid t')) by (eapply Permutation_NoDup; [apply Permutation_map, P | exact ND]).
  destruct (find_rev t i) as [r|] eqn:F.
  - destruct (find_rev_some _ _ _ F) as [I <-].
    rewrite (find_rev_nodup t' r ND'); auto. eapply Permutation_in; eauto.
  - destruct (find_rev t' i) as [r'|] eqn:F'; auto.
    destruct (find_rev_some _ _ _ F') as [I <-]. apply find_rev_none in F. exfalso. apply F.
    apply in_map. eapply Permutation_in; [apply Permutation_sym, P | exact I].
Qed.

(* two listings of the same tree have the same leaves, winner and flags *)
Theorem same_tree_same_outcome : forall t t', NoDup (map rid t) -> Permutation t t' ->
  Permutation (leaves t) (leaves t') /\ winning t = winning t' /\
  dcur (update_flags t) = dcur (update_flags t') /\ ddel (update_flags t) = ddel (update_flags t') /\
  dconf (update_flags t) = dconf (update_flags t') /\ dbranch (update_flags t) = dbranch (update_flags t').
Proof.
  intros t t' ND P. pose proof (leaves_perm t t' P) as L.
  pose proof (winner_perm _ _ L) as Wp.
  split; auto. unfold winning, update_flags; cbn [dcur ddel dconf dbranch]. rewrite Wp.
  repeat split; auto. apply del_of_perm; auto.
Qed.

(* order_independent (insertion level): two fully accepted insertion sequences that are permutations
   of each other end in the same tree (as a set of records), hence the same leaves, winner and flags *)
Theorem order_independent_adds : forall l1 l2 t1 t2,
  Permutation l1 l2 -> (forall r, In r l1 -> 1 <= gen (rid r)) ->
  add_all [] l1 = Some t1 -> add_all [] l2 = Some t2 ->
  Permutation t1 t2 /\ wf t1 /\ wf t2 /\
  Permutation (leaves t1) (leaves t2) /\ winning t1 = winning t2 /\
  dcur (update_flags t1) = dcur (update_flags t2) /\ ddel (update_flags t1) = ddel (update_flags t2) /\
  dconf (update_flags t1) = dconf (update_flags t2) /\ dbranch (update_flags t1) = dbranch (update_flags t2).
Proof.
  intros l1 l2 t1 t2 P V H1 H2.
  pose proof (add_all_wf l1 [] t1 wf_nil V H1) as W1.
  assert (V2 : forall r, In r l2 -> 1 <= gen (rid r)).
  { intros r I. apply V. eapply Permutation_in; [apply Permutation_sym, P | exact I]. }
  pose proof (add_all_wf l2 [] t2 wf_nil V2 H2) as W2.
  rewrite (add_all_shape _ _ _ H1), (add_all_shape _ _ _ H2) in *. rewrite !app_nil_r in *.
  assert (Pt : Permutation (List.rev l1) (List.rev l2)).
  { eapply Permutation_trans; [apply Permutation_sym, Permutation_rev|].
    eapply Permutation_trans; [exact P | apply Permutation_rev]. }
  split; auto. split; auto. split; auto.
  apply same_tree_same_outcome; auto. destruct W1; auto.
Qed.
