(* C04 proofs, part 11: with the repaired parseRevID (canonical generations only) a textual revision id
   is determined by the (generation, digest) pair it parses to - two different accepted strings never
   compare equal, so working on parsed ids loses nothing. *)
From SG Require Import Base.Prelude C04.RevId C04.OrderProofs.
Open Scope N_scope.

Lemma split_dash_app : forall s p d, split_dash s = Some (p, d) -> s = p ++ 45 :: d.
Proof.
  induction s as [|c s IH]; intros p d H; cbn in H; [congruence|].
  destruct (c =? 45) eqn:E.
  - inversion H; subst. apply N.eqb_eq in E. subst. reflexivity.
  - destruct (split_dash s) as [[a b]|]; [|congruence]. inversion H; subst. cbn. f_equal. apply IH. reflexivity.
Qed.

(* same length: the value determines the digits *)
Lemma digits_val_inj_len : forall p q a b v, length p = length q ->
  digits_val a p = Some v -> digits_val b q = Some v -> a = b /\ p = q.
Proof.
  induction p as [|c p IH]; intros [|c' q] a b v L H1 H2; cbn in L; try discriminate.
  - cbn in H1, H2. split; congruence.
  - cbn [digits_val] in H1, H2.
    destruct (is_digit c) eqn:D1; [|congruence]. destruct (is_digit c') eqn:D2; [|congruence].
    destruct (IH q _ _ v ltac:(lia) H1 H2) as [E ->].
    unfold is_digit in D1, D2. assert (a = b /\ c = c') by lia. destruct H as [-> ->]. auto.
Qed.

Lemma digits_val_bounds : forall p a v, digits_val a p = Some v ->
  a * 10 ^ N.of_nat (length p) <= v /\ v < (a + 1) * 10 ^ N.of_nat (length p).
Proof.
  induction p as [|c p IH]; intros a v H; cbn [digits_val length] in *.
  - inversion H; subst. cbn. lia.
  - destruct (is_digit c) eqn:D; [|congruence]. destruct (IH _ _ H) as [A B].
    replace (N.of_nat (S (length p))) with (N.succ (N.of_nat (length p))) by lia.
    rewrite N.pow_succ_r'. set (P := 10 ^ N.of_nat (length p)) in *.
    unfold is_digit in D. assert (K : c - 48 <= 9) by lia.
    split; nia.
Qed.

Lemma canonical_value_inj : forall p q v, canonical_prefix p = true -> canonical_prefix q = true ->
  digits_val 0 p = Some v -> digits_val 0 q = Some v -> p = q.
Proof.
  intros p q v Cp Cq Hp Hq.
  assert (Len : forall p v, canonical_prefix p = true -> digits_val 0 p = Some v ->
                 10 ^ N.of_nat (length p - 1) <= v /\ v < 10 ^ N.of_nat (length p)).
  { clear. intros [|c p] v C H; cbn in C; [congruence|]. cbn [digits_val] in H.
    destruct (is_digit c) eqn:D; [|congruence]. destruct (digits_val_bounds _ _ _ H) as [A B].
    unfold is_digit in D. cbn [length]. replace (S (length p) - 1)%nat with (length p) by lia.
    replace (N.of_nat (S (length p))) with (N.succ (N.of_nat (length p))) by lia.
    rewrite N.pow_succ_r'. set (P := 10 ^ N.of_nat (length p)) in *.
    assert (1 <= 0 * 10 + (c - 48) <= 9) by lia. split; nia. }
  destruct (Len p v Cp Hp) as [A1 B1]. destruct (Len q v Cq Hq) as [A2 B2].
  assert (L : length p = length q).
  { destruct (Nat.lt_trichotomy (length p) (length q)) as [L | [L | L]]; auto; exfalso.
    - assert (10 ^ N.of_nat (length p) <= 10 ^ N.of_nat (length q - 1)) by (apply N.pow_le_mono_r; lia). lia.
    - assert (10 ^ N.of_nat (length q) <= 10 ^ N.of_nat (length p - 1)) by (apply N.pow_le_mono_r; lia). lia. }
  destruct (digits_val_inj_len p q 0 0 v L Hp Hq). assumption.
Qed.

Lemma atoi_canonical : forall p g, canonical_prefix p = true -> atoi_pos p = Some g -> digits_val 0 p = Some g.
Proof.
  intros [|c p] g C H; cbn in C; [congruence|]. unfold atoi_pos in H.
  destruct (c =? 43) eqn:E; [cbn in C; congruence|].
  cbv beta iota zeta in H. destruct (digits_val 0 (c :: p)) as [v|]; [|congruence].
  destruct ((1 <=? v) && (v <=? max_int)); congruence.
Qed.

(* the repaired parser is injective: an accepted textual id is determined by what it parses to *)
Theorem parse_fixed_injective : forall a b x,
  parse_revid_gen true a = Some x -> parse_revid_gen true b = Some x -> a = b.
Proof.
  intros a b [g d] Ha Hb. unfold parse_revid_gen in *. cbn [andb] in *.
  destruct (split_dash a) as [[pa da]|] eqn:Sa; [|congruence].
  destruct (split_dash b) as [[pb db]|] eqn:Sb; [|congruence].
  destruct (atoi_pos pa) as [ga|] eqn:Aa; [|congruence].
  destruct (atoi_pos pb) as [gb|] eqn:Ab; [|congruence].
  destruct (canonical_prefix pa) eqn:Ca; cbn in Ha; [|congruence].
  destruct (canonical_prefix pb) eqn:Cb; cbn in Hb; [|congruence].
  inversion Ha; inversion Hb; subst.
  rewrite (split_dash_app _ _ _ Sa), (split_dash_app _ _ _ Sb). f_equal.
  eapply canonical_value_inj; eauto using atoi_canonical.
Qed.

(* hence two accepted textual ids compare equal only if they are the same string *)
Corollary cmp_fixed_zero_same : forall a b xa xb,
  parse_revid_gen true a = Some xa -> parse_revid_gen true b = Some xb -> cmp_raw_gen true a b = 0%Z -> a = b.
Proof.
  intros a b [ga da] [gb db] Ha Hb C. rewrite (cmp_raw_parsed true a b _ _ _ _ Ha Hb) in C.
  destruct (cmp_id (I ga da) (I gb db)) eqn:E; cbn in C; try discriminate.
  apply cmp_id_eq in E. inversion E; subst. eapply parse_fixed_injective; eauto.
Qed.
