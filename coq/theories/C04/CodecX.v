(* C04 model, part 5: RevTree.MarshalJSON / UnmarshalJSON with every field of RevInfo that is persisted
   (db/revtree.go revTreeList: revs, parents, deleted, bodies (legacy), bodymap, bodyKeyMap,
   channels (legacy), channelsMap, hasAttachments).  Struct level: RevTree <-> revTreeList; the JSON
   bytes of a revTreeList are in Json.v.  No proofs here. *)
From SG Require Import Base.Prelude.
From SG Require Export C04.RevTree.
Open Scope N_scope.

(* ---------- decimal numbers (strconv.FormatInt / ParseInt) ---------- *)
Fixpoint dec_fuel (f : nat) (n : N) : list N :=
  match f with
  | O => []
  | S f' => if n <? 10 then [48 + n] else dec_fuel f' (n / 10) ++ [48 + n mod 10]
  end.
Definition dec (n : N) : list N := dec_fuel (S (N.to_nat (N.size n))) n.
Definition decZ (z : Z) : list N := if (z <? 0)%Z then 45 :: dec (Z.to_N (- z)) else dec (Z.to_N z).

Definition max_int64 : Z := 9223372036854775807%Z.
(* strconv.ParseInt(s, 10, 64): optional sign, at least one digit, nothing else, in range *)
Definition parse_int (s : list N) : option Z :=
  let '(neg, body) := match s with
                      | c :: r => if c =? 45 then (true, r) else if c =? 43 then (false, r) else (false, s)
                      | [] => (false, s)
                      end in
  match body with
  | [] => None
  | _ => match digits_val 0 body with
         | Some v => let z := if neg then (- Z.of_N v)%Z else Z.of_N v in
                     if ((- max_int64 - 1 <=? z) && (z <=? max_int64))%Z then Some z else None
         | None => None
         end
  end.

(* ---------- the tree with all persisted fields ---------- *)
(* x_body: Some b = RevInfo.Body != nil (inline body);  x_key: BodyKey ([] = "");  x_chans: Channels as the
   sorted list of names ([] = nil or empty);  x_att: HasAttachments *)
Record xinfo := XI { x_body : option (list N); x_key : list N; x_chans : list (list N); x_att : bool }.
Record xrev := X { x_r : rev; x_i : xinfo }.
Definition xtree := list xrev.
Definition xid (x : xrev) : revid := rid (x_r x).
Definition strip (t : xtree) : tree := map x_r t.

Definition is_nil {A} (l : list A) : bool := match l with [] => true | _ => false end.
Definition bytes_eqb (a b : list N) : bool := list_eqb N.eqb a b.

Fixpoint lookup {V} (k : list N) (m : list (list N * V)) : option V :=
  match m with
  | [] => None
  | (k', v) :: r => if bytes_eqb k' k then Some v else lookup k r
  end.

(* ---------- revTreeList ---------- *)
(* maps are association lists keyed by the JSON object key (a string); [l_bodies_old] / [l_bodymap] keep
   the nil / non-nil distinction the decoder looks at *)
Record rtl := RTL {
  l_revs : list revid;
  l_parents : list Z;
  l_deleted : list Z;
  l_bodies_old : option (list (list N));
  l_bodymap : option (list (list N * list N));
  l_keymap : list (list N * list N);
  l_chans_old : list (list (list N));
  l_chanmap : list (list N * list (list N));
  l_att : list Z }.

(* ---------- MarshalJSON: RevTree -> revTreeList (the list order of t = the map iteration order) ---------- *)
Fixpoint enc_entries {V} (f : xrev -> option V) (t : xtree) (k : N) : list (list N * V) :=
  match t with
  | [] => []
  | x :: t' => match f x with
               | Some v => (dec k, v) :: enc_entries f t' (N.succ k)
               | None => enc_entries f t' (N.succ k)
               end
  end.

Fixpoint att_idx (t : xtree) (k : N) : list N :=
  match t with
  | [] => []
  | x :: t' => if x_att (x_i x) then k :: att_idx t' (N.succ k) else att_idx t' (N.succ k)
  end.

(* if info.Body != nil || info.BodyKey != "" { if info.BodyKey == "" { BodyMap[i] = Body } else { BodyKeyMap[i] = BodyKey } } *)
Definition body_entry (x : xrev) : option (list N) :=
  if is_nil (x_key (x_i x)) then x_body (x_i x) else None.
Definition key_entry (x : xrev) : option (list N) :=
  if is_nil (x_key (x_i x)) then None else Some (x_key (x_i x)).
Definition chan_entry (x : xrev) : option (list (list N)) :=
  if is_nil (x_chans (x_i x)) then None else Some (x_chans (x_i x)).

Definition xencode (t : xtree) : rtl :=
  let revs := map xid t in
  let bm := enc_entries body_entry t 0 in
  RTL revs
    (map (fun x => match rpar (x_r x) with
                   | None => (-1)%Z
                   | Some p => match index_of p revs 0 with Some j => Z.of_N j | None => (-1)%Z end
                   end) t)
    (map Z.of_N (deleted_idx (strip t) 0))
    None
    (if is_nil bm then None else Some bm)
    (enc_entries key_entry t 0)
    []
    (enc_entries chan_entry t 0)
    (map Z.of_N (att_idx t 0)).

(* ---------- UnmarshalJSON: revTreeList -> RevTree, error, or runtime panic ---------- *)
Inductive outcome := DOk (t : xtree) | DErr | DPanic.

Definition idx_ok (n : nat) (z : Z) : bool := ((0 <=? z) && (z <? Z.of_nat n))%Z.
Definition zmem (k : N) (l : list Z) : bool := existsb (Z.eqb (Z.of_N k)) l.

(* info.Body *)
Definition body_at (e : rtl) (k : N) : option (list N) :=
  match l_bodymap e with
  | Some m => match lookup (dec k) m with Some b => if is_nil b then None else Some b | None => None end
  | None => match l_bodies_old e with
            | Some bo => match nth_error bo (N.to_nat k) with
                         | Some b => if is_nil b then None else Some b
                         | None => None
                         end
            | None => None
            end
  end.
Definition key_at (e : rtl) (k : N) : list N :=
  match lookup (dec k) (l_keymap e) with Some b => b | None => [] end.
Definition parent_at (e : rtl) (p : Z) : option revid :=
  if (p <? 0)%Z then None else nth_error (l_revs e) (Z.to_nat p).

(* for iStr, channels := range rep.ChannelsMap { i, err := strconv.ParseInt(iStr, 10, 64); if err != nil {return err}
   info := tree[rep.Revs[i]] ... }   (entries taken in list order; Go iterates the map in random order, which
   matters only when several keys are malformed or denote the same index) *)
Inductive cres := COk (m : list (N * list (list N))) | CErr | CPanic.
Fixpoint resolve_chanmap (n : nat) (m : list (list N * list (list N))) : cres :=
  match m with
  | [] => COk []
  | (k, c) :: r => match parse_int k with
                   | None => CErr
                   | Some z => if idx_ok n z
                               then match resolve_chanmap n r with COk m' => COk ((Z.to_N z, c) :: m') | x => x end
                               else CPanic
                   end
  end.
Definition chans_at (cm : list (N * list (list N))) (k : N) : list (list N) :=
  match find (fun kc => fst kc =? k) cm with Some kc => snd kc | None => [] end.

(* the record built for position k *)
Fixpoint build (e : rtl) (cm : list (N * list (list N))) (k : N) (rs : list revid) (ps : list Z) : xtree :=
  match rs, ps with
  | i :: rs', p :: ps' =>
      X (R i (parent_at e p) (zmem k (l_deleted e))) (XI (body_at e k) (key_at e k) (chans_at cm k) (zmem k (l_att e)))
      :: build e cm (N.succ k) rs' ps'
  | _, _ => []
  end.

(* tree[revid] = &info: a later position with the same id replaces the earlier record; the index lists
   deleted / hasAttachments are applied through rep.Revs[i], i.e. to whatever record carries that id *)
Definition absorb (x y : xrev) : xrev :=
  if revid_eqb (xid x) (xid y)
  then X (R (xid y) (rpar (x_r y)) (rdel (x_r x) || rdel (x_r y)))
         (XI (x_body (x_i y)) (x_key (x_i y))
             (if is_nil (x_chans (x_i y)) then x_chans (x_i x) else x_chans (x_i y))
             (x_att (x_i x) || x_att (x_i y)))
  else y.
Fixpoint merge_dups (l : xtree) : xtree :=
  match l with
  | [] => []
  | x :: r => if existsb (revid_eqb (xid x)) (map xid r) then map (absorb x) (merge_dups r) else x :: merge_dups r
  end.

(* legacy "channels": applied to leaves other than the winner *)
Definition set_chans (i : revid) (c : list (list N)) (t : xtree) : xtree :=
  map (fun x => if revid_eqb (xid x) i then X (x_r x) (XI (x_body (x_i x)) (x_key (x_i x)) c (x_att (x_i x))) else x) t.
Fixpoint apply_chans_old (w : option revid) (t0 : tree) (revs : list revid) (cs : list (list (list N))) (t : xtree) : xtree :=
  match revs, cs with
  | i :: revs', c :: cs' =>
      let t' := if is_leaf t0 i && negb (opt_id_eqb (Some i) w) then set_chans i c t else t in
      apply_chans_old w t0 revs' cs' t'
  | _, _ => t
  end.

Definition parents_ok (e : rtl) : bool :=
  forallb (fun p => (p <? 0)%Z || (p <? Z.of_nat (length (l_revs e)))%Z) (l_parents e).
Definition bodies_old_ok (e : rtl) : bool :=
  match l_bodymap e, l_bodies_old e with
  | None, Some bo => (length (l_revs e) <=? length bo)%nat
  | _, _ => true
  end.

Definition xdecode (e : rtl) : outcome :=
  let n := length (l_revs e) in
  if negb (n =? length (l_parents e))%nat then DErr              (* "revs/parents counts are inconsistent" *)
  else if negb (is_nil (l_chanmap e)) && negb (is_nil (l_chans_old e)) then DErr   (* both channel fields *)
  else if negb (parents_ok e && bodies_old_ok e) then DPanic     (* rep.Revs[parentIndex] / rep.Bodies_Old[i] out of range *)
  else if negb (forallb (idx_ok n) (l_deleted e)) then DPanic    (* rep.Revs[i] out of range *)
  else if negb (forallb (idx_ok n) (l_att e)) then DPanic
  else match resolve_chanmap n (l_chanmap e) with
       | CErr => DErr
       | CPanic => DPanic
       | COk cm =>
           if (n <? length (l_chans_old e))%nat then DPanic
           else let t := merge_dups (build e cm 0 (l_revs e) (l_parents e)) in
                let t0 := strip t in
                DOk (apply_chans_old (w_id (winner_fold (leaves t0))) t0 (l_revs e) (l_chans_old e) t)
       end.

(* ---------- arrays_wf: the decidable condition under which the arrays denote a well-formed tree ---------- *)
Fixpoint nodupb (l : list revid) : bool :=
  match l with [] => true | x :: r => negb (existsb (revid_eqb x) r) && nodupb r end.
Fixpoint pgen_ok (e : rtl) (rs : list revid) (ps : list Z) : bool :=
  match rs, ps with
  | i :: rs', p :: ps' =>
      (1 <=? gen i) && match parent_at e p with Some q => gen q <? gen i | None => true end && pgen_ok e rs' ps'
  | _, _ => true
  end.
Definition arrays_wf (e : rtl) : bool :=
  (length (l_revs e) =? length (l_parents e))%nat
  && parents_ok e
  && forallb (idx_ok (length (l_revs e))) (l_deleted e)
  && forallb (idx_ok (length (l_revs e))) (l_att e)
  && match resolve_chanmap (length (l_revs e)) (l_chanmap e) with COk _ => true | _ => false end
  && nodupb (l_revs e)
  && pgen_ok e (l_revs e) (l_parents e).

(* no legacy field *)
Definition modern (e : rtl) : Prop := l_bodies_old e = None /\ l_chans_old e = [].

(* what a store + reload does to a tree whose records are not in normal form: dangling parents become
   roots, an inline body is dropped when a body key is set, an empty inline body becomes nil *)
Definition snip_rec (t0 : tree) (r : rev) : rev :=
  match rpar r with
  | Some p => if contains t0 p then r else R (rid r) None (rdel r)
  | None => r
  end.
Definition xnorm_rec (t0 : tree) (x : xrev) : xrev :=
  X (snip_rec t0 (x_r x))
    (XI (match body_entry x with Some b => if is_nil b then None else Some b | None => None end)
        (x_key (x_i x)) (x_chans (x_i x)) (x_att (x_i x))).
Definition xnorm (t : xtree) : xtree := map (xnorm_rec (strip t)) t.

(* set-like comparison for the correspondence *)
Definition xinfo_eqb (a b : xinfo) : bool :=
  option_eqb bytes_eqb (x_body a) (x_body b) && bytes_eqb (x_key a) (x_key b)
  && list_eqb bytes_eqb (x_chans a) (x_chans b) && Bool.eqb (x_att a) (x_att b).
Definition xrev_eqb (a b : xrev) : bool := rev_eqb (x_r a) (x_r b) && xinfo_eqb (x_i a) (x_i b).
Definition xtree_sub (a b : xtree) : bool := forallb (fun r => existsb (xrev_eqb r) b) a.
Definition xtree_eqb (a b : xtree) : bool :=
  (length a =? length b)%nat && xtree_sub a b && xtree_sub b a.
Definition outcome_eqb (a b : outcome) : bool :=
  match a, b with
  | DOk x, DOk y => xtree_eqb x y
  | DErr, DErr => true
  | DPanic, DPanic => true
  | _, _ => false
  end.
