(* C04 proofs, part 6: MarshalJSON / UnmarshalJSON (the revTreeList structure) round trip. *)
From Coq Require Import Permutation.
From SG Require Import Base.Prelude C04.RevId C04.RevTree C04.OrderProofs C04.WinnerProofs C04.WfProofs.
Open Scope N_scope.

Definition no_dangling (t : tree) : Prop :=
  forall r p, In r t -> rpar r = Some p -> contains t p = true.

Lemma index_of_nth : forall l i k j, index_of i l k = Some j ->
  k <= j /\ nth_error l (N.to_nat (j - k)) = Some i.
Proof.
  induction l as [|x l IH]; intros i k j H; cbn in H; [congruence|].
  destruct (revid_eqb x i) eqn:E.
  - inversion H; subst. apply revid_eqb_eq in E. subst. split; [lia|]. replace (j - j) with 0 by lia. reflexivity.
  - destruct (IH _ _ _ H) as [A B]. split; [lia|].
    replace (N.to_nat (j - k)) with (S (N.to_nat (j - N.succ k))) by lia. exact B.
Qed.

Lemma index_of_none : forall l i k, index_of i l k = None <-> ~ In i l.
Proof.
  induction l as [|x l IH]; intros i k; cbn.
  - split; auto.
  - destruct (revid_eqb x i) eqn:E.
    + apply revid_eqb_eq in E. split; [congruence | intros H; exfalso; apply H; auto].
    + apply revid_eqb_neq in E. rewrite IH. split; [intros H [K | K]; auto | intros H K; apply H; auto].
Qed.

Lemma deleted_idx_spec : forall t k j, existsb (N.eqb j) (deleted_idx t k) = true <->
  (k <= j /\ exists r, nth_error t (N.to_nat (j - k)) = Some r /\ rdel r = true).
Proof.
  induction t as [|x t IH]; intros k j; cbn [deleted_idx].
  - cbn. split; [congruence|]. intros [_ (r & H & _)]. destruct (N.to_nat (j - k)); cbn in H; congruence.
  - assert (R : existsb (N.eqb j) (deleted_idx t (N.succ k)) = true <->
                (k < j /\ exists r, nth_error t (N.to_nat (j - N.succ k)) = Some r /\ rdel r = true)).
    { rewrite IH. split; intros [A B]; split; auto; lia. }
    destruct (rdel x) eqn:D; cbn [existsb]; [rewrite orb_true_iff|]; rewrite R.
    + split.
      * intros [E | [A (r & B & C)]].
        -- apply N.eqb_eq in E. subst. split; [lia|]. exists x. replace (k - k) with 0 by lia. auto.
        -- split; [lia|]. exists r. replace (N.to_nat (j - k)) with (S (N.to_nat (j - N.succ k))) by lia. auto.
      * intros [A (r & B & C)]. destruct (N.eq_dec j k) as [-> | NE]; [left; apply N.eqb_refl|].
        right. split; [lia|]. exists r. replace (N.to_nat (j - k)) with (S (N.to_nat (j - N.succ k))) in B by lia. auto.
    + split.
      * intros [A (r & B & C)]. split; [lia|]. exists r.
        replace (N.to_nat (j - k)) with (S (N.to_nat (j - N.succ k))) by lia. auto.
      * intros [A (r & B & C)]. destruct (N.eq_dec j k) as [-> | NE].
        -- replace (k - k) with 0 in B by lia. cbn in B. inversion B; subst. congruence.
        -- split; [lia|]. exists r. replace (N.to_nat (j - k)) with (S (N.to_nat (j - N.succ k))) in B by lia. auto.
Qed.

(* decoding position by position: the tail [rest] of the tree starting at index k *)
Lemma decode_from_encode : forall t, NoDup (map rid t) ->
  forall rest pre, t = pre ++ rest ->
  decode_from (map rid t) (deleted_idx t 0) (N.of_nat (length pre)) (map rid rest)
    (map (fun r => match rpar r with None => None | Some p => index_of p (map rid t) 0 end) rest)
  = Some (map (fun r => R (rid r)
                          (match rpar r with Some p => if contains t p then Some p else None | None => None end)
                          (rdel r)) rest).
Proof.
  intros t ND. induction rest as [|x rest IH]; intros pre E; cbn [map decode_from].
  - reflexivity.
  - assert (E' : t = (pre ++ [x]) ++ rest) by (rewrite <- app_assoc; exact E).
    specialize (IH (pre ++ [x]) E'). rewrite app_length in IH. cbn [length] in IH.
    replace (N.of_nat (length pre + 1)) with (N.succ (N.of_nat (length pre))) in IH by lia.
    assert (Par : match (match rpar x with None => None | Some p => index_of p (map rid t) 0 end) with
                  | None => Some None
                  | Some j => match nth_error (map rid t) (N.to_nat j) with Some q => Some (Some q) | None => None end
                  end = Some (match rpar x with Some p => if contains t p then Some p else None | None => None end)).
    { destruct (rpar x) as [p|]; [|reflexivity].
      destruct (index_of p (map rid t) 0) as [j|] eqn:Ix.
      - destruct (index_of_nth _ _ _ _ Ix) as [_ Nth]. replace (j - 0) with j in Nth by lia. rewrite Nth.
        assert (C : contains t p = true) by (apply contains_in; eapply nth_error_In; eauto). rewrite C. reflexivity.
      - apply index_of_none in Ix. apply contains_false in Ix. rewrite Ix. reflexivity. }
    rewrite Par, IH. f_equal. f_equal. f_equal.
    (* the deleted bit *)
    destruct (existsb (N.eqb (N.of_nat (length pre))) (deleted_idx t 0)) eqn:Dx.
    + apply deleted_idx_spec in Dx. destruct Dx as [_ (r & Nth & D)].
      replace (N.to_nat (N.of_nat (length pre) - 0)) with (length pre) in Nth by lia.
      rewrite E, nth_error_app2, Nat.sub_diag in Nth by lia. cbn in Nth. inversion Nth; subst. auto.
    + destruct (rdel x) eqn:D; auto.
      assert (K : existsb (N.eqb (N.of_nat (length pre))) (deleted_idx t 0) = true).
      { apply deleted_idx_spec. split; [lia|]. exists x. split; auto.
        replace (N.to_nat (N.of_nat (length pre) - 0)) with (length pre) by lia.
        rewrite E, nth_error_app2, Nat.sub_diag by lia. reflexivity. }
      congruence.
Qed.

Lemma snip_eq : forall t,
  snip t = map (fun r => R (rid r) (match rpar r with Some p => if contains t p then Some p else None | None => None end) (rdel r)) t.
Proof.
  intros t. unfold snip. apply map_ext. intros [i [p|] d]; cbn; auto. destruct (contains t p); reflexivity.
Qed.

(* decode (encode t) = t with dangling parents cut (they are written as -1, "SG Issue #2847") *)
Theorem codec_roundtrip_snip : forall t, NoDup (map rid t) -> decode (encode t) = Some (snip t).
Proof.
  intros t ND. unfold decode, encode; cbn [e_revs e_parents e_deleted].
  rewrite snip_eq. exact (decode_from_encode t ND t [] eq_refl).
Qed.

Lemma snip_id : forall t, no_dangling t -> snip t = t.
Proof.
  intros t H. unfold snip. rewrite <- (map_id t) at 2. apply map_ext_in. intros r I.
  destruct (rpar r) as [p|] eqn:E; auto. rewrite (H r p I E). reflexivity.
Qed.

Lemma wf_no_dangling : forall t, wf t -> no_dangling t.
Proof. intros t (_ & _ & P) r p I E. destruct (P r p I E). assumption. Qed.

(* codec_roundtrip: whatever order the encoder iterates the map in (any permutation t' of t), decoding
   gives back that listing of the tree exactly - the same set of (id, parent, deleted) records *)
Theorem codec_roundtrip : forall t t', wf t -> Permutation t t' ->
  decode (encode t') = Some t' /\ Permutation t t'.
Proof.
  intros t t' W P. split; auto.
  pose proof (wf_perm t t' P W) as W'.
  rewrite codec_roundtrip_snip; [|destruct W'; auto].
  rewrite snip_id; auto. apply wf_no_dangling. exact W'.
Qed.
