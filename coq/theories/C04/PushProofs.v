(* C04 proofs, part 5: two databases that accept the same revisions (pushed with their ancestries,
   PutExistingRev) in different orders end with the same leaves, winner and flags.
   The revisions come from a source forest [S]; a push carries the ancestry of one of its nodes and that
   node's tombstone bit.  Intermediate revisions are inserted as non-deleted whatever they were at the
   source, so the two trees may differ in the deleted bit of NON-leaf nodes - nothing else. *)
From Coq Require Import Permutation.
From SG Require Import Base.Prelude C04.RevId C04.RevTree C04.DocModel C04.OrderProofs C04.WinnerProofs C04.WfProofs C04.FlagsProofs.
Open Scope N_scope.

Definition parentS (S : tree) (i : revid) : option revid :=
  match find_rev S i with Some r => rpar r | None => None end.
Definition delS (S : tree) (i : revid) : bool := del_of S (Some i).

(* [l] lists a node of S followed by its parent, grand-parent, ... up to a root *)
Fixpoint linked (S : tree) (l : list revid) : Prop :=
  match l with
  | [] => True
  | a :: tl => contains S a = true /\ parentS S a = hd_error tl /\ linked S tl
  end.

Definition par_of (older : list revid) (base : option revid) : option revid :=
  match older with [] => base | o :: _ => Some o end.

(* the records add_hist creates *)
Fixpoint recs (nw : list revid) (base : option revid) (deleted : bool) : list rev :=
  match nw with
  | [] => []
  | h :: older => R h (par_of older base) deleted :: recs older base false
  end.

Lemma NoDup_app_intro {A} (a b : list A) :
  NoDup a -> NoDup b -> (forall x, In x a -> In x b -> False) -> NoDup (a ++ b).
Proof.
  induction a as [|x a IH]; intros Na Nb D; cbn; auto.
  inversion Na; subst. constructor.
  - intros I. apply in_app_or in I. destruct I as [I | I]; auto. eapply D; [left; reflexivity | exact I].
  - apply IH; auto. intros y Ia Ib. eapply D; [right; exact Ia | exact Ib].
Qed.

Lemma recs_ids : forall nw base d, map rid (recs nw base d) = nw.
Proof. induction nw as [|h o IH]; intros; cbn; auto. rewrite IH. reflexivity. Qed.

Lemma contains_app : forall a b i, contains (a ++ b) i = contains a i || contains b i.
Proof.
  induction a as [|x a IH]; intros b i; cbn [app].
  - reflexivity.
  - rewrite !contains_cons, IH. apply orb_assoc.
Qed.

Lemma contains_recs : forall nw base d i, contains (recs nw base d) i = true <-> In i nw.
Proof. intros. rewrite contains_in, recs_ids. reflexivity. Qed.

Lemma parentS_gen : forall S a b, wf S -> parentS S a = Some b -> gen b < gen a.
Proof.
  intros S a b (ND & V & P) H. unfold parentS in H.
  destruct (find_rev S a) as [r|] eqn:F; [|congruence].
  destruct (find_rev_some _ _ _ F) as [I <-]. destruct (P r b I H). assumption.
Qed.

Lemma linked_gens : forall S l a, wf S -> linked S (a :: l) -> forall x, In x l -> gen x < gen a.
Proof.
  intros S l. induction l as [|b l IH]; intros a W L x I; [destruct I|].
  cbn in L. destruct L as (Ca & Pa & L). cbn in Pa.
  pose proof (parentS_gen S a b W Pa) as G.
  destruct I as [<- | I]; auto.
  pose proof (IH b W L x I). lia.
Qed.

Lemma linked_app_r : forall S a b, linked S (a ++ b) -> linked S b.
Proof. induction a as [|x a IH]; intros b L; auto. cbn in L. apply IH. tauto. Qed.

Lemma hd_error_app : forall (a b : list revid), hd_error (a ++ b) = par_of a (hd_error b).
Proof. intros [|x a] b; reflexivity. Qed.

(* acceptance, with the explicit resulting tree *)
Lemma add_hist_ok : forall S, wf S -> forall nw known t d,
  linked S (nw ++ known) ->
  (forall x, In x nw -> contains t x = false) ->
  (forall k, hd_error known = Some k -> contains t k = true) ->
  add_hist t nw (hd_error known) d = Some (recs nw (hd_error known) d ++ t).
Proof.
  intros S W. induction nw as [|h older IH]; intros known t d L NI K; cbn [add_hist recs app].
  - reflexivity.
  - pose proof L as L0. cbn [app linked] in L. destruct L as (Ch & Ph & L).
    rewrite (IH known t false L); auto; [| intros x I; apply NI; right; exact I].
    change (match older with [] => hd_error known | o :: _ => Some o end) with (par_of older (hd_error known)).
    unfold add; cbn [rid rpar rdel].
    rewrite contains_app.
    assert (E1 : contains (recs older (hd_error known) false) h = false).
    { apply contains_false. rewrite recs_ids. intros I.
      pose proof (linked_gens S (older ++ known) h W L0 h (in_or_app _ _ _ (or_introl I))). lia. }
    rewrite E1, (NI h (or_introl eq_refl)). cbn [orb].
    rewrite hd_error_app in Ph.
    destruct (par_of older (hd_error known)) as [p|] eqn:Ep; [|reflexivity].
    pose proof (parentS_gen S h p W Ph) as G.
    assert (Cp : contains (recs older (hd_error known) false ++ t) p = true).
    { rewrite contains_app. destruct older as [|o r]; cbn [par_of] in Ep.
      - rewrite (K p Ep). apply orb_true_r.
      - inversion Ep; subst. cbn [recs]. rewrite contains_cons; cbn [rid]. rewrite revid_eqb_refl. reflexivity. }
    rewrite Cp. cbn [negb]. destruct (gen h <=? gen p) eqn:E; [lia | reflexivity].
Qed.

Lemma split_known_spec : forall t hist nw parent, split_known t hist = (nw, parent) ->
  exists known, hist = nw ++ known /\ parent = hd_error known /\
    (forall x, In x nw -> contains t x = false) /\
    (forall k, hd_error known = Some k -> contains t k = true).
Proof.
  intros t. induction hist as [|h r IH]; intros nw parent H; cbn in H.
  - inversion H; subst. exists []. repeat split; auto; [intros ? [] | cbn; congruence].
  - destruct (contains t h) eqn:C.
    + inversion H; subst. exists (h :: r). repeat split; auto; [intros ? [] | cbn; intros k E; inversion E; subst; auto].
    + destruct (split_known t r) as [n p] eqn:E. inversion H; subst.
      destruct (IH n parent eq_refl) as (known & E1 & E2 & E3 & E4).
      exists known. repeat split; auto; [cbn; congruence|].
      intros x [<- | I]; auto.
Qed.

(* ---- the part of the source that a database has received so far ---- *)
Definition sub_tree (S t : tree) : Prop :=
  NoDup (map rid t) /\
  (forall r, In r t -> contains S (rid r) = true /\ rpar r = parentS S (rid r)) /\
  (forall r p, In r t -> rpar r = Some p -> contains t p = true) /\
  (forall r, In r t -> is_parent t (rid r) = false -> rdel r = delS S (rid r)).

Lemma sub_tree_nil : forall S, sub_tree S [].
Proof.
  intros S. split; [constructor|]. split; [intros ? []|]. split; [intros ? ? [] | intros ? []].
Qed.

Lemma sub_tree_wf : forall S t, wf S -> sub_tree S t -> wf t.
Proof.
  intros S t W (ND & A & B & _). split; auto. split.
  - intros r I. destruct (A r I) as [C _]. apply contains_in in C. apply in_map_iff in C.
    destruct C as (q & E & Iq). rewrite <- E. destruct W as (_ & V & _). auto.
  - intros r p I E. split; [eapply B; eauto|]. destruct (A r I) as [_ P]. rewrite E in P.
    symmetry in P. eapply parentS_gen; eauto.
Qed.

(* once the head of a history is known, all of it is *)
Lemma known_all : forall S t, sub_tree S t -> forall l k, linked S (k :: l) -> contains t k = true ->
  forall x, In x l -> contains t x = true.
Proof.
  intros S t (ND & A & B & _). induction l as [|b l IH]; intros k L C x I; [destruct I|].
  cbn in L. destruct L as (_ & Pk & L). cbn in Pk.
  apply contains_in in C. apply in_map_iff in C. destruct C as (r & E & Ir).
  destruct (A r Ir) as [_ Pr]. rewrite E, Pk in Pr.
  pose proof (B r b Ir Pr) as Cb.
  destruct I as [<- | I]; auto. eapply IH; eauto.
Qed.

Lemma recs_parentS : forall S nw known d, linked S (nw ++ known) ->
  forall r, In r (recs nw (hd_error known) d) -> contains S (rid r) = true /\ rpar r = parentS S (rid r).
Proof.
  intros S. induction nw as [|h older IH]; intros known d L r I; [destruct I|].
  cbn [app linked] in L. destruct L as (Ch & Ph & L).
  cbn [recs] in I. destruct I as [<- | I].
  - cbn [rid rpar]. rewrite Ph, hd_error_app. auto.
  - eapply IH; eauto.
Qed.

(* every non-head element of the new part gets a child *)
Lemma recs_inner_parent : forall older h base d o, In o older -> is_parent (recs (h :: older) base d) o = true.
Proof.
  induction older as [|x older IH]; intros h base d o I; [destruct I|].
  destruct I as [<- | I].
  - apply is_parent_iff. exists (R h (Some x) d). split; [left; reflexivity | reflexivity].
  - cbn [recs]. specialize (IH x base false o I). apply is_parent_iff in IH. destruct IH as (r & Ir & E).
    apply is_parent_iff. exists r. split; auto. right. exact Ir.
Qed.

Lemma is_parent_app : forall a b i, is_parent (a ++ b) i = is_parent a i || is_parent b i.
Proof. intros. unfold is_parent. apply existsb_app. Qed.

Definition push_tree (t : tree) (hist : list revid) (d : bool) : option tree :=
  let (nw, parent) := split_known t hist in add_hist t nw parent d.

(* one push of a history of the source is accepted and keeps the invariant *)
Lemma push_ok : forall S t h hist, wf S -> sub_tree S t -> linked S (h :: hist) ->
  exists t', push_tree t (h :: hist) (delS S h) = Some t' /\ sub_tree S t' /\
    (forall i, contains t' i = true <-> (contains t i = true \/ In i (h :: hist))).
Proof.
  intros S t h hist W ST L. unfold push_tree.
  destruct (split_known t (h :: hist)) as [nw parent] eqn:E.
  destruct (split_known_spec _ _ _ _ E) as (known & E1 & -> & NI & K).
  rewrite E1 in L.
  rewrite (add_hist_ok S W nw known t (delS S h) L NI K).
  eexists. split; [reflexivity|].
  (* the known part is entirely in t *)
  assert (KA : forall x, In x known -> contains t x = true).
  { destruct known as [|k kl]; [intros ? []|]. intros x [<- | I]; [apply K; reflexivity|].
    eapply known_all; eauto. eapply linked_app_r; eauto. apply K. reflexivity. }
  assert (IDS : forall i, contains (recs nw (hd_error known) (delS S h) ++ t) i = true <->
                          (contains t i = true \/ In i (h :: hist))).
  { intros i. rewrite contains_app, orb_true_iff, contains_recs, E1. split.
    - intros [I | C]; auto. right. apply in_or_app. auto.
    - intros [C | I]; auto. apply in_app_or in I. destruct I as [I | I]; auto. }
  split; [|exact IDS].
  destruct ST as (ND & A & B & D).
  assert (NDnw : NoDup nw).
  { clear - W L. induction nw as [|x nw IH]; [constructor|]. constructor.
    - intros I. pose proof (linked_gens S (nw ++ known) x W L x (in_or_app _ _ _ (or_introl I))). lia.
    - apply IH. cbn in L. tauto. }
  split; [|split; [|split]].
  - rewrite map_app, recs_ids. apply NoDup_app_intro; auto.
    intros x I1 I2. apply contains_in in I2. rewrite (NI x I1) in I2. congruence.
  - intros r I. apply in_app_or in I. destruct I as [I | I]; auto. eapply recs_parentS; eauto.
  - intros r p I Ep. apply in_app_or in I. destruct I as [I | I].
    + destruct (recs_parentS S nw known _ L r I) as [_ P]. rewrite Ep in P.
      (* p is the element following rid r in the history *)
      apply IDS. right. rewrite E1.
      assert (Ir : In (rid r) nw) by (rewrite <- (recs_ids nw (hd_error known) (delS S h)); apply in_map; exact I).
      clear - L P Ir. induction nw as [|x nw IH]; [destruct Ir|].
      cbn [app linked] in L. destruct L as (_ & Px & L).
      destruct Ir as [-> | Ir].
      * rewrite Px in P. right. destruct (nw ++ known); cbn in P; [congruence|]. inversion P; subst. left. reflexivity.
      * right. apply IH; auto.
    + rewrite contains_app. rewrite (B r p I Ep). apply orb_true_r.
  - intros r I NP. rewrite is_parent_app in NP. apply orb_false_iff in NP. destruct NP as [NP1 NP2].
    apply in_app_or in I. destruct I as [I | I]; [| auto].
    destruct nw as [|x older]; [destruct I|].
    assert (x = h) by (cbn in E1; congruence). subst x.
    cbn [recs] in I. destruct I as [<- | I]; [reflexivity|].
    assert (Io : In (rid r) older) by (rewrite <- (recs_ids older (hd_error known) false); apply in_map; exact I).
    rewrite (recs_inner_parent older h (hd_error known) (delS S h) (rid r) Io) in NP1. congruence.
Qed.

(* ---- sequences of pushes ---- *)
Definition push := (list revid * bool)%type.

Fixpoint push_all (t : tree) (ps : list push) : option tree :=
  match ps with
  | [] => Some t
  | (hist, d) :: r => match push_tree t hist d with Some t' => push_all t' r | None => None end
  end.

(* the push carries the full ancestry of a node of S and that node's tombstone bit *)
Definition valid_push (S : tree) (p : push) : Prop :=
  match fst p with
  | [] => False
  | h :: _ => linked S (fst p) /\ snd p = delS S h
  end.

Lemma push_all_ok : forall S, wf S -> forall ps t, sub_tree S t -> Forall (valid_push S) ps ->
  exists t', push_all t ps = Some t' /\ sub_tree S t' /\
    (forall i, contains t' i = true <-> (contains t i = true \/ exists p, In p ps /\ In i (fst p))).
Proof.
  intros S W. induction ps as [|[hist d] ps IH]; intros t ST V.
  - exists t. split; [reflexivity|]. split; auto. intros i. split; auto. intros [C | (p & [] & _)]; auto.
  - inversion V as [|? ? V1 V2]; subst. unfold valid_push in V1; cbn [fst snd] in V1.
    destruct hist as [|h hist]; [destruct V1|]. destruct V1 as [L ->].
    destruct (push_ok S t h hist W ST L) as (t1 & E & ST1 & I1).
    destruct (IH t1 ST1 V2) as (t' & E' & ST' & I').
    exists t'. cbn [push_all]. rewrite E. split; auto. split; auto.
    intros i. rewrite I', I1. split.
    + intros [[C | I] | (p & Ip & Ii)]; auto.
      * right. exists (h :: hist, delS S h). split; [left; reflexivity | exact I].
      * right. exists p. split; [right|]; assumption.
    + intros [C | (p & [<- | Ip] & Ii)]; auto. right. exists p. auto.
Qed.

(* two received parts of the same source with the same ids have the same leaves *)
Lemma sub_tree_same_leaves : forall S t1 t2, sub_tree S t1 -> sub_tree S t2 ->
  (forall i, contains t1 i = true <-> contains t2 i = true) ->
  forall r, In r (leaves t1) -> In r (leaves t2).
Proof.
  intros S t1 t2 (ND1 & A1 & B1 & D1) (ND2 & A2 & B2 & D2) IDS r I.
  apply in_leaves in I. destruct I as [I NP].
  assert (C2 : contains t2 (rid r) = true) by (apply IDS, contains_in, in_map, I).
  apply contains_in in C2. apply in_map_iff in C2. destruct C2 as (r2 & E & I2).
  assert (NP2 : is_parent t2 (rid r2) = false).
  { apply is_parent_false. intros x Ix Ex.
    assert (C1 : contains t1 (rid x) = true) by (apply IDS, contains_in, in_map, Ix).
    apply contains_in in C1. apply in_map_iff in C1. destruct C1 as (x1 & E1 & Ix1).
    destruct (A1 x1 Ix1) as [_ P1]. destruct (A2 x Ix) as [_ P2].
    rewrite E1, <- P2, Ex, E in P1.
    exact (proj1 (is_parent_false t1 (rid r)) NP x1 Ix1 P1). }
  assert (r2 = r).
  { destruct r as [i p d], r2 as [i2 p2 d2]. cbn [rid] in *. subst i2.
    destruct (A1 _ I) as [_ P1]. destruct (A2 _ I2) as [_ P2]. cbn [rid rpar] in *.
    pose proof (D1 _ I NP) as X1. pose proof (D2 _ I2 NP2) as X2. cbn [rid rdel] in *. congruence. }
  subst r2. apply in_leaves. auto.
Qed.

Lemma nodup_map_nodup {A B} (f : A -> B) l : NoDup (map f l) -> NoDup l.
Proof.
  induction l as [|x l IH]; intros H; [constructor|]. inversion H; subst.
  constructor; auto. intros I. apply H2. apply in_map. exact I.
Qed.

Lemma sub_tree_leaves_perm : forall S t1 t2, sub_tree S t1 -> sub_tree S t2 ->
  (forall i, contains t1 i = true <-> contains t2 i = true) ->
  Permutation (leaves t1) (leaves t2).
Proof.
  intros S t1 t2 ST1 ST2 IDS. apply NoDup_Permutation.
  - apply NoDup_filter. eapply nodup_map_nodup. destruct ST1; eauto.
  - apply NoDup_filter. eapply nodup_map_nodup. destruct ST2; eauto.
  - intros r. split; eapply sub_tree_same_leaves; eauto. intros i. symmetry. apply IDS.
Qed.

(* the deleted bit of the winner, read from either tree *)
Lemma winner_del_same : forall S t1 t2, sub_tree S t1 -> sub_tree S t2 ->
  Permutation (leaves t1) (leaves t2) ->
  del_of t1 (w_id (winner_fold (leaves t1))) = del_of t2 (w_id (winner_fold (leaves t1))).
Proof.
  intros S t1 t2 ST1 ST2 P.
  destruct (fold_max (leaves t1) w_init) as (_ & _ & C). cbn zeta in C. fold (winner_fold (leaves t1)) in C.
  destruct C as [[C _] | (r & I & C & _)]; rewrite C; [reflexivity|].
  assert (I2 : In r (leaves t2)) by (eapply Permutation_in; eauto).
  apply in_leaves in I, I2. unfold del_of.
  destruct ST1 as (ND1 & _). destruct ST2 as (ND2 & _).
  rewrite (find_rev_nodup t1 r ND1), (find_rev_nodup t2 r ND2); tauto.
Qed.

(* push_order_independent, at the level of trees *)
Theorem push_order_independent_tree : forall S ps1 ps2, wf S -> Forall (valid_push S) ps1 -> Permutation ps1 ps2 ->
  exists t1 t2, push_all [] ps1 = Some t1 /\ push_all [] ps2 = Some t2 /\
    wf t1 /\ wf t2 /\
    (forall i, contains t1 i = contains t2 i) /\
    (forall r1 r2, In r1 t1 -> In r2 t2 -> rid r1 = rid r2 -> rpar r1 = rpar r2) /\
    Permutation (leaves t1) (leaves t2) /\
    update_flags t1 = D t1 (dcur (update_flags t2)) (ddel (update_flags t2)) (dconf (update_flags t2)) (dbranch (update_flags t2)).
Proof.
  intros S ps1 ps2 W V1 P.
  assert (V2 : Forall (valid_push S) ps2) by (eapply Permutation_Forall; eauto).
  destruct (push_all_ok S W ps1 [] (sub_tree_nil S) V1) as (t1 & E1 & ST1 & I1).
  destruct (push_all_ok S W ps2 [] (sub_tree_nil S) V2) as (t2 & E2 & ST2 & I2).
  exists t1, t2. split; auto. split; auto.
  split; [eapply sub_tree_wf; eauto|]. split; [eapply sub_tree_wf; eauto|].
  assert (IDS : forall i, contains t1 i = true <-> contains t2 i = true).
  { intros i. rewrite I1, I2. split; intros [C | (p & Ip & Ii)]; try (cbn in C; congruence); right; exists p; split; auto.
    - eapply Permutation_in; eauto.
    - eapply Permutation_in; [apply Permutation_sym|]; eauto. }
  split.
  { intros i. specialize (IDS i). destruct (contains t1 i), (contains t2 i); intuition congruence. }
  split.
  { intros r1 r2 Ir1 Ir2 E. destruct ST1 as (_ & A1 & _). destruct ST2 as (_ & A2 & _).
    destruct (A1 r1 Ir1) as [_ ->]. destruct (A2 r2 Ir2) as [_ ->]. rewrite E. reflexivity. }
  pose proof (sub_tree_leaves_perm S t1 t2 ST1 ST2 IDS) as LP.
  split; auto.
  unfold update_flags; cbn [dcur ddel dconf dbranch].
  rewrite <- (winner_perm _ _ LP). f_equal. eapply winner_del_same; eauto.
Qed.
