(* C04 correspondence: cases observed on the real db.RevTree / Document / collection write path by
   the Go harness (harness/db/verif_c04_test.go) are re-evaluated here on the model. *)
(* String first: the list functions exported by Prelude (length, ...) must shadow the string ones; the case files
   written by the harness use string literals ([unB "..."%string]) for long byte strings *)
From Coq Require Export String.
From SG Require Export Base.Prelude Base.Bytes C04.RevId C04.RevTree C04.DocModel C04.History C04.CodecX C04.Json.
Open Scope N_scope.

Inductive case :=
| CParse (s : list N) (r : option (N * list N))           (* parseRevID: Some (gen, digest) | None = error *)
| CCmp (a b : list N) (r : Z)                             (* compareRevIDs on the textual ids *)
| CAdd (steps : list (rev * bool * option revid))         (* addRevision calls: (rev, accepted, winner afterwards) *)
       (fin : tree) (lv : list revid) (w : option revid) (br cf : bool)
       (flags : option (bool * bool * bool))              (* Deleted, Conflict, Branched after updateWinningRevAndSetDocFlags *)
| CPrune (t : tree) (maxd : N) (pruned : N) (res : tree) (w : option revid)
| CCodec (t : tree) (ps : list (option N)) (dels : list N) (back : tree)
         (* t in the order MarshalJSON emitted "revs"; its "parents"/"deleted"; UnmarshalJSON of those bytes *)
| CDecode (e : enc) (res : tree)                          (* UnmarshalJSON of a hand-built revTreeList *)
| CDb (allowC : bool) (limit : N) (steps : list (op * result * doc))
| CBody (allowC : bool) (limit : N) (steps : list (op * N))   (* requests in commit order, each with the id of the body it carries *)
        (cur : option revid) (curBody : option N)           (* stored current revision; body id read back (None: tombstone) *)
        (leafBodies : list (revid * N))                     (* every live leaf with the body id read back after a revision-cache flush *)
(* ---- deepening: history queries, pruning twice / then adding, the codec with all fields and at byte level ---- *)
| CHist (t : tree)                                          (* a RevTree (possibly with dangling parents or cycles) *)
        (qs : list (revid * (list revid * bool) * option revid * bool))
                                                            (* id, getHistory (ids, error?), getParent, isLeaf *)
        (cyc : bool)                                        (* ContainsCycles *)
        (fa : list (revid * list revid * option revid))     (* findAncestorFromSet(id, set) (acyclic trees only) *)
| CPruneX (t : tree) (maxd : N) (res : tree)                (* tree, pruneRevisions(maxd) result *)
          (pruned2 : N) (same2 : bool)                      (* pruning the result again: number removed, tree unchanged? *)
          (child : rev) (ok1 ok2 : bool) (w1 w2 : option revid)
                                                            (* addRevision(child) on the unpruned / pruned tree: accepted?, winner *)
          (hs : list (revid * list revid * list revid))     (* per leaf of the result: getHistory before / after pruning *)
| CXCodec (t : xtree) (bytes : list N) (back : xtree)       (* t in the order MarshalJSON wrote "revs"; its bytes; UnmarshalJSON(bytes) *)
| CXDecode (e : rtl) (bytes : list N) (res : outcome)       (* hand-built revTreeList, its JSON, what UnmarshalJSON did *)
| CXBytes (s : list N) (res : outcome).                     (* hand-written JSON text; what UnmarshalJSON did *)

Definition ids_sub (a b : list revid) : bool := forallb (fun i => existsb (revid_eqb i) b) a.
Definition ids_eqb (a b : list revid) : bool :=
  (N.of_nat (length a) =? N.of_nat (length b)) && ids_sub a b && ids_sub b a.

Definition pair_eqb (a b : N * list N) : bool := (fst a =? fst b) && list_eqb N.eqb (snd a) (snd b).

Fixpoint run_adds (t : tree) (steps : list (rev * bool * option revid)) : option tree :=
  match steps with
  | [] => Some t
  | (r, acc, w) :: rest =>
      let t' := match add t r with Some t' => t' | None => t end in
      if Bool.eqb acc (match add t r with Some _ => true | None => false end)
         && opt_id_eqb w (w_id (winner_fold (leaves t')))
      then run_adds t' rest else None
  end.

Definition doc_eqb (a b : doc) : bool :=
  tree_eqb (dtree a) (dtree b) && opt_id_eqb (dcur a) (dcur b) && Bool.eqb (ddel a) (ddel b)
  && Bool.eqb (dconf a) (dconf b) && Bool.eqb (dbranch a) (dbranch b).

Fixpoint run_db (allowC : bool) (limit : N) (d : doc) (steps : list (op * result * doc)) : bool :=
  match steps with
  | [] => true
  | (o, r, obs) :: rest =>
      let (d', r') := step code_fixed allowC limit d o in
      result_eqb r r' && doc_eqb obs d' && run_db allowC limit d' rest
  end.

(* bodies: a revision's body is the one carried by the request that added it as its newest revision *)
Fixpoint body_of (bs : list (revid * N)) (i : revid) : option N :=
  match bs with
  | [] => None
  | (j, b) :: r => if revid_eqb j i then Some b else body_of r i
  end.

Fixpoint run_bodies (allowC : bool) (limit : N) (d : doc) (bs : list (revid * N)) (steps : list (op * N))
  : doc * list (revid * N) :=
  match steps with
  | [] => (d, bs)
  | (o, b) :: rest =>
      let (d', res) := step code_fixed allowC limit d o in
      let bs' := match res, o with
                 | ROk, OPush (h :: _) _ _ => (h, b) :: bs
                 | ROk, OPut _ _ newid => (newid, b) :: bs
                 | _, _ => bs
                 end in
      run_bodies allowC limit d' bs' rest
  end.

Definition check_bodies (allowC : bool) (limit : N) (steps : list (op * N)) (cur : option revid)
           (curBody : option N) (leafBodies : list (revid * N)) : bool :=
  let (d, bs) := run_bodies allowC limit empty_doc [] steps in
  let lv := filter (fun r => negb (rdel r)) (leaves (dtree d)) in
  opt_id_eqb cur (dcur d)
  && (if ddel d then true
      else match dcur d with Some w => option_eqb N.eqb curBody (body_of bs w) | None => false end)
  && (N.of_nat (length lv) =? N.of_nat (length leafBodies))
  && forallb (fun r => option_eqb N.eqb (body_of leafBodies (rid r)) (body_of bs (rid r))) lv.

Definition opt_ids_eqb (a b : list revid) : bool := list_eqb revid_eqb a b.

Definition check_hist_q (t : tree) (q : revid * (list revid * bool) * option revid * bool) : bool :=
  let '(i, (h, err), par, lf) := q in
  let (h', err') := get_history t i in
  opt_ids_eqb h h' && Bool.eqb err err' && opt_id_eqb par (get_parent t i) && Bool.eqb lf (is_leaf t i).

(* boolean well-formedness of a stored tree (WfProofs.wf) *)
Definition wfb (t : tree) : bool :=
  nodupb (map rid t)
  && forallb (fun r => (1 <=? gen (rid r))
                       && match rpar r with Some p => contains t p && (gen p <? gen (rid r)) | None => true end) t.

Definition is_modern (e : rtl) : bool :=
  match l_bodies_old e with None => is_nil (l_chans_old e) | Some _ => false end.

Definition check (c : case) : bool :=
  match c with
  | CParse s r => option_eqb pair_eqb (parse_revid s) r
  | CCmp a b r => (cmp_raw a b =? r)%Z
  | CAdd steps fin lv w br cf flags =>
      match run_adds [] steps with
      | None => false
      | Some t =>
          tree_eqb fin t && ids_eqb lv (map rid (leaves t))
          && (let '(w', br', cf') := winning t in opt_id_eqb w w' && Bool.eqb br br' && Bool.eqb cf cf')
          && match flags with
             | Some (fd, fc, fb) =>
                 let d := update_flags t in
                 Bool.eqb fd (ddel d) && Bool.eqb fc (dconf d) && Bool.eqb fb (dbranch d) && opt_id_eqb w (dcur d)
             | None => match t with [] => true | _ => false end
             end
      end
  | CPrune t maxd pruned res w =>
      let (t', n) := prune maxd t in
      (n =? pruned) && tree_eqb res t' && opt_id_eqb w (w_id (winner_fold (leaves t')))
  | CCodec t ps dels back =>
      let e := encode t in
      list_eqb (option_eqb N.eqb) (e_parents e) ps && list_eqb N.eqb (e_deleted e) dels
      && match decode e with Some t' => tree_eqb back t' && tree_eqb back (snip t) | None => false end
  | CDecode e res =>
      match decode e with Some t' => tree_eqb res t' | None => false end
  | CDb allowC limit steps => run_db allowC limit empty_doc steps
  | CBody allowC limit steps cur curBody leafBodies => check_bodies allowC limit steps cur curBody leafBodies
  | CHist t qs cyc fa =>
      forallb (check_hist_q t) qs && Bool.eqb cyc (contains_cycles t)
      && forallb (fun q => let '(i, ancs, r) := q in opt_id_eqb r (find_anc t i ancs)) fa
  | CPruneX t maxd res pruned2 same2 child ok1 ok2 w1 w2 hs =>
      let (t', _) := prune maxd t in
      let (t'', n2) := prune maxd t' in
      tree_eqb res t' && (n2 =? pruned2) && Bool.eqb same2 (tree_eqb t'' t')
      && (match add t child with
          | Some u => ok1 && opt_id_eqb w1 (w_id (winner_fold (leaves u)))
          | None => negb ok1 && opt_id_eqb w1 (w_id (winner_fold (leaves t)))
          end)
      && (match add t' child with
          | Some u => ok2 && opt_id_eqb w2 (w_id (winner_fold (leaves u)))
          | None => negb ok2 && opt_id_eqb w2 (w_id (winner_fold (leaves t')))
          end)
      && forallb (fun q => let '(i, hb, ha) := q in
                           opt_ids_eqb hb (fst (get_history t i)) && opt_ids_eqb ha (fst (get_history t' i))) hs
  | CXCodec t bytes back =>
      list_eqb N.eqb (encode_json t) bytes
      && match decode_json bytes with
         | Some (DOk t') => xtree_eqb back t' && xtree_eqb back (xnorm t)
         | _ => false
         end
  | CXDecode e bytes res =>
      outcome_eqb (xdecode e) res
      && (if is_modern e then list_eqb N.eqb (print_rtl e) bytes else true)
      && match parse_rtl bytes with Some e' => outcome_eqb (xdecode e') res | None => negb (is_modern e) end
      && (if is_modern e
          then Bool.eqb (arrays_wf e)
                        (match res with
                         | DOk t => wfb (strip t) && (length t =? length (l_revs e))%nat
                         | _ => false
                         end)
          else true)
  | CXBytes s res =>
      match decode_json s with Some o => outcome_eqb o res | None => false end
  end.

Definition mismatches (cs : list case) : list N := failing check cs.
