(* C04 -- Revision trees stay well-formed with a deterministic, order-independent winner.
   Nothing but the property theorems; each is closed by [exact] of a lemma proved elsewhere.
   Model: RevId.v (ids), RevTree.v (db/revtree.go), DocModel.v (db/crud.go write path).
   A Go map is modelled by a list; "for every iteration order" = "for every permutation". *)
From Coq Require Import Permutation String.
From SG Require Import Base.Bytes.
From SG Require Import Base.Prelude C04.RevId C04.RevTree C04.DocModel C04.OrderProofs C04.WinnerProofs
  C04.WfProofs C04.FlagsProofs C04.PushProofs C04.PruneProofs C04.PruneLeaves C04.CodecProofs C04.DocProofs
  C04.DocProofsPrune C04.TextIds
  C04.History C04.HistoryProofs C04.PruneDeep C04.CodecX C04.CodecXProofs C04.Json C04.JsonProofs C04.JsonRoundTrip.
Open Scope N_scope.

(* ---- compareRevIDs: a total order, generation first, then byte-wise digest ---- *)
Theorem C04_cmp_total_order : forall a b c,
  (cmp_id a b = Eq <-> a = b) /\
  cmp_id b a = CompOpp (cmp_id a b) /\
  (cmp_id a b = Lt -> cmp_id b c = Lt -> cmp_id a c = Lt) /\
  (cmp_id a b = Lt <-> (gen a < gen b \/ (gen a = gen b /\ cmp_dig (dig a) (dig b) = Lt))).
Proof.
  intros a b c. split; [split; [apply cmp_id_eq | intros ->; apply cmp_id_refl]|].
  split; [apply cmp_id_antisym|]. split; [apply cmp_id_lt_trans | apply cmp_id_lt_iff].
Qed.
Print Assumptions C04_cmp_total_order.

(* textual ids ([parse_revid], [cmp_raw] = the repaired parser, code_fixed = true): comparison is the
   comparison of what they parse to, accepted ids have generation >= 1, and - since non-canonical
   generations ("01", "+1") are rejected - an accepted string is determined by the pair it parses to:
   two different accepted ids never compare equal *)
Theorem C04_cmp_textual : forall s1 s2 g1 d1 g2 d2,
  parse_revid s1 = Some (g1, d1) -> parse_revid s2 = Some (g2, d2) ->
  cmp_raw s1 s2 = cmp_to_Z (cmp_id (I g1 d1) (I g2 d2)) /\ 1 <= g1.
Proof. intros. split; [apply cmp_raw_parsed; assumption | eapply parse_revid_gen_pos; eauto]. Qed.
Print Assumptions C04_cmp_textual.

Theorem C04_textual_ids_injective : forall a b xa xb,
  parse_revid a = Some xa -> parse_revid b = Some xb ->
  (xa = xb -> a = b) /\ (cmp_raw a b = 0%Z -> a = b).
Proof.
  intros a b xa xb Ha Hb. split.
  - intros <-. exact (parse_fixed_injective a b xa Ha Hb).
  - exact (cmp_fixed_zero_same a b xa xb Ha Hb).
Qed.
Print Assumptions C04_textual_ids_injective.

(* ---- the winner does not depend on the iteration order of the leaves (no hypothesis at all) ---- *)
Theorem C04_winner_perm : forall l l', Permutation l l' -> winner_fold l = winner_fold l'.
Proof. exact winner_perm. Qed.
Print Assumptions C04_winner_perm.

(* ---- the winner is the leaf maximising (not deleted, generation, digest) ---- *)
Theorem C04_winner_is_max : forall l, l <> [] -> (forall r, In r l -> 1 <= gen (rid r)) ->
  exists w, In w l /\ w_id (winner_fold l) = Some (rid w) /\ w_exists (winner_fold l) = negb (rdel w) /\
    forall r, In r l -> outranks w r \/ (rid r = rid w /\ rdel r = rdel w).
Proof. exact winner_is_max. Qed.
Print Assumptions C04_winner_is_max.

(* ---- accepted insertions preserve well-formedness; rejected ones leave the tree alone ---- *)
Theorem C04_add_wf : forall t r t', wf t -> 1 <= gen (rid r) -> add t r = Some t' -> t' = r :: t /\ wf t'.
Proof. exact add_wf. Qed.
Print Assumptions C04_add_wf.

Theorem C04_add_rejected_iff : forall t r,
  add t r = None <->
  (contains t (rid r) = true \/ exists p, rpar r = Some p /\ (contains t p = false \/ gen (rid r) <= gen p)).
Proof. exact add_rejected_iff. Qed.
Print Assumptions C04_add_rejected_iff.

(* a well-formed tree is a forest: one record per id (hence one parent), every proper ancestor has a
   strictly smaller generation, no cycle *)
Theorem C04_wf_is_forest : forall t, wf t ->
  (forall r1 r2, In r1 t -> In r2 t -> rid r1 = rid r2 -> r1 = r2) /\
  (forall a d, ancestor t a d -> gen a < gen d) /\
  (forall a, ~ ancestor t a a).
Proof.
  intros t W. split; [intros; eapply wf_unique_parent; eauto|].
  split; [intros; eapply wf_ancestor_gen; eauto | intros; apply wf_acyclic; auto].
Qed.
Print Assumptions C04_wf_is_forest.

(* ---- current revision and flags as computed by updateWinningRevAndSetDocFlags ---- *)
Theorem C04_flags_agree : forall t, wf t -> t <> [] ->
  let d := update_flags t in
  exists w, max_leaf t w /\ dcur d = Some (rid w) /\
    ddel d = rdel w /\
    (ddel d = true <-> forall l, In l (leaves t) -> rdel l = true) /\
    (dconf d = true <-> (2 <= length (filter live (leaves t)))%nat) /\
    (dbranch d = true <-> (2 <= length (leaves t))%nat).
Proof. exact flags_agree. Qed.
Print Assumptions C04_flags_agree.

(* ---- order independence, insertion level: permuted fully accepted addRevision sequences ---- *)
Theorem C04_order_independent_adds : forall l1 l2 t1 t2,
  Permutation l1 l2 -> (forall r, In r l1 -> 1 <= gen (rid r)) ->
  add_all [] l1 = Some t1 -> add_all [] l2 = Some t2 ->
  Permutation t1 t2 /\ wf t1 /\ wf t2 /\
  Permutation (leaves t1) (leaves t2) /\ winning t1 = winning t2 /\
  dcur (update_flags t1) = dcur (update_flags t2) /\ ddel (update_flags t1) = ddel (update_flags t2) /\
  dconf (update_flags t1) = dconf (update_flags t2) /\ dbranch (update_flags t1) = dbranch (update_flags t2).
Proof. exact order_independent_adds. Qed.
Print Assumptions C04_order_independent_adds.

(* ---- order independence, database level: the same revisions of a source forest S pushed with their
   ancestries (PutExistingRev, conflicts allowed) in two different orders ---- *)
Theorem C04_push_order_independent : forall fx S ps1 ps2 limit,
  wf S -> Forall (valid_push S) ps1 -> Permutation ps1 ps2 -> N.of_nat (length S) <= limit ->
  let d1 := run fx true limit empty_doc (map to_op ps1) in
  let d2 := run fx true limit empty_doc (map to_op ps2) in
  wf (dtree d1) /\ wf (dtree d2) /\
  (forall i, contains (dtree d1) i = contains (dtree d2) i) /\
  (forall r1 r2, In r1 (dtree d1) -> In r2 (dtree d2) -> rid r1 = rid r2 -> rpar r1 = rpar r2) /\
  Permutation (leaves (dtree d1)) (leaves (dtree d2)) /\
  dcur d1 = dcur d2 /\ ddel d1 = ddel d2 /\ dconf d1 = dconf d2 /\ dbranch d1 = dbranch d2.
Proof. exact push_order_independent. Qed.
Print Assumptions C04_push_order_independent.

(* ---- every document reachable by ANY sequence of Put / PutExistingRev requests (accepted or rejected,
   either mode, ANY revs_limit >= 1, pruning included), for the code as it is now (code_fixed = true:
   Branched recomputed after pruning): the stored tree is a forest, the current revision is its maximal
   leaf, Deleted, Conflict AND Branched agree exactly with its leaves, and in conflict-free mode there is
   at most one live leaf.  This is the full statement. ---- *)
Theorem C04_reachable_documents : forall allowC limit ops,
  Forall valid_op ops -> 1 <= limit ->
  let d := run code_fixed allowC limit empty_doc ops in
  wf (dtree d) /\
  (dtree d <> [] ->
   exists w, max_leaf (dtree d) w /\ dcur d = Some (rid w) /\ ddel d = rdel w /\
     (ddel d = true <-> forall l, In l (leaves (dtree d)) -> rdel l = true) /\
     (dconf d = true <-> (2 <= length (filter live (leaves (dtree d))))%nat) /\
     (dbranch d = true <-> (2 <= length (leaves (dtree d)))%nat)) /\
  (allowC = false -> (length (filter live (leaves (dtree d))) <= 1)%nat).
Proof. exact reachable_exact. Qed.
Print Assumptions C04_reachable_documents.

(* what held already before the repair (fx = false) and still holds (fx = true): everything except
   that Branched may be stale-true after pruning *)
Theorem C04_reachable_documents_any_version : forall fx allowC limit ops,
  Forall valid_op ops -> 1 <= limit ->
  let d := run fx allowC limit empty_doc ops in
  wf (dtree d) /\
  (dtree d <> [] ->
   exists w, max_leaf (dtree d) w /\ dcur d = Some (rid w) /\ ddel d = rdel w /\
     (ddel d = true <-> forall l, In l (leaves (dtree d)) -> rdel l = true) /\
     (dconf d = true <-> (2 <= length (filter live (leaves (dtree d))))%nat) /\
     ((2 <= length (leaves (dtree d)))%nat -> dbranch d = true)) /\
  (allowC = false -> (length (filter live (leaves (dtree d))) <= 1)%nat).
Proof. exact reachable_all. Qed.
Print Assumptions C04_reachable_documents_any_version.

(* the full statement for the code BEFORE commit ac6ea40: refuted in C04_Refuted.v *)
Definition C04_reachable_documents_old_code_statement : Prop := forall allowC limit ops,
  Forall valid_op ops -> 1 <= limit ->
  let d := run false allowC limit empty_doc ops in
  wf (dtree d) /\
  (dtree d <> [] ->
   exists w, max_leaf (dtree d) w /\ dcur d = Some (rid w) /\ ddel d = rdel w /\
     (ddel d = true <-> forall l, In l (leaves (dtree d)) -> rdel l = true) /\
     (dconf d = true <-> (2 <= length (filter live (leaves (dtree d))))%nat) /\
     (dbranch d = true <-> (2 <= length (leaves (dtree d)))%nat)) /\
  (allowC = false -> (length (filter live (leaves (dtree d))) <= 1)%nat).

(* ---- pruning ---- *)
(* the pruned tree is well-formed: in particular no dangling parent link, generations still increase *)
Theorem C04_prune_wf : forall maxd t, wf t -> wf (fst (prune maxd t)).
Proof. exact prune_wf. Qed.
Print Assumptions C04_prune_wf.

(* pruning only removes records and cuts parent links; ids and tombstone bits are untouched; the count is exact *)
Theorem C04_prune_sub : forall maxd t r', In r' (fst (prune maxd t)) ->
  exists r, In r t /\ rid r' = rid r /\ rdel r' = rdel r /\ (rpar r' = rpar r \/ rpar r' = None).
Proof. exact prune_sub. Qed.
Print Assumptions C04_prune_sub.

Theorem C04_prune_count : forall maxd t,
  snd (prune maxd t) = N.of_nat (length t) - N.of_nat (length (fst (prune maxd t))).
Proof. exact prune_count. Qed.
Print Assumptions C04_prune_count.

(* pruning (maxDepth >= 1) keeps the winner, every live leaf (same ids, still live), and creates no leaf *)
Theorem C04_prune_keeps_winner : forall maxd t, wf t -> 1 <= maxd ->
  let s' := winner_fold (leaves (fst (prune maxd t))) in
  let s := winner_fold (leaves t) in
  w_id s' = w_id s /\ w_exists s' = w_exists s /\ w_active s' = w_active s /\ w_leaves s' <= w_leaves s.
Proof. exact prune_keeps_winner. Qed.
Print Assumptions C04_prune_keeps_winner.

Theorem C04_prune_keeps_live_leaves : forall maxd t, wf t -> 1 <= maxd ->
  map idel (filter live (leaves (fst (prune maxd t)))) = map idel (filter live (leaves t)).
Proof. exact prune_keeps_live. Qed.
Print Assumptions C04_prune_keeps_live_leaves.

(* after pruning no node is more than maxd levels above its NEAREST leaf (the depth that
   computeDepthsAndFindLeaves assigns).  Proved below as C04_prune_depth_bound (deepening round); the
   harness monitor prune_depth_bound evaluates the same statement on every pruned tree. *)
Definition C04_prune_depth_bound_full_statement : Prop := forall maxd t, wf t -> 1 <= maxd ->
  let t' := fst (prune maxd t) in
  forall r d, In r t' -> depth_of (depth_entries t') (rid r) = Some d -> d <= maxd.

(* ---- storing and reloading (the revTreeList structure of MarshalJSON / UnmarshalJSON) ---- *)
(* for whatever order t' the encoder iterates the map in, decoding returns exactly that listing *)
Theorem C04_codec_roundtrip : forall t t', wf t -> Permutation t t' ->
  decode (encode t') = Some t' /\ Permutation t t'.
Proof. exact codec_roundtrip. Qed.
Print Assumptions C04_codec_roundtrip.

(* without well-formedness: dangling parents are written as -1 and come back as roots *)
Theorem C04_codec_roundtrip_dangling : forall t, NoDup (map rid t) -> decode (encode t) = Some (snip t).
Proof. exact codec_roundtrip_snip. Qed.
Print Assumptions C04_codec_roundtrip_dangling.

(* ======================= deepening round =======================
   (2) pruneRevisions.  The Go function takes a third argument keepRev which its body never reads; that
   nothing is lost by ignoring it is C04_prune_keeps_winner above (callers pass the current revision). *)
Theorem C04_prune_depth_bound : C04_prune_depth_bound_full_statement.
Proof. exact prune_depth_bound. Qed.
Print Assumptions C04_prune_depth_bound.

(* which leaves survive, exactly: all but the [doomed] ones = tombstoned leaves whose generation is more
   than maxDepth below the shortest live branch (only when the tree has more than maxDepth revisions);
   ids and tombstone bits of the survivors are unchanged, no leaf appears, the winner stays *)
Theorem C04_prune_keeps_leaves_and_winner : forall maxd t, wf t -> 1 <= maxd ->
  let t' := fst (prune maxd t) in
  (forall l, In l (leaves t) -> doomed maxd t l = false -> exists l', In l' (leaves t') /\ idel l' = idel l) /\
  (forall l', In l' (leaves t') -> exists l, In l (leaves t) /\ doomed maxd t l = false /\ idel l' = idel l) /\
  (forall l, doomed maxd t l = true -> rdel l = true /\ shortest_live t <> None) /\
  (forall l, In l (leaves t) -> rdel l = false -> doomed maxd t l = false) /\
  w_id (winner_fold (leaves t')) = w_id (winner_fold (leaves t)) /\
  w_exists (winner_fold (leaves t')) = w_exists (winner_fold (leaves t)) /\
  w_active (winner_fold (leaves t')) = w_active (winner_fold (leaves t)).
Proof. exact prune_keeps_leaves_and_winner. Qed.
Print Assumptions C04_prune_keeps_leaves_and_winner.

Theorem C04_prune_preserves_winner : forall maxd t, wf t -> 1 <= maxd ->
  let t' := fst (prune maxd t) in
  fst (fst (winning t')) = fst (fst (winning t)) /\ snd (winning t') = snd (winning t) /\
  (snd (fst (winning t')) = true -> snd (fst (winning t)) = true).
Proof. exact prune_preserves_winner. Qed.
Print Assumptions C04_prune_preserves_winner.

Theorem C04_prune_idempotent : forall maxd t, wf t -> 1 <= maxd ->
  prune maxd (fst (prune maxd t)) = (fst (prune maxd t), 0).
Proof. exact prune_idempotent. Qed.
Print Assumptions C04_prune_idempotent.

Theorem C04_prune_then_add_consistent : forall maxd t r p, wf t -> 1 <= maxd ->
  rpar r = Some p -> gen p < gen (rid r) -> contains t (rid r) = false ->
  let t' := fst (prune maxd t) in
  is_leaf t' p = true ->
  add t r = Some (r :: t) /\ add t' r = Some (r :: t') /\
  let s := winner_fold (leaves (r :: t)) in
  let s' := winner_fold (leaves (r :: t')) in
  w_id s' = w_id s /\ w_exists s' = w_exists s /\ w_active s' = w_active s.
Proof. exact prune_then_add_consistent. Qed.
Print Assumptions C04_prune_then_add_consistent.

(* (3) history queries.  [hist t i] = chain (length t) t i is what getHistory returns on a tree with
   unique ids and increasing generations (C04_get_history_no_cycle_error). *)
Theorem C04_get_history_no_cycle_error : forall t i, pre_wf t ->
  get_history t i = (hist t i, false) /\ contains_cycles t = false.
Proof. intros t i H. split; [apply get_history_pre_wf | apply wf_contains_no_cycles]; exact H. Qed.
Print Assumptions C04_get_history_no_cycle_error.

(* history_is_path_to_root_or_prune_point *)
Theorem C04_history_is_path : forall t i, pre_wf t -> contains t i = true ->
  let h := hist t i in
  nth_error h 0 = Some i /\
  (forall n x y, nth_error h n = Some x -> nth_error h (S n) = Some y ->
     gen y < gen x /\ exists r, In r t /\ rid r = x /\ rpar r = Some y) /\
  (forall n x, nth_error h n = Some x -> nth_error h (S n) = None ->
     exists r, In r t /\ rid r = x /\ (rpar r = None \/ exists p, rpar r = Some p /\ contains t p = false)) /\
  (forall n m x, nth_error h n = Some x -> nth_error h m = Some x -> n = m) /\
  (length h <= length t)%nat.
Proof. exact history_is_path. Qed.
Print Assumptions C04_history_is_path.

Theorem C04_history_after_prune : forall maxd t i, wf t ->
  let t' := fst (prune maxd t) in
  (exists rest, hist t i = hist t' i ++ rest) /\
  (forall n x, nth_error (hist t' i) n = Some x -> nth_error (hist t' i) (S n) = None ->
     exists r, In r t /\ rid r = x /\ (rpar r = None \/ exists p, rpar r = Some p /\ contains t' p = false)).
Proof. exact history_after_prune. Qed.
Print Assumptions C04_history_after_prune.

Theorem C04_get_parent_is_second : forall t i, wf t -> get_parent t i = nth_error (hist t i) 1.
Proof. exact get_parent_is_second. Qed.
Print Assumptions C04_get_parent_is_second.

Theorem C04_find_ancestor_sound_complete : forall t i A, wf t -> contains t i = true ->
  (forall a, find_anc t i A = Some a <->
     exists n, nth_error (hist t i) n = Some a /\ In a A /\
       forall m x, (m < n)%nat -> nth_error (hist t i) m = Some x -> ~ In x A) /\
  (find_anc t i A = None <-> forall x, In x (hist t i) -> ~ In x A).
Proof. exact find_ancestor_sound_complete. Qed.
Print Assumptions C04_find_ancestor_sound_complete.

Theorem C04_find_ancestor_absent : forall t i A, contains t i = false ->
  find_anc t i A = if mem_id A i then Some i else None.
Proof. exact find_anc_absent. Qed.
Print Assumptions C04_find_ancestor_absent.

Theorem C04_is_ancestor_iff : forall t a d, wf t -> (is_ancestor t a d = true <-> ancestor t a d).
Proof. exact is_ancestor_iff. Qed.
Print Assumptions C04_is_ancestor_iff.

(* (1) MarshalJSON / UnmarshalJSON with every persisted field, revTreeList level *)
Theorem C04_struct_roundtrip_any_listing : forall t, NoDup (map xid t) -> (Z.of_nat (length t) <= max_int64)%Z ->
  xdecode (xencode t) = DOk (xnorm t).
Proof. exact xcodec_roundtrip_norm. Qed.
Print Assumptions C04_struct_roundtrip_any_listing.

Theorem C04_arrays_wf_iff : forall e, modern e ->
  (arrays_wf e = true <-> exists t, xdecode e = DOk t /\ wf (strip t) /\ length t = length (l_revs e)).
Proof. exact arrays_wf_iff. Qed.
Print Assumptions C04_arrays_wf_iff.

(* each malformed shape: error, runtime panic, or silent acceptance *)
Theorem C04_decode_malformed_shapes :
  (forall e, length (l_revs e) <> length (l_parents e) -> xdecode e = DErr) /\
  (forall e, length (l_revs e) = length (l_parents e) -> l_chanmap e <> [] -> l_chans_old e <> [] -> xdecode e = DErr) /\
  (forall e p, length (l_revs e) = length (l_parents e) -> (l_chanmap e = [] \/ l_chans_old e = []) ->
     In p (l_parents e) -> (Z.of_nat (length (l_revs e)) <= p)%Z -> xdecode e = DPanic) /\
  (forall e z, length (l_revs e) = length (l_parents e) -> (l_chanmap e = [] \/ l_chans_old e = []) ->
     parents_ok e = true -> bodies_old_ok e = true -> In z (l_deleted e) \/ In z (l_att e) ->
     idx_ok (length (l_revs e)) z = false -> xdecode e = DPanic) /\
  (forall e t, xdecode e = DOk t ->
     (length t <= length (l_revs e))%nat /\ (length t = length (l_revs e) <-> NoDup (l_revs e))) /\
  (arrays_wf self_parent_arrays = false /\
   exists t, xdecode self_parent_arrays = DOk t /\ strip t = [R (I 1 [97]) (Some (I 1 [97])) false] /\
     snd (get_history (strip t) (I 1 [97])) = true /\ contains_cycles (strip t) = false).
Proof.
  split; [exact decode_length_mismatch|]. split; [exact decode_both_channel_fields|].
  split; [exact decode_parent_out_of_range|]. split; [exact decode_index_out_of_range|].
  split; [exact decode_duplicates_merged | exact decode_accepts_cycle].
Qed.
Print Assumptions C04_decode_malformed_shapes.

(* byte level *)
Theorem C04_parse_print_rtl : forall e, rtl_ascii e -> gens_ok e -> l_bodies_old e = None -> l_chans_old e = [] ->
  parse_rtl (print_rtl e) = Some (canon e).
Proof. exact parse_print_rtl. Qed.
Print Assumptions C04_parse_print_rtl.

Theorem C04_revtree_json_roundtrip : forall t t', xwf t -> Permutation t t' -> xascii t -> gens_le t ->
  (Z.of_nat (length t) <= max_int64)%Z ->
  decode_json (encode_json t') = Some (DOk t').
Proof. exact revtree_json_roundtrip. Qed.
Print Assumptions C04_revtree_json_roundtrip.

Theorem C04_encode_deterministic_up_to_order : forall t t1 t2, xwf t -> xascii t -> gens_le t ->
  (Z.of_nat (length t) <= max_int64)%Z -> Permutation t t1 -> Permutation t t2 ->
  decode_json (encode_json t1) = Some (DOk t1) /\ decode_json (encode_json t2) = Some (DOk t2) /\
  Permutation t1 t2 /\
  encode_json (sort_tree t1) = encode_json (sort_tree t2) /\
  decode_json (encode_json (sort_tree t1)) = Some (DOk (sort_tree t1)) /\ Permutation (sort_tree t1) t.
Proof. exact encode_deterministic_up_to_order. Qed.
Print Assumptions C04_encode_deterministic_up_to_order.

(* ---- non-vacuity: a source forest with a conflict, a tombstone and an equal-generation tie ---- *)
Definition ex_S : tree :=
  [ R (I 3 [97]) (Some (I 2 [97])) true; R (I 2 [98]) (Some (I 1 [97])) false;
    R (I 2 [97]) (Some (I 1 [97])) false; R (I 1 [97]) None false ].
Definition ex_ps : list push :=
  [ ([I 3 [97]; I 2 [97]; I 1 [97]], true); ([I 2 [98]; I 1 [97]], false) ].

Example C04_nonvacuous :
  add_all [] (List.rev ex_S) = Some ex_S /\
  Forall (valid_push ex_S) ex_ps /\ Forall valid_op (map to_op ex_ps) /\
  winning ex_S = (Some (I 2 [98]), true, false) /\
  tree_eqb (dtree (run code_fixed true 100 empty_doc (map to_op ex_ps))) ex_S = true /\
  dcur (run code_fixed true 100 empty_doc (map to_op (List.rev ex_ps))) = Some (I 2 [98]) /\
  tree_eqb (fst (prune 1 ex_S)) [ R (I 3 [97]) None true; R (I 2 [98]) None false ] = true.
Proof.
  split; [vm_compute; reflexivity|].
  split; [repeat constructor|].
  split; [repeat constructor; intros i H; cbn in H; intuition (subst; cbn; lia)|].
  repeat split; vm_compute; reflexivity.
Qed.

(* deepening round: a tree with an inline body, an external body key, channels and an attachment flag;
   its bytes; a history; a pruned tree to which a child is added *)
Definition ex_X : xtree :=
  [ X (R (I 3 [97]) (Some (I 2 [97])) true) (XI None [] [] false);
    X (R (I 2 [98]) (Some (I 1 [97])) false) (XI (Some [123;125]) [] [[65]; [66]] true);
    X (R (I 2 [97]) (Some (I 1 [97])) false) (XI None [107] [] false);
    X (R (I 1 [97]) None false) (XI None [] [] false) ].

Example C04_nonvacuous_deep :
  strip ex_X = ex_S /\
  encode_json ex_X = unB "{""revs"":[""3-a"",""2-b"",""2-a"",""1-a""],""parents"":[2,3,3,-1],""deleted"":[0],""bodymap"":{""1"":""{}""},""bodyKeyMap"":{""2"":""k""},""channelsMap"":{""1"":[""A"",""B""]},""hasAttachments"":[1]}" /\
  decode_json (encode_json ex_X) = Some (DOk ex_X) /\
  arrays_wf (xencode ex_X) = true /\
  get_history ex_S (I 3 [97]) = ([I 3 [97]; I 2 [97]; I 1 [97]], false) /\
  find_anc ex_S (I 3 [97]) [I 1 [97]; I 2 [98]] = Some (I 1 [97]) /\
  doomed 1 ex_S (R (I 3 [97]) (Some (I 2 [97])) true) = false /\
  prune 1 (fst (prune 1 ex_S)) = (fst (prune 1 ex_S), 0).
Proof. repeat split; vm_compute; reflexivity. Qed.
