(* C04 -- Revision trees stay well-formed with a deterministic, order-independent winner.
   Nothing but the property theorems; each is closed by [exact] of a lemma proved elsewhere.
   Model: RevId.v (ids), RevTree.v (db/revtree.go), DocModel.v (db/crud.go write path).
   A Go map is modelled by a list; "for every iteration order" = "for every permutation". *)
From Coq Require Import Permutation.
From SG Require Import Base.Prelude C04.RevId C04.RevTree C04.DocModel C04.OrderProofs C04.WinnerProofs
  C04.WfProofs C04.FlagsProofs C04.PushProofs C04.PruneProofs C04.PruneLeaves C04.CodecProofs C04.DocProofs
  C04.DocProofsPrune C04.TextIds.
Open Scope N_scope.

(* ---- compareRevIDs: a total order, generation first, then byte-wise digest ---- *)
Theorem C04_cmp_total_order : forall a b c,
  (cmp_id a b = Eq <-> a = b) /\
  cmp_id b a = CompOpp (cmp_id a b) /\
  (cmp_id a b = Lt -> cmp_id b c = Lt -> cmp_id a c = Lt) /\
  (cmp_id a b = Lt <-> (gen a < gen b \/ (gen a = gen b /\ cmp_dig (dig a) (dig b) = Lt))).
Proof.
  intros a b c. split; [split; [apply cmp_id_eq | intros ->; apply cmp_id_refl]|].
  split; [apply cmp_id_antisym|]. split; [apply cmp_id_lt_trans | apply cmp_id_lt_iff].
Qed.
Print Assumptions C04_cmp_total_order.

(* textual ids ([parse_revid], [cmp_raw] = the repaired parser, code_fixed = true): comparison is the
   comparison of what they parse to, accepted ids have generation >= 1, and - since non-canonical
   generations ("01", "+1") are rejected - an accepted string is determined by the pair it parses to:
   two different accepted ids never compare equal *)
Theorem C04_cmp_textual : forall s1 s2 g1 d1 g2 d2,
  parse_revid s1 = Some (g1, d1) -> parse_revid s2 = Some (g2, d2) ->
  cmp_raw s1 s2 = cmp_to_Z (cmp_id (I g1 d1) (I g2 d2)) /\ 1 <= g1.
Proof. intros. split; [apply cmp_raw_parsed; assumption | eapply parse_revid_gen_pos; eauto]. Qed.
Print Assumptions C04_cmp_textual.

Theorem C04_textual_ids_injective : forall a b xa xb,
  parse_revid a = Some xa -> parse_revid b = Some xb ->
  (xa = xb -> a = b) /\ (cmp_raw a b = 0%Z -> a = b).
Proof.
  intros a b xa xb Ha Hb. split.
  - intros <-. exact (parse_fixed_injective a b xa Ha Hb).
  - exact (cmp_fixed_zero_same a b xa xb Ha Hb).
Qed.
Print Assumptions C04_textual_ids_injective.

(* ---- the winner does not depend on the iteration order of the leaves (no hypothesis at all) ---- *)
Theorem C04_winner_perm : forall l l', Permutation l l' -> winner_fold l = winner_fold l'.
Proof. exact winner_perm. Qed.
Print Assumptions C04_winner_perm.

(* ---- the winner is the leaf maximising (not deleted, generation, digest) ---- *)
Theorem C04_winner_is_max : forall l, l <> [] -> (forall r, In r l -> 1 <= gen (rid r)) ->
  exists w, In w l /\ w_id (winner_fold l) = Some (rid w) /\ w_exists (winner_fold l) = negb (rdel w) /\
    forall r, In r l -> outranks w r \/ (rid r = rid w /\ rdel r = rdel w).
Proof. exact winner_is_max. Qed.
Print Assumptions C04_winner_is_max.

(* ---- accepted insertions preserve well-formedness; rejected ones leave the tree alone ---- *)
Theorem C04_add_wf : forall t r t', wf t -> 1 <= gen (rid r) -> add t r = Some t' -> t' = r :: t /\ wf t'.
Proof. exact add_wf. Qed.
Print Assumptions C04_add_wf.

Theorem C04_add_rejected_iff : forall t r,
  add t r = None <->
  (contains t (rid r) = true \/ exists p, rpar r = Some p /\ (contains t p = false \/ gen (rid r) <= gen p)).
Proof. exact add_rejected_iff. Qed.
Print Assumptions C04_add_rejected_iff.

(* a well-formed tree is a forest: one record per id (hence one parent), every proper ancestor has a
   strictly smaller generation, no cycle *)
Theorem C04_wf_is_forest : forall t, wf t ->
  (forall r1 r2, In r1 t -> In r2 t -> rid r1 = rid r2 -> r1 = r2) /\
  (forall a d, ancestor t a d -> gen a < gen d) /\
  (forall a, ~ ancestor t a a).
Proof.
  intros t W. split; [intros; eapply wf_unique_parent; eauto|].
  split; [intros; eapply wf_ancestor_gen; eauto | intros; apply wf_acyclic; auto].
Qed.
Print Assumptions C04_wf_is_forest.

(* ---- current revision and flags as computed by updateWinningRevAndSetDocFlags ---- *)
Theorem C04_flags_agree : forall t, wf t -> t <> [] ->
  let d := update_flags t in
  exists w, max_leaf t w /\ dcur d = Some (rid w) /\
    ddel d = rdel w /\
    (ddel d = true <-> forall l, In l (leaves t) -> rdel l = true) /\
    (dconf d = true <-> (2 <= length (filter live (leaves t)))%nat) /\
    (dbranch d = true <-> (2 <= length (leaves t))%nat).
Proof. exact flags_agree. Qed.
Print Assumptions C04_flags_agree.

(* ---- order independence, insertion level: permuted fully accepted addRevision sequences ---- *)
Theorem C04_order_independent_adds : forall l1 l2 t1 t2,
  Permutation l1 l2 -> (forall r, In r l1 -> 1 <= gen (rid r)) ->
  add_all [] l1 = Some t1 -> add_all [] l2 = Some t2 ->
  Permutation t1 t2 /\ wf t1 /\ wf t2 /\
  Permutation (leaves t1) (leaves t2) /\ winning t1 = winning t2 /\
  dcur (update_flags t1) = dcur (update_flags t2) /\ ddel (update_flags t1) = ddel (update_flags t2) /\
  dconf (update_flags t1) = dconf (update_flags t2) /\ dbranch (update_flags t1) = dbranch (update_flags t2).
Proof. exact order_independent_adds. Qed.
Print Assumptions C04_order_independent_adds.

(* ---- order independence, database level: the same revisions of a source forest S pushed with their
   ancestries (PutExistingRev, conflicts allowed) in two different orders ---- *)
Theorem C04_push_order_independent : forall fx S ps1 ps2 limit,
  wf S -> Forall (valid_push S) ps1 -> Permutation ps1 ps2 -> N.of_nat (length S) <= limit ->
  let d1 := run fx true limit empty_doc (map to_op ps1) in
  let d2 := run fx true limit empty_doc (map to_op ps2) in
  wf (dtree d1) /\ wf (dtree d2) /\
  (forall i, contains (dtree d1) i = contains (dtree d2) i) /\
  (forall r1 r2, In r1 (dtree d1) -> In r2 (dtree d2) -> rid r1 = rid r2 -> rpar r1 = rpar r2) /\
  Permutation (leaves (dtree d1)) (leaves (dtree d2)) /\
  dcur d1 = dcur d2 /\ ddel d1 = ddel d2 /\ dconf d1 = dconf d2 /\ dbranch d1 = dbranch d2.
Proof. exact push_order_independent. Qed.
Print Assumptions C04_push_order_independent.

(* ---- every document reachable by ANY sequence of Put / PutExistingRev requests (accepted or rejected,
   either mode, ANY revs_limit >= 1, pruning included), for the code as it is now (code_fixed = true:
   Branched recomputed after pruning): the stored tree is a forest, the current revision is its maximal
   leaf, Deleted, Conflict AND Branched agree exactly with its leaves, and in conflict-free mode there is
   at most one live leaf.  This is the full statement. ---- *)
Theorem C04_reachable_documents : forall allowC limit ops,
  Forall valid_op ops -> 1 <= limit ->
  let d := run code_fixed allowC limit empty_doc ops in
  wf (dtree d) /\
  (dtree d <> [] ->
   exists w, max_leaf (dtree d) w /\ dcur d = Some (rid w) /\ ddel d = rdel w /\
     (ddel d = true <-> forall l, In l (leaves (dtree d)) -> rdel l = true) /\
     (dconf d = true <-> (2 <= length (filter live (leaves (dtree d))))%nat) /\
     (dbranch d = true <-> (2 <= length (leaves (dtree d)))%nat)) /\
  (allowC = false -> (length (filter live (leaves (dtree d))) <= 1)%nat).
Proof. exact reachable_exact. Qed.
Print Assumptions C04_reachable_documents.

(* what held already before the repair (fx = false) and still holds (fx = true): everything except
   that Branched may be stale-true after pruning *)
Theorem C04_reachable_documents_any_version : forall fx allowC limit ops,
  Forall valid_op ops -> 1 <= limit ->
  let d := run fx allowC limit empty_doc ops in
  wf (dtree d) /\
  (dtree d <> [] ->
   exists w, max_leaf (dtree d) w /\ dcur d = Some (rid w) /\ ddel d = rdel w /\
     (ddel d = true <-> forall l, In l (leaves (dtree d)) -> rdel l = true) /\
     (dconf d = true <-> (2 <= length (filter live (leaves (dtree d))))%nat) /\
     ((2 <= length (leaves (dtree d)))%nat -> dbranch d = true)) /\
  (allowC = false -> (length (filter live (leaves (dtree d))) <= 1)%nat).
Proof. exact reachable_all. Qed.
Print Assumptions C04_reachable_documents_any_version.

(* the full statement for the code BEFORE commit ac6ea40: refuted in C04_Refuted.v *)
Definition C04_reachable_documents_old_code_statement : Prop := forall allowC limit ops,
  Forall valid_op ops -> 1 <= limit ->
  let d := run false allowC limit empty_doc ops in
  wf (dtree d) /\
  (dtree d <> [] ->
   exists w, max_leaf (dtree d) w /\ dcur d = Some (rid w) /\ ddel d = rdel w /\
     (ddel d = true <-> forall l, In l (leaves (dtree d)) -> rdel l = true) /\
     (dconf d = true <-> (2 <= length (filter live (leaves (dtree d))))%nat) /\
     (dbranch d = true <-> (2 <= length (leaves (dtree d)))%nat)) /\
  (allowC = false -> (length (filter live (leaves (dtree d))) <= 1)%nat).

(* ---- pruning ---- *)
(* the pruned tree is well-formed: in particular no dangling parent link, generations still increase *)
Theorem C04_prune_wf : forall maxd t, wf t -> wf (fst (prune maxd t)).
Proof. exact prune_wf. Qed.
Print Assumptions C04_prune_wf.

(* pruning only removes records and cuts parent links; ids and tombstone bits are untouched; the count is exact *)
Theorem C04_prune_sub : forall maxd t r', In r' (fst (prune maxd t)) ->
  exists r, In r t /\ rid r' = rid r /\ rdel r' = rdel r /\ (rpar r' = rpar r \/ rpar r' = None).
Proof. exact prune_sub. Qed.
Print Assumptions C04_prune_sub.

Theorem C04_prune_count : forall maxd t,
  snd (prune maxd t) = N.of_nat (length t) - N.of_nat (length (fst (prune maxd t))).
Proof. exact prune_count. Qed.
Print Assumptions C04_prune_count.

(* pruning (maxDepth >= 1) keeps the winner, every live leaf (same ids, still live), and creates no leaf *)
Theorem C04_prune_keeps_winner : forall maxd t, wf t -> 1 <= maxd ->
  let s' := winner_fold (leaves (fst (prune maxd t))) in
  let s := winner_fold (leaves t) in
  w_id s' = w_id s /\ w_exists s' = w_exists s /\ w_active s' = w_active s /\ w_leaves s' <= w_leaves s.
Proof. exact prune_keeps_winner. Qed.
Print Assumptions C04_prune_keeps_winner.

Theorem C04_prune_keeps_live_leaves : forall maxd t, wf t -> 1 <= maxd ->
  map idel (filter live (leaves (fst (prune maxd t)))) = map idel (filter live (leaves t)).
Proof. exact prune_keeps_live. Qed.
Print Assumptions C04_prune_keeps_live_leaves.

(* not proved (checked by the harness monitor prune_depth_bound on every pruned tree): after pruning no
   node is more than maxd levels above its nearest leaf *)
Definition C04_prune_depth_bound_full_statement : Prop := forall maxd t, wf t -> 1 <= maxd ->
  let t' := fst (prune maxd t) in
  forall r d, In r t' -> depth_of (depth_entries t') (rid r) = Some d -> d <= maxd.

(* ---- storing and reloading (the revTreeList structure of MarshalJSON / UnmarshalJSON) ---- *)
(* for whatever order t' the encoder iterates the map in, decoding returns exactly that listing *)
Theorem C04_codec_roundtrip : forall t t', wf t -> Permutation t t' ->
  decode (encode t') = Some t' /\ Permutation t t'.
Proof. exact codec_roundtrip. Qed.
Print Assumptions C04_codec_roundtrip.

(* without well-formedness: dangling parents are written as -1 and come back as roots *)
Theorem C04_codec_roundtrip_dangling : forall t, NoDup (map rid t) -> decode (encode t) = Some (snip t).
Proof. exact codec_roundtrip_snip. Qed.
Print Assumptions C04_codec_roundtrip_dangling.

(* ---- non-vacuity: a source forest with a conflict, a tombstone and an equal-generation tie ---- *)
Definition ex_S : tree :=
  [ R (I 3 [97]) (Some (I 2 [97])) true; R (I 2 [98]) (Some (I 1 [97])) false;
    R (I 2 [97]) (Some (I 1 [97])) false; R (I 1 [97]) None false ].
Definition ex_ps : list push :=
  [ ([I 3 [97]; I 2 [97]; I 1 [97]], true); ([I 2 [98]; I 1 [97]], false) ].

Example C04_nonvacuous :
  add_all [] (List.rev ex_S) = Some ex_S /\
  Forall (valid_push ex_S) ex_ps /\ Forall valid_op (map to_op ex_ps) /\
  winning ex_S = (Some (I 2 [98]), true, false) /\
  tree_eqb (dtree (run code_fixed true 100 empty_doc (map to_op ex_ps))) ex_S = true /\
  dcur (run code_fixed true 100 empty_doc (map to_op (List.rev ex_ps))) = Some (I 2 [98]) /\
  tree_eqb (fst (prune 1 ex_S)) [ R (I 3 [97]) None true; R (I 2 [98]) None false ] = true.
Proof.
  split; [vm_compute; reflexivity|].
  split; [repeat constructor|].
  split; [repeat constructor; intros i H; cbn in H; intuition (subst; cbn; lia)|].
  repeat split; vm_compute; reflexivity.
Qed.
