(* C04 -- Revision trees stay well-formed with a deterministic, order-independent winner.
   Nothing but the property theorems; each is closed by [exact] of a lemma proved elsewhere.
   Model: RevId.v (ids), RevTree.v (db/revtree.go), DocModel.v (db/crud.go write path).
   A Go map is modelled by a list; "for every iteration order" = "for every permutation". *)
From Coq Require Import Permutation.
From SG Require Import Base.Prelude C04.RevId C04.RevTree C04.DocModel C04.OrderProofs C04.WinnerProofs
  C04.WfProofs C04.FlagsProofs C04.PushProofs C04.PruneProofs C04.CodecProofs C04.DocProofs.
Open Scope N_scope.

(* ---- compareRevIDs: a total order, generation first, then byte-wise digest ---- *)
Theorem C04_cmp_total_order : forall a b c,
  (cmp_id a b = Eq <-> a = b) /\
  cmp_id b a = CompOpp (cmp_id a b) /\
  (cmp_id a b = Lt -> cmp_id b c = Lt -> cmp_id a c = Lt) /\
  (cmp_id a b = Lt <-> (gen a < gen b \/ (gen a = gen b /\ cmp_dig (dig a) (dig b) = Lt))).
Proof.
  intros a b c. split; [split; [apply cmp_id_eq | intros ->; apply cmp_id_refl]|].
  split; [apply cmp_id_antisym|]. split; [apply cmp_id_lt_trans | apply cmp_id_lt_iff].
Qed.
Print Assumptions C04_cmp_total_order.

(* the comparison of textual ids is the comparison of what they parse to; accepted ids have generation >= 1 *)
Theorem C04_cmp_textual : forall s1 s2 g1 d1 g2 d2,
  parse_revid s1 = Some (g1, d1) -> parse_revid s2 = Some (g2, d2) ->
  cmp_raw s1 s2 = cmp_to_Z (cmp_id (I g1 d1) (I g2 d2)) /\ 1 <= g1.
Proof. intros. split; [apply cmp_raw_parsed; assumption | eapply parse_revid_gen_pos; eauto]. Qed.
Print Assumptions C04_cmp_textual.

(* ---- the winner does not depend on the iteration order of the leaves (no hypothesis at all) ---- *)
Theorem C04_winner_perm : forall l l', Permutation l l' -> winner_fold l = winner_fold l'.
Proof. exact winner_perm. Qed.
Print Assumptions C04_winner_perm.

(* ---- the winner is the leaf maximising (not deleted, generation, digest) ---- *)
Theorem C04_winner_is_max : forall l, l <> [] -> (forall r, In r l -> 1 <= gen (rid r)) ->
  exists w, In w l /\ w_id (winner_fold l) = Some (rid w) /\ w_exists (winner_fold l) = negb (rdel w) /\
    forall r, In r l -> outranks w r \/ (rid r = rid w /\ rdel r = rdel w).
Proof. exact winner_is_max. Qed.
Print Assumptions C04_winner_is_max.

(* ---- accepted insertions preserve well-formedness; rejected ones leave the tree alone ---- *)
Theorem C04_add_wf : forall t r t', wf t -> 1 <= gen (rid r) -> add t r = Some t' -> t' = r :: t /\ wf t'.
Proof. exact add_wf. Qed.
Print Assumptions C04_add_wf.

Theorem C04_add_rejected_iff : forall t r,
  add t r = None <->
  (contains t (rid r) = true \/ exists p, rpar r = Some p /\ (contains t p = false \/ gen (rid r) <= gen p)).
Proof. exact add_rejected_iff. Qed.
Print Assumptions C04_add_rejected_iff.

(* a well-formed tree is a forest: one record per id (hence one parent), every proper ancestor has a
   strictly smaller generation, no cycle *)
Theorem C04_wf_is_forest : forall t, wf t ->
  (forall r1 r2, In r1 t -> In r2 t -> rid r1 = rid r2 -> r1 = r2) /\
  (forall a d, ancestor t a d -> gen a < gen d) /\
  (forall a, ~ ancestor t a a).
Proof.
  intros t W. split; [intros; eapply wf_unique_parent; eauto|].
  split; [intros; eapply wf_ancestor_gen; eauto | intros; apply wf_acyclic; auto].
Qed.
Print Assumptions C04_wf_is_forest.

(* ---- current revision and flags as computed by updateWinningRevAndSetDocFlags ---- *)
Theorem C04_flags_agree : forall t, wf t -> t <> [] ->
  let d := update_flags t in
  exists w, max_leaf t w /\ dcur d = Some (rid w) /\
    ddel d = rdel w /\
    (ddel d = true <-> forall l, In l (leaves t) -> rdel l = true) /\
    (dconf d = true <-> (2 <= length (filter live (leaves t)))%nat) /\
    (dbranch d = true <-> (2 <= length (leaves t))%nat).
Proof. exact flags_agree. Qed.
Print Assumptions C04_flags_agree.

(* ---- order independence, insertion level: permuted fully accepted addRevision sequences ---- *)
Theorem C04_order_independent_adds : forall l1 l2 t1 t2,
  Permutation l1 l2 -> (forall r, In r l1 -> 1 <= gen (rid r)) ->
  add_all [] l1 = Some t1 -> add_all [] l2 = Some t2 ->
  Permutation t1 t2 /\ wf t1 /\ wf t2 /\
  Permutation (leaves t1) (leaves t2) /\ winning t1 = winning t2 /\
  dcur (update_flags t1) = dcur (update_flags t2) /\ ddel (update_flags t1) = ddel (update_flags t2) /\
  dconf (update_flags t1) = dconf (update_flags t2) /\ dbranch (update_flags t1) = dbranch (update_flags t2).
Proof. exact order_independent_adds. Qed.
Print Assumptions C04_order_independent_adds.

(* ---- order independence, database level: the same revisions of a source forest S pushed with their
   ancestries (PutExistingRev, conflicts allowed) in two different orders ---- *)
Theorem C04_push_order_independent : forall S ps1 ps2 limit,
  wf S -> Forall (valid_push S) ps1 -> Permutation ps1 ps2 -> N.of_nat (length S) <= limit ->
  let d1 := run true limit empty_doc (map to_op ps1) in
  let d2 := run true limit empty_doc (map to_op ps2) in
  wf (dtree d1) /\ wf (dtree d2) /\
  (forall i, contains (dtree d1) i = contains (dtree d2) i) /\
  (forall r1 r2, In r1 (dtree d1) -> In r2 (dtree d2) -> rid r1 = rid r2 -> rpar r1 = rpar r2) /\
  Permutation (leaves (dtree d1)) (leaves (dtree d2)) /\
  dcur d1 = dcur d2 /\ ddel d1 = ddel d2 /\ dconf d1 = dconf d2 /\ dbranch d1 = dbranch d2.
Proof. exact push_order_independent. Qed.
Print Assumptions C04_push_order_independent.

(* ---- every document reachable by ANY sequence of Put / PutExistingRev requests (accepted or
   rejected, either mode), as long as revs_limit is not reached: forest, current = maximal leaf, flags
   agree with the leaves, and at most one live leaf in conflict-free mode ---- *)
Theorem C04_reachable_documents_partial : forall allowC limit ops,
  Forall valid_op ops -> N.of_nat (ops_size ops) <= limit ->
  let d := run allowC limit empty_doc ops in
  wf (dtree d) /\
  (dtree d <> [] ->
   exists w, max_leaf (dtree d) w /\ dcur d = Some (rid w) /\ ddel d = rdel w /\
     (ddel d = true <-> forall l, In l (leaves (dtree d)) -> rdel l = true) /\
     (dconf d = true <-> (2 <= length (filter live (leaves (dtree d))))%nat) /\
     (dbranch d = true <-> (2 <= length (leaves (dtree d)))%nat)) /\
  (allowC = false -> (length (filter live (leaves (dtree d))) <= 1)%nat).
Proof. exact reachable_noprune. Qed.
Print Assumptions C04_reachable_documents_partial.

(* The full statement drops the hypothesis on revs_limit (pruning active).  It is NOT provable as it
   stands: the stored Branched flag can be stale after a tombstoned branch is pruned
   (C04_Refuted.C04_stored_branched_flag_refuted).  What is missing for the remaining clauses is
   [prune_keeps_winner] below. *)
Definition C04_reachable_documents_full_statement : Prop := forall allowC limit ops,
  Forall valid_op ops -> 1 <= limit ->
  let d := run allowC limit empty_doc ops in
  wf (dtree d) /\
  (dtree d <> [] ->
   exists w, max_leaf (dtree d) w /\ dcur d = Some (rid w) /\ ddel d = rdel w /\
     (ddel d = true <-> forall l, In l (leaves (dtree d)) -> rdel l = true) /\
     (dconf d = true <-> (2 <= length (filter live (leaves (dtree d))))%nat) /\
     (dbranch d = true <-> (2 <= length (leaves (dtree d)))%nat)) /\
  (allowC = false -> (length (filter live (leaves (dtree d))) <= 1)%nat).

(* ---- pruning ---- *)
(* the pruned tree is well-formed: in particular no dangling parent link, generations still increase *)
Theorem C04_prune_wf : forall maxd t, wf t -> wf (fst (prune maxd t)).
Proof. exact prune_wf. Qed.
Print Assumptions C04_prune_wf.

(* pruning only removes records and cuts parent links; ids and tombstone bits are untouched; the count is exact *)
Theorem C04_prune_sub : forall maxd t r', In r' (fst (prune maxd t)) ->
  exists r, In r t /\ rid r' = rid r /\ rdel r' = rdel r /\ (rpar r' = rpar r \/ rpar r' = None).
Proof. exact prune_sub. Qed.
Print Assumptions C04_prune_sub.

Theorem C04_prune_count : forall maxd t,
  snd (prune maxd t) = N.of_nat (length t) - N.of_nat (length (fst (prune maxd t))).
Proof. exact prune_count. Qed.
Print Assumptions C04_prune_count.

(* not proved (checked by the harness monitors prune_keeps_winner / prune_keeps_live_leaves /
   prune_depth_bound on every pruned tree): *)
Definition C04_prune_keeps_winner_full_statement : Prop := forall maxd t, wf t -> 1 <= maxd ->
  w_id (winner_fold (leaves (fst (prune maxd t)))) = w_id (winner_fold (leaves t)) /\
  map rid (filter live (leaves (fst (prune maxd t)))) = map rid (filter live (leaves t)).

(* ---- storing and reloading (the revTreeList structure of MarshalJSON / UnmarshalJSON) ---- *)
(* for whatever order t' the encoder iterates the map in, decoding returns exactly that listing *)
Theorem C04_codec_roundtrip : forall t t', wf t -> Permutation t t' ->
  decode (encode t') = Some t' /\ Permutation t t'.
Proof. exact codec_roundtrip. Qed.
Print Assumptions C04_codec_roundtrip.

(* without well-formedness: dangling parents are written as -1 and come back as roots *)
Theorem C04_codec_roundtrip_dangling : forall t, NoDup (map rid t) -> decode (encode t) = Some (snip t).
Proof. exact codec_roundtrip_snip. Qed.
Print Assumptions C04_codec_roundtrip_dangling.

(* ---- non-vacuity: a source forest with a conflict, a tombstone and an equal-generation tie ---- *)
Definition ex_S : tree :=
  [ R (I 3 [97]) (Some (I 2 [97])) true; R (I 2 [98]) (Some (I 1 [97])) false;
    R (I 2 [97]) (Some (I 1 [97])) false; R (I 1 [97]) None false ].
Definition ex_ps : list push :=
  [ ([I 3 [97]; I 2 [97]; I 1 [97]], true); ([I 2 [98]; I 1 [97]], false) ].

Example C04_nonvacuous :
  add_all [] (List.rev ex_S) = Some ex_S /\
  Forall (valid_push ex_S) ex_ps /\ Forall valid_op (map to_op ex_ps) /\
  winning ex_S = (Some (I 2 [98]), true, false) /\
  tree_eqb (dtree (run true 100 empty_doc (map to_op ex_ps))) ex_S = true /\
  dcur (run true 100 empty_doc (map to_op (List.rev ex_ps))) = Some (I 2 [98]) /\
  tree_eqb (fst (prune 1 ex_S)) [ R (I 3 [97]) None true; R (I 2 [98]) None false ] = true.
Proof.
  split; [vm_compute; reflexivity|].
  split; [repeat constructor|].
  split; [repeat constructor; intros i H; cbn in H; intuition (subst; cbn; lia)|].
  repeat split; vm_compute; reflexivity.
Qed.
