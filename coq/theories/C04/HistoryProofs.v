(* C04 proofs, part 10: the walk from a revision towards the root.
   [up t i n y]: y is reached from i by following n parent links that are all present in t.  For a tree
   with unique ids and increasing generations this is exactly position n of [chain (length t) t i]
   (the walk of getHistory / computeDepthsAndFindLeaves / DeleteBranch).  Laws of getHistory, getParent,
   findAncestorFromSet, ContainsCycles. *)
From Coq Require Import Permutation.
From SG Require Import Base.Prelude C04.RevId C04.RevTree C04.History C04.OrderProofs C04.WinnerProofs
  C04.WfProofs C04.PruneProofs C04.PruneLeaves C04.CodecProofs.
Open Scope N_scope.

Inductive up (t : tree) : revid -> nat -> revid -> Prop :=
| up0 : forall i, contains t i = true -> up t i 0 i
| upS : forall i n x rx p, up t i n x -> In rx t -> rid rx = x -> rpar rx = Some p ->
                           contains t p = true -> up t i (S n) p.

Lemma number_from_nth : forall l k y d,
  In (y, d) (number_from k l) <-> k <= d /\ nth_error l (N.to_nat (d - k)) = Some y.
Proof.
  induction l as [|x l IH]; intros k y d; cbn [number_from].
  - split; [intros [] | intros [_ H]]. destruct (N.to_nat (d - k)); discriminate.
  - cbn [In]. rewrite IH. split.
    + intros [E | [L H]].
      * inversion E; subst. split; [lia|]. replace (d - d) with 0 by lia. reflexivity.
      * split; [lia|]. replace (N.to_nat (d - k)) with (S (N.to_nat (d - (k + 1)))) by lia. exact H.
    + intros [L H]. destruct (N.eq_dec d k) as [-> | NE].
      * left. replace (k - k) with 0 in H by lia. cbn in H. inversion H. reflexivity.
      * right. split; [lia|].
        replace (N.to_nat (d - k)) with (S (N.to_nat (d - (k + 1)))) in H by lia. exact H.
Qed.

Lemma nth_number0 : forall l n y, nth_error l n = Some y <-> In (y, N.of_nat n) (number_from 0 l).
Proof.
  intros l n y. rewrite number_from_nth. replace (N.to_nat (N.of_nat n - 0)) with n by lia.
  split; [intros H; split; [lia | exact H] | tauto].
Qed.

Lemma up_start : forall t i n y, up t i n y -> contains t i = true.
Proof. induction 1; auto. Qed.
Lemma up_end : forall t i n y, up t i n y -> contains t y = true.
Proof. induction 1; auto. Qed.

(* position n of the chain is reached by n parent links (no hypothesis on the tree) *)
Lemma chain_nth_up : forall f t i n y, nth_error (chain f t i) n = Some y -> up t i n y.
Proof.
  intros f t i n. induction n as [|n IH]; intros y H; apply nth_number0 in H.
  - destruct (chain_prev _ _ _ _ _ _ H) as [[_ ->] | (L & _)]; [|cbn in L; lia].
    apply up0. apply contains_in. eapply chain_in_tree. eapply number_from_in. exact H.
  - destruct (chain_prev _ _ _ _ _ _ H) as [[E _] | (_ & x & rx & Ix & Irx & Ex & Px)]; [lia|].
    replace (N.of_nat (S n) - 1) with (N.of_nat n) in Ix by lia.
    apply nth_number0 in Ix. eapply upS; eauto.
    apply contains_in. eapply chain_in_tree. eapply number_from_in. exact H.
Qed.

Lemma chain_first : forall t i, contains t i = true -> nth_error (chain (length t) t i) 0 = Some i.
Proof.
  intros t i C. destruct t as [|x t']; [cbn in C; discriminate|]. cbn [length chain].
  unfold contains in C. destruct (find_rev (x :: t') i); [reflexivity | discriminate].
Qed.

(* ... and conversely when ids are unique and generations increase (the fuel is then sufficient) *)
Lemma up_chain_nth : forall t i n y, pre_wf t -> up t i n y -> nth_error (chain (length t) t i) n = Some y.
Proof.
  intros t i n y PW U. induction U as [i C | i n x rx p U IH Irx Ex Px Cp].
  - apply chain_first. exact C.
  - apply nth_number0. apply nth_number0 in IH.
    replace (N.of_nat (S n)) with (N.of_nat n + 1) by lia.
    eapply chain_next_full; eauto.
Qed.

Lemma chain_up : forall t i n y, pre_wf t -> (nth_error (chain (length t) t i) n = Some y <-> up t i n y).
Proof. intros; split; [apply chain_nth_up | apply up_chain_nth; assumption]. Qed.

(* ---- algebra of [up] ---- *)
Lemma up_det : forall t i n y y', NoDup (map rid t) -> up t i n y -> up t i n y' -> y = y'.
Proof.
  intros t i n y y' ND U. revert y'. induction U as [i C | i n x rx p U IH Irx Ex Px Cp]; intros y' U'.
  - inversion U'; reflexivity.
  - inversion U' as [|i' n' x' rx' p' U2 Irx' Ex' Px' Cp']; subst.
    specialize (IH _ U2).
    assert (rx = rx') by (eapply nodup_rid_inj; eauto). subst rx'. congruence.
Qed.

Lemma up_trans : forall t i n x m y, up t i n x -> up t x m y -> up t i (n + m) y.
Proof.
  intros t i n x m y U1 U2. induction U2 as [x C | x m z rz p U2 IH Irz Ez Pz Cp].
  - rewrite Nat.add_0_r. exact U1.
  - rewrite Nat.add_succ_r. eapply upS; eauto.
Qed.

Lemma up_split : forall t i n m y, up t i (n + m) y -> exists x, up t i n x /\ up t x m y.
Proof.
  intros t i n m. induction m as [|m IH]; intros y U.
  - rewrite Nat.add_0_r in U. exists y. split; auto. apply up0. eapply up_end; eauto.
  - rewrite Nat.add_succ_r in U. inversion U as [|i' n' x' rx p U' Irx Ex Px Cp]; subst.
    destruct (IH _ U') as (x & A & B). exists x. split; auto. eapply upS; eauto.
Qed.

Lemma up_gen : forall t i n y, pre_wf t -> up t i n y -> gen y + N.of_nat n <= gen i.
Proof.
  intros t i n y (ND & P) U. induction U as [i C | i n x rx p U IH Irx Ex Px Cp]; [lia|].
  pose proof (P rx p Irx Px) as G. rewrite Ex in G. lia.
Qed.

Lemma contains_filter_sub : forall f t i, contains (filter f t) i = true -> contains t i = true.
Proof.
  intros f t i H. apply contains_in in H. apply contains_in. apply in_map_iff in H.
  destruct H as (r & E & I). apply filter_In in I. rewrite <- E. apply in_map. tauto.
Qed.

Lemma up_filter_sub : forall f t i n y, up (filter f t) i n y -> up t i n y.
Proof.
  intros f t i n y U. induction U as [i C | i n x rx p U IH Irx Ex Px Cp].
  - apply up0. eapply contains_filter_sub; eauto.
  - apply filter_In in Irx. eapply upS; eauto; [tauto | eapply contains_filter_sub; eauto].
Qed.

Lemma contains_rec : forall t i, contains t i = true -> exists r, In r t /\ rid r = i.
Proof.
  intros t i C. apply contains_in in C. apply in_map_iff in C. destruct C as (r & E & I). eauto.
Qed.

(* a path survives a filter that keeps every record on it *)
Lemma up_filter_keep : forall f t i n y, up t i n y ->
  (forall m z rz, (m <= n)%nat -> up t i m z -> In rz t -> rid rz = z -> f rz = true) ->
  up (filter f t) i n y.
Proof.
  intros f t i n y U. induction U as [i C | i n x rx p U IH Irx Ex Px Cp]; intros K.
  - apply up0. destruct (contains_rec _ _ C) as (ri & Iri & Eri).
    apply contains_in. rewrite <- Eri. apply in_map. apply filter_In. split; auto.
    eapply (K 0%nat i); eauto. apply up0. exact C.
  - assert (U' : up (filter f t) i n x) by (apply IH; intros m z rz L; apply K; lia).
    assert (Un : up t i (S n) p) by (eapply upS; eauto).
    eapply upS; eauto.
    + apply filter_In. split; auto. eapply (K n x); eauto.
    + destruct (contains_rec _ _ Cp) as (rp & Irp & Erp).
      apply contains_in. rewrite <- Erp. apply in_map. apply filter_In. split; auto.
      eapply (K (S n) p); eauto.
Qed.

Lemma in_snip_sn : forall t r', In r' (snip t) -> exists r, In r t /\ r' = sn t r.
Proof.
  intros t r' I. unfold snip in I. apply in_map_iff in I. destruct I as (r & E & I). exists r. split; auto.
Qed.

Lemma sn_keep : forall t r p, rpar r = Some p -> contains t p = true -> sn t r = r.
Proof. intros t r p E C. unfold sn. rewrite E, C. reflexivity. Qed.

Lemma sn_par_some : forall t r p, rpar (sn t r) = Some p -> rpar r = Some p.
Proof.
  intros t r p H. unfold sn in H. destruct (rpar r) as [q|] eqn:E; [|congruence].
  destruct (contains t q); [congruence | cbn in H; discriminate].
Qed.

(* cutting dangling links changes no path *)
Lemma up_snip : forall t i n y, up (snip t) i n y <-> up t i n y.
Proof.
  intros t i n y. split; intros U.
  - induction U as [i C | i n x rx p U IH Irx Ex Px Cp].
    + apply up0. rewrite contains_snip in C. exact C.
    + destruct (in_snip_sn _ _ Irx) as (r & Ir & ->). rewrite sn_id in Ex. apply sn_par_some in Px.
      rewrite contains_snip in Cp. eapply upS; eauto.
  - induction U as [i C | i n x rx p U IH Irx Ex Px Cp].
    + apply up0. rewrite contains_snip. exact C.
    + eapply upS; eauto.
      * rewrite <- (sn_keep t rx p Px Cp). change (snip t) with (map (sn t) t). apply in_map. exact Irx.
      * rewrite contains_snip. exact Cp.
Qed.

(* ---- getHistory ---- *)
Definition hist (t : tree) (i : revid) : list revid := chain (length t) t i.

Lemma chain_length_le : forall f t i, (length (chain f t i) <= f)%nat.
Proof.
  induction f as [|f IH]; intros t i; cbn [chain]; [cbn; lia|].
  destruct (find_rev t i) as [r|]; [|cbn; lia]. cbn [length].
  destruct (rpar r) as [p|]; [specialize (IH t p); lia | cbn; lia].
Qed.

Lemma chain_fuel_enough : forall t, pre_wf t -> forall f i, (cnt t (gen i) <= f)%nat ->
  chain (S f) t i = chain f t i.
Proof.
  intros t PW. induction f as [|f IH]; intros i Fu.
  - cbn [chain]. destruct (find_rev t i) as [r|] eqn:F; [|reflexivity].
    destruct (find_rev_some _ _ _ F) as [Ir Er].
    pose proof (cnt_pos t r (gen i) Ir ltac:(rewrite Er; lia)). lia.
  - change (chain (S (S f)) t i) with
      (match find_rev t i with None => [] | Some r => i :: match rpar r with None => [] | Some p => chain (S f) t p end end).
    change (chain (S f) t i) with
      (match find_rev t i with None => [] | Some r => i :: match rpar r with None => [] | Some p => chain f t p end end).
    destruct (find_rev t i) as [r|] eqn:F; [|reflexivity].
    destruct (rpar r) as [p|] eqn:Ep; [|reflexivity].
    destruct (find_rev_some _ _ _ F) as [Ir Er].
    assert (G : gen p < gen i) by (rewrite <- Er; apply (proj2 PW r p Ir Ep)).
    assert (C2 : (cnt t (gen p) < cnt t (gen i))%nat) by (apply (cnt_lt t r); auto; rewrite Er; lia).
    rewrite (IH p) by lia. reflexivity.
Qed.

(* on a tree with unique ids and increasing generations getHistory never reports a cycle and returns
   the chain *)
Theorem get_history_pre_wf : forall t i, pre_wf t -> get_history t i = (hist t i, false).
Proof.
  intros t i PW. unfold get_history, hist.
  rewrite (chain_fuel_enough t PW (length t) i (cnt_le_length _ _)).
  pose proof (chain_length_le (length t) t i) as L.
  destruct (Nat.ltb_spec (length t) (length (chain (length t) t i))); [lia | reflexivity].
Qed.

Lemma hist_nth : forall t i n y, pre_wf t -> (nth_error (hist t i) n = Some y <-> up t i n y).
Proof. intros. apply chain_up. assumption. Qed.

(* history_is_path: it starts at the revision, every step is a stored child -> parent link with a
   strictly smaller generation, no revision occurs twice, and it ends at a revision whose parent link is
   empty or dangling *)
Theorem history_is_path : forall t i, pre_wf t -> contains t i = true ->
  let h := hist t i in
  nth_error h 0 = Some i /\
  (forall n x y, nth_error h n = Some x -> nth_error h (S n) = Some y ->
     gen y < gen x /\ exists r, In r t /\ rid r = x /\ rpar r = Some y) /\
  (forall n x, nth_error h n = Some x -> nth_error h (S n) = None ->
     exists r, In r t /\ rid r = x /\ (rpar r = None \/ exists p, rpar r = Some p /\ contains t p = false)) /\
  (forall n m x, nth_error h n = Some x -> nth_error h m = Some x -> n = m) /\
  (length h <= length t)%nat.
Proof.
  intros t i PW C h. subst h. split; [apply chain_first; exact C|]. split; [|split; [|split]].
  - intros n x y Hx Hy. apply hist_nth in Hx, Hy; auto.
    inversion Hy as [|i' n' x' rx p U Irx Ex Px Cp]; subst.
    assert (Ex : rid rx = x) by (eapply up_det; eauto; apply PW).
    split; [|eauto]. pose proof (proj2 PW rx y Irx Px) as G. rewrite Ex in G. exact G.
  - intros n x Hx Hn. apply hist_nth in Hx; auto.
    destruct (contains_rec _ _ (up_end _ _ _ _ Hx)) as (r & Ir & Er). exists r. split; auto. split; auto.
    destruct (rpar r) as [p|] eqn:Ep; [|left; reflexivity]. right. exists p. split; auto.
    destruct (contains t p) eqn:Cp; auto. exfalso.
    assert (U : up t i (S n) p) by (eapply upS; eauto).
    apply hist_nth in U; auto. unfold hist in *. congruence.
  - intros n m x Hn Hm. apply hist_nth in Hn, Hm; auto.
    pose proof (up_gen _ _ _ _ PW Hn) as Gn. pose proof (up_gen _ _ _ _ PW Hm) as Gm.
    destruct (Nat.lt_total n m) as [L | [E | L]]; auto; exfalso.
    + replace m with (n + (m - n))%nat in Hm by lia. destruct (up_split _ _ _ _ _ Hm) as (x' & A & B).
      assert (x' = x) by (eapply up_det; eauto; apply PW). subst x'.
      pose proof (up_gen _ _ _ _ PW B). lia.
    + replace n with (m + (n - m))%nat in Hn by lia. destruct (up_split _ _ _ _ _ Hn) as (x' & A & B).
      assert (x' = x) by (eapply up_det; eauto; apply PW). subst x'.
      pose proof (up_gen _ _ _ _ PW B). lia.
  - apply chain_length_le.
Qed.

(* in a well-formed tree (every stored parent present) the history ends at a root *)
Corollary history_ends_at_root : forall t i n x, wf t ->
  nth_error (hist t i) n = Some x -> nth_error (hist t i) (S n) = None ->
  exists r, In r t /\ rid r = x /\ rpar r = None.
Proof.
  intros t i n x W Hx Hn. pose proof (wf_pre_wf t W) as PW.
  assert (C : contains t i = true) by (apply hist_nth in Hx; auto; eapply up_start; eauto).
  destruct (history_is_path t i PW C) as (_ & _ & E & _).
  destruct (E n x Hx Hn) as (r & Ir & Er & [N | (p & Ep & Cp)]); [eauto|].
  destruct W as (_ & _ & P). destruct (P r p Ir Ep) as [Cp' _]. congruence.
Qed.

Lemma prefix_of_nth {A} : forall (l' l : list A),
  (forall n y, nth_error l' n = Some y -> nth_error l n = Some y) -> exists rest, l = l' ++ rest.
Proof.
  induction l' as [|a l' IH]; intros l H; [exists l; reflexivity|].
  destruct l as [|b l]; [specialize (H 0%nat a eq_refl); discriminate|].
  pose proof (H 0%nat a eq_refl) as H0. cbn in H0. inversion H0; subst b.
  destruct (IH l) as (rest & ->); [intros n y Hn; apply (H (S n) y Hn)|].
  exists rest. reflexivity.
Qed.

(* pruning truncates histories: what getHistory returns after pruning is a prefix of what it returned
   before, and it ends at a true root or at a prune point (a revision whose parent was pruned away) *)
Theorem history_after_prune : forall maxd t i, wf t ->
  let t' := fst (prune maxd t) in
  (exists rest, hist t i = hist t' i ++ rest) /\
  (forall n x, nth_error (hist t' i) n = Some x -> nth_error (hist t' i) (S n) = None ->
     exists r, In r t /\ rid r = x /\ (rpar r = None \/ exists p, rpar r = Some p /\ contains t' p = false)).
Proof.
  intros maxd t i W t'. pose proof (wf_pre_wf t W) as PW.
  assert (W' : wf t') by (apply prune_wf; exact W).
  destruct (prune_shape maxd t) as (f & [E | E]); fold t' in E.
  - split; [exists []; rewrite E, app_nil_r; reflexivity|].
    intros n x Hx Hn. destruct (history_ends_at_root t' i n x W' Hx Hn) as (r & Ir & Er & N).
    rewrite E in Ir. eauto.
  - split.
    + apply prefix_of_nth. intros n y H. apply chain_nth_up in H. rewrite E in H.
      apply (proj1 (up_snip _ _ _ _)) in H. apply up_filter_sub in H. apply hist_nth; auto.
    + intros n x Hx Hn. destruct (history_ends_at_root t' i n x W' Hx Hn) as (r' & Ir' & Er' & N).
      rewrite E in Ir'. destruct (in_snip_sn _ _ Ir') as (r & Ir & ->). rewrite sn_id in Er'.
      apply filter_In in Ir. exists r. split; [tauto|]. split; auto.
      unfold sn in N. destruct (rpar r) as [p|] eqn:Ep; [|left; reflexivity]. right. exists p. split; auto.
      destruct (contains (filter f t) p) eqn:Cp; [rewrite Ep in N; discriminate|].
      rewrite E, contains_snip. exact Cp.
Qed.

(* ---- getParent ---- *)
Theorem get_parent_is_second : forall t i, wf t -> get_parent t i = nth_error (hist t i) 1.
Proof.
  intros t i W. pose proof (wf_pre_wf t W) as PW. unfold get_parent.
  destruct (nth_error (hist t i) 1) as [p|] eqn:H.
  - apply hist_nth in H; auto. inversion H as [|i' n' x' rx p' U Irx Ex Px Cp]; subst.
    inversion U; subst. rewrite (find_rev_nodup t rx (proj1 PW) Irx). exact Px.
  - destruct (find_rev t i) as [r|] eqn:F; [|reflexivity].
    destruct (rpar r) as [p|] eqn:Ep; [|reflexivity]. exfalso.
    destruct (find_rev_some _ _ _ F) as [Ir Er]. destruct W as (_ & _ & P). destruct (P r p Ir Ep) as [Cp _].
    assert (U : up t i 1 p).
    { eapply upS; eauto. apply up0. apply contains_in. rewrite <- Er. apply in_map. exact Ir. }
    apply hist_nth in U; auto. congruence.
Qed.

(* ---- findAncestorFromSet ---- *)
Lemma find_anc_loop_find : forall f t i A, find_anc_loop f t i A = find (mem_id A) (walk f t i).
Proof.
  induction f as [|f IH]; intros t i A; cbn [find_anc_loop walk find]; [reflexivity|].
  destruct (mem_id A i); [reflexivity|].
  destruct (find_rev t i) as [r|]; [|reflexivity]. destruct (rpar r); [apply IH | reflexivity].
Qed.

Lemma walk_chain : forall t, no_dangling t -> forall f i, contains t i = true -> walk f t i = chain f t i.
Proof.
  intros t ND. induction f as [|f IH]; intros i C; cbn [walk chain]; [reflexivity|].
  unfold contains in C. destruct (find_rev t i) as [r|] eqn:F; [|discriminate].
  destruct (rpar r) as [p|] eqn:Ep; [|reflexivity]. f_equal. apply IH.
  destruct (find_rev_some _ _ _ F) as [Ir _]. eapply ND; eauto.
Qed.

Lemma mem_id_iff : forall A i, mem_id A i = true <-> In i A.
Proof.
  intros A i. unfold mem_id. rewrite existsb_exists. split.
  - intros (x & I & E). apply revid_eqb_eq in E. subst. exact I.
  - intros I. exists i. split; auto. apply revid_eqb_refl.
Qed.

Lemma find_first_spec {X} (P : X -> bool) : forall l a,
  find P l = Some a <->
  exists n, nth_error l n = Some a /\ P a = true /\ forall m x, (m < n)%nat -> nth_error l m = Some x -> P x = false.
Proof.
  induction l as [|b l IH]; intros a; cbn [find].
  - split; [discriminate | intros (n & H & _); destruct n; discriminate].
  - destruct (P b) eqn:Pb.
    + split.
      * intros E; inversion E; subst. exists 0%nat. split; [reflexivity|]. split; auto. intros m x L; lia.
      * intros (n & Hn & Pa & Before). destruct n as [|n]; [cbn in Hn; congruence|].
        specialize (Before 0%nat b ltac:(lia) eq_refl). congruence.
    + rewrite IH. split.
      * intros (n & Hn & Pa & Before). exists (S n). split; auto. split; auto.
        intros [|m] x L Hm; [cbn in Hm; inversion Hm; subst; exact Pb|]. apply (Before m x); [lia | exact Hm].
      * intros (n & Hn & Pa & Before). destruct n as [|n]; [cbn in Hn; inversion Hn; subst; congruence|].
        exists n. split; auto. split; auto. intros m x L Hm. apply (Before (S m) x); [lia | exact Hm].
Qed.

(* find_ancestor_sound_complete: for a revision of a well-formed tree the result is the FIRST element of
   its history that belongs to the given set (the most recent ancestor, the revision itself included);
   none iff no element of the history is in the set.  For an id that is not in the tree the function
   answers the id itself when it is in the set. *)
Theorem find_anc_is_first_of_history : forall t i A, wf t -> contains t i = true ->
  find_anc t i A = find (mem_id A) (hist t i).
Proof.
  intros t i A W C. unfold find_anc. rewrite find_anc_loop_find.
  rewrite (walk_chain t (wf_no_dangling t W) _ i C).
  unfold hist. rewrite (chain_fuel_enough t (wf_pre_wf t W) (length t) i (cnt_le_length _ _)). reflexivity.
Qed.

Theorem find_ancestor_sound_complete : forall t i A, wf t -> contains t i = true ->
  (forall a, find_anc t i A = Some a <->
     exists n, nth_error (hist t i) n = Some a /\ In a A /\
       forall m x, (m < n)%nat -> nth_error (hist t i) m = Some x -> ~ In x A) /\
  (find_anc t i A = None <-> forall x, In x (hist t i) -> ~ In x A).
Proof.
  intros t i A W C. rewrite (find_anc_is_first_of_history t i A W C). split.
  - intros a. rewrite find_first_spec. split; intros (n & Hn & Pa & B); exists n; split; auto; split.
    + apply mem_id_iff. exact Pa.
    + intros m x L Hm K. apply mem_id_iff in K. rewrite (B m x L Hm) in K. discriminate.
    + apply mem_id_iff. exact Pa.
    + intros m x L Hm. destruct (mem_id A x) eqn:E; auto. apply mem_id_iff in E. exfalso. eapply B; eauto.
  - split.
    + intros N x I K. apply mem_id_iff in K. pose proof (find_none _ _ N x I) as F. cbn in F. congruence.
    + intros H. destruct (find (mem_id A) (hist t i)) as [a|] eqn:F; auto. exfalso.
      apply find_some in F. destruct F as [I K]. apply mem_id_iff in K. eapply H; eauto.
Qed.

Theorem find_anc_absent : forall t i A, contains t i = false ->
  find_anc t i A = if mem_id A i then Some i else None.
Proof.
  intros t i A C. unfold find_anc. cbn [find_anc_loop]. destruct (mem_id A i); [reflexivity|].
  unfold contains in C. destruct (find_rev t i); [discriminate | reflexivity].
Qed.

(* ---- ancestry = membership in the history ---- *)
Lemma up_ancestor : forall t d n a, up t d (S n) a -> ancestor t a d.
Proof.
  intros t d n. induction n as [|n IH]; intros a U;
    inversion U as [|i' n' x rx p U' Irx Ex Px Cp]; subst.
  - inversion U'; subst. apply anc_parent; auto.
  - eapply anc_trans; [apply anc_parent; eauto | apply IH; exact U'].
Qed.

Lemma ancestor_up : forall t a d, wf t -> ancestor t a d -> exists n, up t d (S n) a.
Proof.
  intros t a d W H. induction H as [r p Ir Ep | a b c H1 IH1 H2 IH2].
  - exists 0%nat. destruct W as (_ & _ & P). destruct (P r p Ir Ep) as [Cp _].
    eapply upS; eauto. apply up0. apply contains_in, in_map, Ir.
  - destruct IH1 as (n1 & U1). destruct IH2 as (n2 & U2).
    exists (n2 + S n1)%nat. change (S (n2 + S n1)) with (S n2 + S n1)%nat. eapply up_trans; eauto.
Qed.

Theorem is_ancestor_iff : forall t a d, wf t -> (is_ancestor t a d = true <-> ancestor t a d).
Proof.
  intros t a d W. pose proof (wf_pre_wf t W) as PW. unfold is_ancestor.
  rewrite (get_history_pre_wf t d PW). cbn [fst]. rewrite mem_id_iff. split.
  - intros I. destruct (hist t d) as [|x h] eqn:E; [destruct I|]. cbn [tl] in I.
    apply In_nth_error in I. destruct I as (n & Hn).
    assert (H : nth_error (hist t d) (S n) = Some a) by (rewrite E; exact Hn).
    apply hist_nth in H; auto. eapply up_ancestor; eauto.
  - intros H. destruct (ancestor_up t a d W H) as (n & U). apply hist_nth in U; auto.
    destruct (hist t d) as [|x h]; [discriminate|]. cbn [tl]. cbn in U. eapply nth_error_In; eauto.
Qed.

(* ---- ContainsCycles ---- *)
Theorem wf_contains_no_cycles : forall t, pre_wf t -> contains_cycles t = false.
Proof.
  intros t PW. unfold contains_cycles. destruct (existsb _ (leaves t)) eqn:E; auto.
  apply existsb_exists in E. destruct E as (l & _ & H). rewrite (get_history_pre_wf t (rid l) PW) in H.
  discriminate.
Qed.
