(* C04 proofs, part 1: compareRevIDs is a total order (generation first, then byte-wise digest). *)
From SG Require Import Base.Prelude C04.RevId.
Open Scope N_scope.

Lemma cmp_dig_refl : forall a, cmp_dig a a = Eq.
Proof. induction a as [|x a IH]; cbn; auto. rewrite N.compare_refl. exact IH. Qed.

Lemma cmp_dig_eq : forall a b, cmp_dig a b = Eq -> a = b.
Proof.
  induction a as [|x a IH]; intros [|y b] H; cbn in H; try congruence.
  destruct (x ?= y) eqn:E; try congruence.
  apply N.compare_eq in E. subst. f_equal. auto.
Qed.

Lemma cmp_dig_antisym : forall a b, cmp_dig b a = CompOpp (cmp_dig a b).
Proof.
  induction a as [|x a IH]; intros [|y b]; cbn; auto.
  rewrite (N.compare_antisym x y). destruct (x ?= y); cbn; auto.
Qed.

Lemma cmp_dig_lt_trans : forall a b c, cmp_dig a b = Lt -> cmp_dig b c = Lt -> cmp_dig a c = Lt.
Proof.
  induction a as [|x a IH]; intros [|y b] [|z c] H1 H2; cbn in *; try congruence.
  destruct (x ?= y) eqn:E1; destruct (y ?= z) eqn:E2; try congruence.
  - apply N.compare_eq in E1, E2. subst. rewrite N.compare_refl. eauto.
  - apply N.compare_eq in E1. subst. rewrite E2. reflexivity.
  - apply N.compare_eq in E2. subst. rewrite E1. reflexivity.
  - rewrite N.compare_lt_iff in E1, E2. assert (E : x < z) by lia.
    rewrite <- N.compare_lt_iff in E. rewrite E. reflexivity.
Qed.

Lemma revid_eqb_eq : forall a b, revid_eqb a b = true <-> a = b.
Proof.
  intros [g1 d1] [g2 d2]. unfold revid_eqb; cbn [gen dig].
  rewrite andb_true_iff, N.eqb_eq, (list_eqb_eq N.eqb N.eqb_eq).
  split; [intros [-> ->]; reflexivity | intros E; inversion E; auto].
Qed.

Lemma revid_eqb_refl : forall a, revid_eqb a a = true.
Proof. intros a. apply revid_eqb_eq. reflexivity. Qed.

Lemma revid_eqb_neq : forall a b, revid_eqb a b = false <-> a <> b.
Proof.
  intros a b. split.
  - intros H E. apply revid_eqb_eq in E. congruence.
  - intros H. destruct (revid_eqb a b) eqn:E; auto. apply revid_eqb_eq in E. contradiction.
Qed.

Lemma revid_eqb_sym : forall a b, revid_eqb a b = revid_eqb b a.
Proof.
  intros a b. destruct (revid_eqb a b) eqn:E.
  - apply revid_eqb_eq in E. subst. symmetry. apply revid_eqb_refl.
  - apply revid_eqb_neq in E. symmetry. apply revid_eqb_neq. congruence.
Qed.

Lemma revid_eq_dec : forall a b : revid, {a = b} + {a <> b}.
Proof.
  intros a b. destruct (revid_eqb a b) eqn:E.
  - left. apply revid_eqb_eq. exact E.
  - right. apply revid_eqb_neq. exact E.
Qed.

(* ---- cmp_id ---- *)
Lemma cmp_id_refl : forall a, cmp_id a a = Eq.
Proof. intros a. unfold cmp_id. rewrite N.ltb_irrefl, cmp_dig_refl. reflexivity. Qed.

Lemma cmp_id_eq : forall a b, cmp_id a b = Eq -> a = b.
Proof.
  intros [g1 d1] [g2 d2]. unfold cmp_id; cbn [gen dig]. intros H.
  destruct (g2 <? g1) eqn:E1; try congruence.
  destruct (g1 <? g2) eqn:E2; try congruence.
  destruct (cmp_dig d1 d2) eqn:E3; try congruence.
  apply cmp_dig_eq in E3. f_equal; [lia | exact E3].
Qed.

Lemma cmp_id_antisym : forall a b, cmp_id b a = CompOpp (cmp_id a b).
Proof.
  intros a b. unfold cmp_id.
  destruct (gen b <? gen a) eqn:E1; destruct (gen a <? gen b) eqn:E2; cbn; try reflexivity; try lia.
  rewrite (cmp_dig_antisym (dig a) (dig b)). destruct (cmp_dig (dig a) (dig b)); reflexivity.
Qed.

Lemma cmp_id_lt_iff : forall a b,
  cmp_id a b = Lt <-> (gen a < gen b \/ (gen a = gen b /\ cmp_dig (dig a) (dig b) = Lt)).
Proof.
  intros a b. unfold cmp_id.
  destruct (gen b <? gen a) eqn:E1; destruct (gen a <? gen b) eqn:E2.
  - lia.
  - split; [congruence | intros [H | [H _]]; lia].
  - split; [intros _; left; lia | reflexivity].
  - destruct (cmp_dig (dig a) (dig b)) eqn:E3; split; try congruence; try (intros [H | [_ H]]; try lia; congruence).
    intros _. right. split; [lia | reflexivity].
Qed.

Lemma cmp_id_gt_lt : forall a b, cmp_id a b = Gt <-> cmp_id b a = Lt.
Proof.
  intros a b. rewrite (cmp_id_antisym a b). destruct (cmp_id a b); cbn; split; congruence.
Qed.

Lemma cmp_id_lt_trans : forall a b c, cmp_id a b = Lt -> cmp_id b c = Lt -> cmp_id a c = Lt.
Proof.
  intros a b c H1 H2. rewrite cmp_id_lt_iff in *.
  destruct H1 as [H1 | [H1 D1]]; destruct H2 as [H2 | [H2 D2]]; try (left; lia).
  right. split; [lia | eapply cmp_dig_lt_trans; eauto].
Qed.

Lemma cmp_id_gt_trans : forall a b c, cmp_id a b = Gt -> cmp_id b c = Gt -> cmp_id a c = Gt.
Proof.
  intros a b c H1 H2. rewrite cmp_id_gt_lt in *. eapply cmp_id_lt_trans; eauto.
Qed.

Lemma cmp_id_total : forall a b, a <> b -> cmp_id a b = Lt \/ cmp_id a b = Gt.
Proof.
  intros a b H. destruct (cmp_id a b) eqn:E; auto. apply cmp_id_eq in E. contradiction.
Qed.

(* generation dominates *)
Lemma cmp_id_gen : forall a b, gen a < gen b -> cmp_id a b = Lt.
Proof. intros a b H. apply cmp_id_lt_iff. left. exact H. Qed.

(* ---- the textual comparison agrees with the comparison of the parsed pairs ---- *)
Lemma cmp_raw_parsed : forall fx s1 s2 g1 d1 g2 d2,
  parse_revid_gen fx s1 = Some (g1, d1) -> parse_revid_gen fx s2 = Some (g2, d2) ->
  cmp_raw_gen fx s1 s2 = cmp_to_Z (cmp_id (I g1 d1) (I g2 d2)).
Proof.
  intros fx s1 s2 g1 d1 g2 d2 H1 H2. unfold cmp_raw_gen, parse_pub_gen.
  destruct s1 as [|c1 s1]; [cbn in H1; congruence|].
  destruct s2 as [|c2 s2]; [cbn in H2; congruence|].
  rewrite H1, H2. unfold cmp_id; cbn [gen dig].
  destruct (g2 <? g1) eqn:E1; destruct (g1 <? g2) eqn:E2;
    destruct (Z.of_N g2 <? Z.of_N g1)%Z eqn:E3; destruct (Z.of_N g1 <? Z.of_N g2)%Z eqn:E4; try lia; try reflexivity.
  destruct (cmp_dig d1 d2); reflexivity.
Qed.

(* every accepted textual id has generation >= 1 (old and repaired parser) *)
Lemma parse_revid_gen_pos : forall fx s g d, parse_revid_gen fx s = Some (g, d) -> 1 <= g.
Proof.
  intros fx s g d H. unfold parse_revid_gen in H.
  destruct (split_dash s) as [[p d']|]; try congruence.
  destruct (atoi_pos p) eqn:E; try congruence.
  destruct (fx && negb (canonical_prefix p)); try congruence. inversion H; subst.
  unfold atoi_pos in E.
  destruct (match p with c :: r => if c =? 43 then r else p | [] => p end); try congruence.
  destruct (digits_val 0 (n :: l)); try congruence.
  destruct ((1 <=? n0) && (n0 <=? max_int)) eqn:E2; try congruence.
  inversion E; subst. lia.
Qed.
