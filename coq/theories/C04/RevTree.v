(* C04 model, part 2: the revision tree (db/revtree.go).
   A Go [RevTree] is a map revid -> *RevInfo; it is modelled as a list of [rev] records, the list
   order standing for an arbitrary map iteration order (the theorems quantify over permutations). *)
From SG Require Import Base.Prelude.
From SG Require Export C04.RevId.
Open Scope N_scope.

Record rev := R { rid : revid; rpar : option revid; rdel : bool }.
Definition tree := list rev.

Definition opt_id_eqb (a b : option revid) : bool := option_eqb revid_eqb a b.
Definition rev_eqb (a b : rev) : bool :=
  revid_eqb (rid a) (rid b) && opt_id_eqb (rpar a) (rpar b) && Bool.eqb (rdel a) (rdel b).

Fixpoint find_rev (t : tree) (i : revid) : option rev :=
  match t with
  | [] => None
  | r :: t' => if revid_eqb (rid r) i then Some r else find_rev t' i
  end.
Definition contains (t : tree) (i : revid) : bool :=
  match find_rev t i with Some _ => true | None => false end.

(* ---------- addRevision ---------- *)
(* None = error (tree unchanged): id already present, parent missing, or generation not above the
   parent's.  (The empty-id error cannot arise for parsed ids.) *)
Definition add (t : tree) (r : rev) : option tree :=
  if contains t (rid r) then None
  else match rpar r with
       | None => Some (r :: t)
       | Some p => if negb (contains t p) then None
                   else if gen (rid r) <=? gen p then None
                   else Some (r :: t)
       end.

(* ---------- leaves (GetLeaves / forEachLeaf) ---------- *)
Definition is_parent (t : tree) (i : revid) : bool :=
  existsb (fun r => opt_id_eqb (rpar r) (Some i)) t.
Definition leaves (t : tree) : list rev := filter (fun r => negb (is_parent t (rid r))) t.
Definition is_leaf (t : tree) (i : revid) : bool := contains t i && negb (is_parent t i).

(* ---------- winningRevision ---------- *)
Record wstate := W { w_id : option revid; w_exists : bool; w_leaves : N; w_active : N }.
Definition w_init : wstate := W None false 0 0.
Definition id0 : revid := I 0 [].        (* ParseRevID("") = (0, "") *)
Definition wid (w : option revid) : revid := match w with Some i => i | None => id0 end.

(* the update condition of the loop body:
     (exists && !winnerExists) || ((exists == winnerExists) && compareRevIDs(info.ID, winner) > 0) *)
Definition better (r : rev) (s : wstate) : bool :=
  let ex := negb (rdel r) in
  (ex && negb (w_exists s)) || (Bool.eqb ex (w_exists s) && is_gt (cmp_id (rid r) (wid (w_id s)))).

Definition winner_step (s : wstate) (r : rev) : wstate :=
  let ex := negb (rdel r) in
  let upd := better r s in
  W (if upd then Some (rid r) else w_id s)
    (if upd then ex else w_exists s)
    (w_leaves s + 1)
    (if ex then w_active s + 1 else w_active s).

Definition winner_fold (l : list rev) : wstate := fold_left winner_step l w_init.

(* (winner, branched, inConflict) *)
Definition winning (t : tree) : option revid * bool * bool :=
  let s := winner_fold (leaves t) in (w_id s, 1 <? w_leaves s, 1 <? w_active s).

(* ---------- pruneRevisions ---------- *)
(* i, parent(i), ... as long as the node is present: the walk
   [for node := tree[id]; node != nil; node = tree[node.Parent]] *)
Fixpoint chain (fuel : nat) (t : tree) (i : revid) : list revid :=
  match fuel with
  | O => []
  | S f => match find_rev t i with
           | None => []
           | Some r => i :: match rpar r with None => [] | Some p => chain f t p end
           end
  end.

Fixpoint number_from (d : N) (l : list revid) : list (revid * N) :=
  match l with [] => [] | x :: r => (x, d) :: number_from (d + 1) r end.

(* computeDepthsAndFindLeaves assigns to every node the minimum over the leaves below it of
   (distance to that leaf + 1); the early [break] of the Go loop only skips assignments that would
   not lower a depth, so the result does not depend on the order in which leaves are visited. *)
Definition depth_entries (t : tree) : list (revid * N) :=
  flat_map (fun l => number_from 1 (chain (length t) t (rid l))) (leaves t).

Definition depth_of (es : list (revid * N)) (i : revid) : option N :=
  fold_left (fun acc e => if revid_eqb (fst e) i
                          then match acc with None => Some (snd e) | Some m => Some (N.min m (snd e)) end
                          else acc) es None.

Definition remove_ids (t : tree) (ids : list revid) : tree :=
  filter (fun r => negb (existsb (revid_eqb (rid r)) ids)) t.

(* "Snip dangling Parent links" *)
Definition snip (t : tree) : tree :=
  map (fun r => match rpar r with
                | Some p => if contains t p then r else R (rid r) None (rdel r)
                | None => r
                end) t.

(* returns (tree after pruning, number pruned).  [maxd >= 1] is assumed (revs_limit is never 0).
   Nodes that are not an ancestor of any leaf (possible only in a cyclic tree) are kept: the model is
   meant for acyclic trees. *)
Definition prune (maxd : N) (t : tree) : tree * N :=
  if N.of_nat (length t) <=? maxd then (t, 0)
  else
    let lv := leaves t in
    let es := depth_entries t in
    let t1 := filter (fun r => match depth_of es (rid r) with Some d => d <=? maxd | None => true end) t in
    let live_gens := map (fun r => gen (rid r)) (filter (fun r => negb (rdel r)) (leaves t1)) in
    let t2 := match live_gens with
              | [] => t1
              | g :: gs =>
                  let shortest := fold_left N.min gs g in
                  (* leafGeneration < genShortestNonTSBranch - maxDepth, over the integers *)
                  let doomed := filter (fun l => rdel l && (gen (rid l) + maxd <? shortest)) lv in
                  remove_ids t1 (flat_map (fun l => chain (length t1) t1 (rid l)) doomed)
              end in
    let pruned := N.of_nat (length t) - N.of_nat (length t2) in
    ((if 0 <? pruned then snip t2 else t2), pruned).

(* ---------- MarshalJSON / UnmarshalJSON: the revTreeList structure ---------- *)
Record enc := E { e_revs : list revid; e_parents : list (option N); e_deleted : list N }.

Fixpoint index_of (i : revid) (l : list revid) (k : N) : option N :=
  match l with
  | [] => None
  | x :: r => if revid_eqb x i then Some k else index_of i r (N.succ k)
  end.

Fixpoint deleted_idx (t : tree) (k : N) : list N :=
  match t with
  | [] => []
  | r :: t' => if rdel r then k :: deleted_idx t' (N.succ k) else deleted_idx t' (N.succ k)
  end.

(* the list order of [t] is the iteration order the encoder happened to use; a dangling parent is
   written as -1 ([None]) *)
Definition encode (t : tree) : enc :=
  let revs := map rid t in
  E revs
    (map (fun r => match rpar r with None => None | Some p => index_of p revs 0 end) t)
    (deleted_idx t 0).

Fixpoint decode_from (revs : list revid) (dels : list N) (k : N) (rs : list revid) (ps : list (option N))
  : option tree :=
  match rs, ps with
  | [], [] => Some []
  | i :: rs', p :: ps' =>
      match (match p with
             | None => Some None
             | Some j => match nth_error revs (N.to_nat j) with Some q => Some (Some q) | None => None end
             end) with
      | None => None                      (* index out of range: the Go code panics *)
      | Some par =>
          match decode_from revs dels (N.succ k) rs' ps' with
          | Some t => Some (R i par (existsb (N.eqb k) dels) :: t)
          | None => None
          end
      end
  | _, _ => None                          (* "revs/parents counts are inconsistent" *)
  end.

Definition decode (e : enc) : option tree :=
  decode_from (e_revs e) (e_deleted e) 0 (e_revs e) (e_parents e).

(* ---------- set-like comparison used by the correspondence ---------- *)
Definition tree_sub (a b : tree) : bool := forallb (fun r => existsb (rev_eqb r) b) a.
Definition tree_eqb (a b : tree) : bool :=
  (N.of_nat (length a) =? N.of_nat (length b)) && tree_sub a b && tree_sub b a.
