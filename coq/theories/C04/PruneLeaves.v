(* C04 proofs, part 9: pruning (maxDepth >= 1) keeps every live leaf, creates no new leaf, removes only
   tombstoned leaves, and therefore keeps the winner. *)
From Coq Require Import Permutation.
From SG Require Import Base.Prelude C04.RevId C04.RevTree C04.OrderProofs C04.WinnerProofs C04.WfProofs C04.PruneProofs.
Open Scope N_scope.

(* ---------- chains ---------- *)
(* consecutive elements of a chain are child -> parent records of the tree *)
Lemma chain_head : forall f t i, In i (map rid t) -> chain (S f) t i <> [] /\ hd_error (chain (S f) t i) = Some i.
Proof.
  intros f t i I. cbn [chain]. destruct (find_rev t i) eqn:F.
  - split; [congruence | reflexivity].
  - apply find_rev_none in F. contradiction.
Qed.

Lemma chain_in_tree : forall f t i x, In x (chain f t i) -> In x (map rid t).
Proof.
  induction f as [|f IH]; intros t i x I; cbn [chain] in I; [destruct I|].
  destruct (find_rev t i) as [r|] eqn:F; [|destruct I].
  destruct I as [<- | I].
  - destruct (find_rev_some _ _ _ F) as [Ir <-]. apply in_map. exact Ir.
  - destruct (rpar r); [eapply IH; eauto | destruct I].
Qed.

(* position k+1.. of a chain: either the head, or the element before it is a record whose parent it is *)
Lemma chain_prev : forall f t i k y d, In (y, d) (number_from k (chain f t i)) ->
  (d = k /\ y = i) \/
  (k < d /\ exists x rx, In (x, d - 1) (number_from k (chain f t i)) /\ In rx t /\ rid rx = x /\ rpar rx = Some y).
Proof.
  induction f as [|f IH]; intros t i k y d I; cbn [chain] in *; [destruct I|].
  destruct (find_rev t i) as [r|] eqn:F; [|destruct I].
  cbn [number_from] in I. destruct I as [E | I].
  - inversion E; subst. left. auto.
  - destruct (rpar r) as [p|] eqn:Ep; [|destruct I].
    right. destruct (IH t p (k + 1) y d I) as [[-> ->] | (L & x & rx & Ix & Irx & Ex & Px)].
    + split; [lia|]. exists i, r. replace (k + 1 - 1) with k by lia.
      destruct (find_rev_some _ _ _ F) as [Ir Er]. cbn [number_from]. repeat split; auto. left. reflexivity.
    + split; [lia|]. exists x, rx. repeat split; auto. cbn [number_from]. right. exact Ix.
Qed.

Lemma number_from_lower : forall l k y d, In (y, d) (number_from k l) -> k <= d.
Proof.
  induction l as [|x l IH]; intros k y d I; cbn in I; [destruct I|].
  destruct I as [E | I]; [inversion E; lia | specialize (IH _ _ _ I); lia].
Qed.

Lemma number_from_in : forall l k y d, In (y, d) (number_from k l) -> In y l.
Proof.
  induction l as [|x l IH]; intros k y d I; cbn in I; [destruct I|].
  destruct I as [E | I]; [inversion E; left; auto | right; eapply IH; eauto].
Qed.

(* ---------- depth_of: the minimum over the entries of an id ---------- *)
Definition dstep (i : revid) (acc : option N) (e : revid * N) : option N :=
  if revid_eqb (fst e) i
  then match acc with None => Some (snd e) | Some m => Some (N.min m (snd e)) end
  else acc.

Lemma depth_fold_some : forall es i m, exists m', fold_left (dstep i) es (Some m) = Some m' /\ m' <= m /\
  (m' = m \/ In (i, m') es) /\ (forall d, In (i, d) es -> m' <= d).
Proof.
  induction es as [|[x d0] es IH]; intros i m; cbn [fold_left].
  - exists m. split; auto. split; [lia|]. split; auto. intros d [].
  - replace (dstep i (Some m) (x, d0)) with (if revid_eqb x i then Some (N.min m d0) else Some m) by reflexivity.
    destruct (revid_eqb x i) eqn:E.
    + apply revid_eqb_eq in E. subst x.
      destruct (IH i (N.min m d0)) as (m' & A & B & C & D). exists m'. split; auto. split; [lia|]. split.
      * destruct C as [-> | C]; [|right; right; exact C].
        destruct (N.min_spec m d0) as [[_ ->] | [_ ->]]; auto. right. left. reflexivity.
      * intros d [Ed | Id]; [inversion Ed; subst; lia | auto].
    + destruct (IH i m) as (m' & A & B & C & D). exists m'. split; auto. split; auto. split.
      * destruct C as [-> | C]; [left; reflexivity | right; right; exact C].
      * intros d [Ed | Id]; [inversion Ed; subst; rewrite revid_eqb_refl in E; congruence | auto].
Qed.

Lemma depth_of_spec : forall es i,
  (depth_of es i = None /\ forall d, ~ In (i, d) es) \/
  (exists m, depth_of es i = Some m /\ In (i, m) es /\ forall d, In (i, d) es -> m <= d).
Proof.
  unfold depth_of. intros es i. change (fun acc e => _) with (dstep i).
  induction es as [|[x d0] es IH]; cbn [fold_left].
  - left. split; auto.
  - replace (dstep i None (x, d0)) with (if revid_eqb x i then Some d0 else None) by reflexivity.
    destruct (revid_eqb x i) eqn:E.
    + apply revid_eqb_eq in E. subst x. right.
      destruct (depth_fold_some es i d0) as (m' & A & B & C & D). exists m'. split; auto. split.
      * destruct C as [-> | C]; [left; reflexivity | right; exact C].
      * intros d [Ed | Id]; [inversion Ed; subst; lia | auto].
    + destruct IH as [[A B] | (m & A & B & C)].
      * left. split; auto. intros d [Ed | Id]; [inversion Ed; subst; rewrite revid_eqb_refl in E; congruence | eapply B; eauto].
      * right. exists m. split; auto. split; [right; exact B|].
        intros d [Ed | Id]; [inversion Ed; subst; rewrite revid_eqb_refl in E; congruence | auto].
Qed.

(* ---------- fuel: a chain computed with fuel [length t] is never cut short ---------- *)
Definition pre_wf (t : tree) : Prop :=
  NoDup (map rid t) /\ forall r p, In r t -> rpar r = Some p -> gen p < gen (rid r).

Lemma wf_pre_wf : forall t, wf t -> pre_wf t.
Proof. intros t (ND & _ & P). split; auto. intros r p I E. destruct (P r p I E). assumption. Qed.

Lemma pre_wf_filter : forall t f, pre_wf t -> pre_wf (filter f t).
Proof.
  intros t f (ND & P). split; [apply nodup_map_filter; exact ND|].
  intros r p I E. apply filter_In in I. eapply P; eauto. tauto.
Qed.

Definition cnt (t : tree) (g : N) : nat := length (filter (fun r => gen (rid r) <=? g) t).

Lemma cnt_le_length : forall t g, (cnt t g <= length t)%nat.
Proof. intros. unfold cnt. apply filter_length_le. Qed.

Lemma cnt_mono : forall t g1 g2, g1 <= g2 -> (cnt t g1 <= cnt t g2)%nat.
Proof.
  unfold cnt. induction t as [|x t IH]; intros g1 g2 L; cbn [filter length]; auto.
  specialize (IH g1 g2 L).
  destruct (gen (rid x) <=? g1) eqn:E1; destruct (gen (rid x) <=? g2) eqn:E2; cbn [length]; lia.
Qed.

Lemma cnt_lt : forall t r g1 g2, In r t -> g1 < gen (rid r) -> gen (rid r) <= g2 -> (cnt t g1 < cnt t g2)%nat.
Proof.
  unfold cnt. induction t as [|x t IH]; intros r g1 g2 I L1 L2; [destruct I|]. cbn [filter].
  destruct I as [-> | I].
  - pose proof (cnt_mono t g1 g2 ltac:(lia)) as M. unfold cnt in M.
    destruct (gen (rid r) <=? g1) eqn:E1; [lia|]. destruct (gen (rid r) <=? g2) eqn:E2; [|lia]. cbn [length]. lia.
  - specialize (IH r g1 g2 I L1 L2).
    destruct (gen (rid x) <=? g1) eqn:E1; destruct (gen (rid x) <=? g2) eqn:E2; cbn [length]; lia.
Qed.

Lemma cnt_pos : forall t r g, In r t -> gen (rid r) <= g -> (1 <= cnt t g)%nat.
Proof.
  unfold cnt. induction t as [|x t IH]; intros r g I L; [destruct I|]. cbn [filter].
  destruct I as [-> | I].
  - destruct (gen (rid r) <=? g) eqn:E; [cbn [length]; lia | lia].
  - specialize (IH r g I L). destruct (gen (rid x) <=? g); cbn [length]; lia.
Qed.

(* with enough fuel, the parent of a chain element is the next chain element *)
Lemma chain_next : forall f t i k x d, pre_wf t -> (cnt t (gen i) <= f)%nat ->
  In (x, d) (number_from k (chain f t i)) ->
  forall rx p, In rx t -> rid rx = x -> rpar rx = Some p -> contains t p = true ->
  In (p, d + 1) (number_from k (chain f t i)).
Proof.
  induction f as [|f IH]; intros t i k x d PW Fu I rx p Irx Ex Px Cp; cbn [chain] in *; [destruct I|].
  destruct (find_rev t i) as [r|] eqn:F; [|destruct I].
  destruct (find_rev_some _ _ _ F) as [Ir Er].
  cbn [number_from] in *. destruct I as [E | I].
  - inversion E; subst x d. clear E.
    assert (r = rx) by (eapply nodup_rid_inj; eauto; [apply PW | congruence]). subst rx.
    rewrite Px. right.
    apply contains_in in Cp. apply in_map_iff in Cp. destruct Cp as (rp & Erp & Irp).
    assert (G : gen p < gen i) by (rewrite <- Er; apply (proj2 PW r p Ir Px)).
    assert (C1 : (1 <= cnt t (gen p))%nat) by (apply (cnt_pos t rp); auto; rewrite Erp; lia).
    assert (C2 : (cnt t (gen p) < cnt t (gen i))%nat) by (apply (cnt_lt t r); auto; rewrite Er; lia).
    destruct f as [|f]; [lia|].
    cbn [chain]. destruct (find_rev t p) eqn:Fp.
    + cbn [number_from]. left. reflexivity.
    + apply find_rev_none in Fp. exfalso. apply Fp. rewrite <- Erp. apply in_map. exact Irp.
  - destruct (rpar r) as [q|] eqn:Eq; [|destruct I]. right.
    assert (C2 : (cnt t (gen q) < cnt t (gen i))%nat).
    { apply (cnt_lt t r); auto; rewrite Er; [|lia]. rewrite <- Er. apply (proj2 PW r q Ir Eq). }
    apply (IH t q (k + 1) x d PW ltac:(lia) I rx p Irx Ex Px Cp).
Qed.

Lemma chain_next_full : forall t i k x d, pre_wf t ->
  In (x, d) (number_from k (chain (length t) t i)) ->
  forall rx p, In rx t -> rid rx = x -> rpar rx = Some p -> contains t p = true ->
  In (p, d + 1) (number_from k (chain (length t) t i)).
Proof. intros. eapply chain_next; eauto. apply cnt_le_length. Qed.

(* ---------- phase 1: deleting nodes deeper than maxd keeps the leaves and creates none ---------- *)
Definition keep1 (maxd : N) (t : tree) (r : rev) : bool :=
  match depth_of (depth_entries t) (rid r) with Some d => d <=? maxd | None => true end.

Lemma entries_in : forall t y d, In (y, d) (depth_entries t) <->
  exists l, In l (leaves t) /\ In (y, d) (number_from 1 (chain (length t) t (rid l))).
Proof. intros t y d. unfold depth_entries. apply in_flat_map. Qed.

Lemma leaf_entry : forall t l, In l (leaves t) -> In (rid l, 1) (depth_entries t).
Proof.
  intros t l I. apply entries_in. exists l. split; auto.
  assert (It : In l t) by (apply in_leaves in I; tauto).
  destruct t as [|x t']; [destruct It|]. cbn [length].
  cbn [chain]. destruct (find_rev (x :: t') (rid l)) eqn:F.
  - cbn [number_from]. left. reflexivity.
  - apply find_rev_none in F. exfalso. apply F. apply in_map. exact It.
Qed.

Lemma keep1_leaf : forall maxd t l, 1 <= maxd -> In l (leaves t) -> keep1 maxd t l = true.
Proof.
  intros maxd t l M I. unfold keep1.
  destruct (depth_of_spec (depth_entries t) (rid l)) as [[A _] | (m & A & _ & C)]; rewrite A; auto.
  specialize (C 1 (leaf_entry t l I)). apply N.leb_le. lia.
Qed.

Lemma keep1_of_entry : forall maxd t c d, In (rid c, d) (depth_entries t) -> d <= maxd -> keep1 maxd t c = true.
Proof.
  intros maxd t c d I L. unfold keep1.
  destruct (depth_of_spec (depth_entries t) (rid c)) as [[A B] | (m & A & _ & C)]; rewrite A; auto.
  specialize (C d I). apply N.leb_le. lia.
Qed.

(* a kept non-leaf keeps a child *)
Lemma keep1_child : forall maxd t r, wf t -> In r t -> is_parent t (rid r) = true -> keep1 maxd t r = true ->
  exists c, In c t /\ rpar c = Some (rid r) /\ keep1 maxd t c = true.
Proof.
  intros maxd t r W Ir P K. unfold keep1 in K.
  destruct (depth_of_spec (depth_entries t) (rid r)) as [[A NB] | (m & A & B & C)]; rewrite A in K.
  - apply is_parent_iff in P. destruct P as (c & Ic & Pc). exists c. split; auto. split; auto.
    unfold keep1.
    destruct (depth_of_spec (depth_entries t) (rid c)) as [[Ac _] | (mc & Ac & Bc & _)]; rewrite Ac; auto.
    exfalso. apply entries_in in Bc. destruct Bc as (l & Il & Ic').
    apply (NB (mc + 1)). apply entries_in. exists l. split; auto.
    eapply chain_next_full; eauto; [apply wf_pre_wf; exact W|].
    apply contains_in. apply in_map. exact Ir.
  - apply N.leb_le in K. apply entries_in in B. destruct B as (l & Il & Ie).
    destruct (chain_prev _ _ _ _ _ _ Ie) as [[-> E] | (L & x & rx & Ix & Irx & Ex & Px)].
    + exfalso. apply in_leaves in Il. destruct Il as [Il NP].
      assert (l = r) by (eapply wf_unique_parent; eauto). subst l. congruence.
    + exists rx. split; auto. split; auto. apply (keep1_of_entry maxd t rx (m - 1)); [|lia].
      apply entries_in. exists l. split; auto. rewrite Ex. exact Ix.
Qed.

Lemma is_parent_filter_sub : forall f t i, is_parent (filter f t) i = true -> is_parent t i = true.
Proof.
  intros f t i H. apply is_parent_iff in H. destruct H as (c & Ic & Pc). apply filter_In in Ic.
  apply is_parent_iff. exists c. tauto.
Qed.

Theorem phase1_leaves : forall maxd t, wf t -> 1 <= maxd ->
  leaves (filter (keep1 maxd t) t) = leaves t.
Proof.
  intros maxd t W M. unfold leaves at 1. rewrite filter_filter. unfold leaves. apply filter_ext_in.
  intros r Ir. destruct (is_parent t (rid r)) eqn:P.
  - destruct (keep1 maxd t r) eqn:K; auto. cbn [andb negb].
    destruct (keep1_child maxd t r W Ir P K) as (c & Ic & Pc & Kc).
    assert (X : is_parent (filter (keep1 maxd t) t) (rid r) = true).
    { apply is_parent_iff. exists c. split; auto. apply filter_In. auto. }
    rewrite X. reflexivity.
  - assert (Il : In r (leaves t)) by (apply in_leaves; auto).
    rewrite (keep1_leaf maxd t r M Il). cbn [andb].
    destruct (is_parent (filter (keep1 maxd t) t) (rid r)) eqn:X; auto.
    apply is_parent_filter_sub in X. congruence.
Qed.

(* ---------- phase 2: removing the branches of doomed (tombstoned) leaves ---------- *)
Lemma number_from_ex : forall l k x, In x l -> exists d, In (x, d) (number_from k l).
Proof.
  induction l as [|y l IH]; intros k x I; [destruct I|]. cbn [number_from].
  destruct I as [-> | I].
  - exists k. left. reflexivity.
  - destruct (IH (k + 1) x I) as (d & Hd). exists d. right. exact Hd.
Qed.

Definition in_ids (ids : list revid) (r : rev) : bool := existsb (revid_eqb (rid r)) ids.

Lemma in_ids_iff : forall ids r, in_ids ids r = true <-> In (rid r) ids.
Proof.
  intros ids r. unfold in_ids. rewrite existsb_exists. split.
  - intros (x & I & E). apply revid_eqb_eq in E. subst. exact I.
  - intros I. exists (rid r). split; auto. apply revid_eqb_refl.
Qed.

Definition branches (t1 : tree) (doomed : list rev) : list revid :=
  flat_map (fun l => chain (length t1) t1 (rid l)) doomed.

Lemma branches_in : forall t1 doomed x, In x (branches t1 doomed) <->
  exists l, In l doomed /\ In x (chain (length t1) t1 (rid l)).
Proof. intros. unfold branches. apply in_flat_map. Qed.

Theorem phase2_leaves : forall t1 doomed, pre_wf t1 -> (forall l, In l doomed -> In l (leaves t1)) ->
  leaves (remove_ids t1 (branches t1 doomed)) =
  filter (fun r => negb (in_ids (map rid doomed) r)) (leaves t1).
Proof.
  intros t1 doomed PW DL. unfold remove_ids. fold (in_ids (branches t1 doomed)).
  change (fun r : rev => negb (existsb (revid_eqb (rid r)) (branches t1 doomed)))
    with (fun r => negb (in_ids (branches t1 doomed) r)).
  set (t2 := filter (fun r => negb (in_ids (branches t1 doomed) r)) t1).
  unfold leaves at 1. subst t2. rewrite filter_filter.
  unfold leaves. rewrite filter_filter. apply filter_ext_in. intros r Ir.
  set (t2 := filter (fun r => negb (in_ids (branches t1 doomed) r)) t1).
  destruct (in_ids (branches t1 doomed) r) eqn:X; cbn [negb andb].
  - (* removed: if it was a leaf then it is doomed *)
    destruct (is_parent t1 (rid r)) eqn:P; cbn [negb andb]; auto.
    apply in_ids_iff in X. apply branches_in in X. destruct X as (l & Il & Ic).
    destruct (number_from_ex _ 1 _ Ic) as (d & Hd).
    destruct (chain_prev _ _ _ _ _ _ Hd) as [[_ E] | (_ & x & rx & _ & Irx & _ & Px)].
    + assert (D : in_ids (map rid doomed) r = true) by (apply in_ids_iff; rewrite E; apply in_map; exact Il).
      rewrite D. reflexivity.
    + exfalso. assert (K : is_parent t1 (rid r) = true) by (apply is_parent_iff; eauto). congruence.
  - (* kept: not doomed, and parenthood is unchanged *)
    assert (ND : in_ids (map rid doomed) r = false).
    { destruct (in_ids (map rid doomed) r) eqn:D; auto. exfalso.
      apply in_ids_iff in D. apply in_map_iff in D. destruct D as (l & E & Il).
      assert (K : in_ids (branches t1 doomed) r = true).
      { apply in_ids_iff. apply branches_in. exists l. split; auto.
        assert (Ilt : In l t1) by (apply DL in Il; apply in_leaves in Il; tauto).
        destruct t1 as [|y t1']; [destruct Ilt|]. cbn [length chain].
        destruct (find_rev (y :: t1') (rid l)) eqn:F.
        - left. exact E.
        - apply find_rev_none in F. exfalso. apply F. apply in_map. exact Ilt. }
      congruence. }
    rewrite ND. cbn [negb]. rewrite andb_true_r. f_equal.
    destruct (is_parent t1 (rid r)) eqn:P.
    + apply is_parent_iff in P. destruct P as (c & Ic & Pc).
      apply is_parent_iff. exists c. split; auto. subst t2. apply filter_In. split; auto.
      destruct (in_ids (branches t1 doomed) c) eqn:Xc; auto. exfalso.
      apply in_ids_iff in Xc. apply branches_in in Xc. destruct Xc as (l & Il & Icc).
      destruct (number_from_ex _ 1 _ Icc) as (d & Hd).
      assert (Cr : contains t1 (rid r) = true) by (apply contains_in, in_map, Ir).
      pose proof (chain_next_full t1 (rid l) 1 (rid c) d PW Hd c (rid r) Ic eq_refl Pc Cr) as Nx.
      apply number_from_in in Nx.
      assert (K : in_ids (branches t1 doomed) r = true) by (apply in_ids_iff, branches_in; eauto).
      congruence.
    + destruct (is_parent t2 (rid r)) eqn:P2; auto. subst t2. apply is_parent_filter_sub in P2. congruence.
Qed.

(* ---------- phase 3: cutting dangling links does not change which nodes are leaves ---------- *)
Definition sn (t : tree) (r : rev) : rev :=
  match rpar r with
  | Some p => if contains t p then r else R (rid r) None (rdel r)
  | None => r
  end.

Lemma sn_id : forall t r, rid (sn t r) = rid r.
Proof. intros t r. unfold sn. destruct (rpar r) as [p|]; auto. destruct (contains t p); reflexivity. Qed.
Lemma sn_del : forall t r, rdel (sn t r) = rdel r.
Proof. intros t r. unfold sn. destruct (rpar r) as [p|]; auto. destruct (contains t p); reflexivity. Qed.

Lemma is_parent_snip : forall t i, contains t i = true -> is_parent (snip t) i = is_parent t i.
Proof.
  intros t i C. destruct (is_parent t i) eqn:P.
  - apply is_parent_iff in P. destruct P as (c & Ic & Pc). apply is_parent_iff.
    exists (sn t c). split; [unfold snip; apply in_map; exact Ic|]. unfold sn. rewrite Pc, C. exact Pc.
  - apply is_parent_false. intros r' I E. destruct (in_snip _ _ I) as (r & Ir & _ & _ & [[Ep _] | N]); [|congruence].
    rewrite Ep in E. apply (proj1 (is_parent_false t i) P r Ir E).
Qed.

Lemma filter_map_comm {A B} (g : A -> B) (P : B -> bool) l : filter P (map g l) = map g (filter (fun x => P (g x)) l).
Proof. induction l as [|x l IH]; cbn; auto. destruct (P (g x)); cbn; rewrite IH; reflexivity. Qed.

Theorem phase3_leaves : forall t, leaves (snip t) = map (sn t) (leaves t).
Proof.
  intros t. unfold leaves at 1. change (snip t) with (map (sn t) t) at 2.
  rewrite filter_map_comm. unfold leaves. f_equal. apply filter_ext_in. intros r Ir.
  rewrite sn_id, is_parent_snip; auto. apply contains_in, in_map, Ir.
Qed.

(* ---------- the winner only looks at (id, deleted) of the leaves ---------- *)
Definition idel (r : rev) : revid * bool := (rid r, rdel r).

Lemma winner_step_idel : forall s a b, idel a = idel b -> winner_step s a = winner_step s b.
Proof.
  intros s a b E. unfold idel in E. inversion E as [[E1 E2]].
  unfold winner_step, better. rewrite E1, E2. reflexivity.
Qed.

Lemma winner_fold_idel : forall L1 L2, map idel L1 = map idel L2 -> winner_fold L1 = winner_fold L2.
Proof.
  unfold winner_fold. intros L1. generalize w_init.
  induction L1 as [|a L1 IH]; intros s [|b L2] E; cbn in E; try congruence; auto.
  assert (Ea : idel a = idel b) by congruence. assert (Er : map idel L1 = map idel L2) by congruence.
  cbn [fold_left]. rewrite (winner_step_idel s a b Ea). apply IH. exact Er.
Qed.

Lemma dead_steps : forall L s, w_exists s = true -> (forall r, In r L -> rdel r = true) ->
  w_id (fold_left winner_step L s) = w_id s /\ w_exists (fold_left winner_step L s) = true /\
  w_active (fold_left winner_step L s) = w_active s.
Proof.
  induction L as [|r L IH]; intros s Ex D; cbn [fold_left]; auto.
  assert (Dr : rdel r = true) by (apply D; left; reflexivity).
  assert (S1 : winner_step s r = W (w_id s) true (w_leaves s + 1) (w_active s)).
  { unfold winner_step, better. rewrite Dr, Ex. cbn. reflexivity. }
  destruct (IH (winner_step s r)) as (A & B & C).
  - rewrite S1. reflexivity.
  - intros x I. apply D. right. exact I.
  - rewrite A, B, C, S1. auto.
Qed.

Lemma live_steps_exists : forall L s, L <> [] -> (forall r, In r L -> rdel r = false) ->
  w_exists (fold_left winner_step L s) = true.
Proof.
  assert (Keep : forall L s, w_exists s = true -> (forall r, In r L -> rdel r = false) ->
                 w_exists (fold_left winner_step L s) = true).
  { induction L as [|r L IH]; intros s Ex D; cbn [fold_left]; auto.
    apply IH; [|intros x I; apply D; right; exact I].
    rewrite step_exists. rewrite (D r (or_introl eq_refl)). destruct (klt (skey s) (key r)); auto. }
  intros [|r L] s NE D; [congruence|]. cbn [fold_left]. apply Keep; [|intros x I; apply D; right; exact I].
  unfold winner_step, better; cbn [w_exists]. rewrite (D r (or_introl eq_refl)). cbn [negb andb].
  destruct (w_exists s) eqn:Ex; cbn; auto.
  destruct (is_gt (cmp_id (rid r) (wid (w_id s)))); reflexivity.
Qed.

Lemma filter_split_perm {A} (f : A -> bool) l : Permutation l (filter f l ++ filter (fun x => negb (f x)) l).
Proof.
  induction l as [|x l IH]; cbn; [constructor|]. destruct (f x); cbn.
  - constructor. exact IH.
  - eapply Permutation_trans; [constructor; exact IH|]. apply Permutation_middle.
Qed.

(* when a live leaf exists, only the live leaves matter for (winner, exists, active count) *)
Lemma winner_live_only : forall L, filter live L <> [] ->
  w_id (winner_fold L) = w_id (winner_fold (filter live L)) /\
  w_exists (winner_fold L) = true /\ w_exists (winner_fold (filter live L)) = true.
Proof.
  intros L NE.
  rewrite (winner_perm L _ (filter_split_perm live L)).
  unfold winner_fold at 1 3. rewrite fold_left_app.
  assert (Ex : w_exists (fold_left winner_step (filter live L) w_init) = true).
  { apply live_steps_exists; auto. intros r I. apply filter_In in I. destruct I as [_ I].
    unfold live in I. destruct (rdel r); cbn in I; congruence. }
  destruct (dead_steps (filter (fun x => negb (live x)) L) _ Ex) as (A & B & _).
  - intros r I. apply filter_In in I. destruct I as [_ I]. unfold live in I. destruct (rdel r); cbn in I; congruence.
  - rewrite A. unfold winner_fold. auto.
Qed.

(* ---------- assembling the three phases ---------- *)
Lemma filter_true {A} (f : A -> bool) l : (forall x, In x l -> f x = true) -> filter f l = l.
Proof.
  induction l as [|x l IH]; intros H; cbn; auto. rewrite (H x (or_introl eq_refl)). f_equal.
  apply IH. intros y I. apply H. right. exact I.
Qed.

Lemma map_idel_sn : forall t L, map idel (map (sn t) L) = map idel L.
Proof.
  intros t L. rewrite map_map. apply map_ext. intros r. unfold idel. rewrite sn_id, sn_del. reflexivity.
Qed.

Definition not_doomed (dm : list rev) (r : rev) : bool := negb (in_ids (map rid dm) r).

Theorem prune_leaves_spec : forall maxd t, wf t -> 1 <= maxd ->
  exists dm,
    (forall l, In l dm -> In l (leaves t) /\ rdel l = true) /\
    (dm <> [] -> filter live (leaves t) <> []) /\
    map idel (leaves (fst (prune maxd t))) = map idel (filter (not_doomed dm) (leaves t)).
Proof.
  intros maxd t W M. unfold prune.
  destruct (N.of_nat (length t) <=? maxd).
  { exists []. split; [intros ? []|]. split; [congruence|]. cbn [fst]. rewrite filter_true; auto. }
  change (filter (fun r : rev => match depth_of (depth_entries t) (rid r) with
                                  | Some d => d <=? maxd | None => true end) t)
    with (filter (keep1 maxd t) t).
  set (t1 := filter (keep1 maxd t) t).
  assert (L1 : leaves t1 = leaves t) by (apply phase1_leaves; auto).
  assert (PW1 : pre_wf t1) by (apply pre_wf_filter, wf_pre_wf, W).
  rewrite L1.
  change (fun r : rev => negb (rdel r)) with live.
  destruct (map (fun r : rev => gen (rid r)) (filter live (leaves t))) as [|g gs] eqn:LG.
  - exists []. split; [intros ? []|]. split; [congruence|]. cbn [fst].
    rewrite (filter_true (not_doomed [])); auto.
    destruct (0 <? N.of_nat (length t) - N.of_nat (length t1)).
    + rewrite phase3_leaves, map_idel_sn, L1. reflexivity.
    + rewrite L1. reflexivity.
  - set (shortest := fold_left N.min gs g).
    set (dm := filter (fun l : rev => rdel l && (gen (rid l) + maxd <? shortest)) (leaves t)).
    exists dm. split; [|split].
    + intros l I. subst dm. apply filter_In in I. destruct I as [I C]. split; auto.
      apply andb_true_iff in C. tauto.
    + intros _ E. rewrite E in LG. cbn in LG. congruence.
    + cbn [fst]. fold (branches t1 dm).
      assert (P2 : leaves (remove_ids t1 (branches t1 dm)) = filter (not_doomed dm) (leaves t)).
      { rewrite phase2_leaves; auto; [rewrite L1; reflexivity|].
        intros l I. rewrite L1. subst dm. apply filter_In in I. tauto. }
      destruct (0 <? N.of_nat (length t) - N.of_nat (length (remove_ids t1 (branches t1 dm)))).
      * rewrite phase3_leaves, map_idel_sn, P2. reflexivity.
      * rewrite P2. reflexivity.
Qed.

Lemma map_idel_filter_live : forall A B, map idel A = map idel B ->
  map idel (filter live A) = map idel (filter live B).
Proof.
  induction A as [|a A IH]; intros [|b B] E; cbn in E; try congruence; auto.
  assert (Ea : idel a = idel b) by congruence. assert (Er : map idel A = map idel B) by congruence.
  assert (El : live a = live b).
  { unfold live. unfold idel in Ea. inversion Ea as [[E1 E2]]. rewrite E2. reflexivity. }
  cbn [filter]. rewrite El. destruct (live b); cbn [map]; rewrite ?Ea, (IH B Er); reflexivity.
Qed.

Lemma doomed_dead : forall t dm, wf t -> (forall l, In l dm -> In l (leaves t) /\ rdel l = true) ->
  filter live (filter (not_doomed dm) (leaves t)) = filter live (leaves t).
Proof.
  intros t dm W D. rewrite filter_filter. apply filter_ext_in. intros r Ir.
  unfold not_doomed. destruct (in_ids (map rid dm) r) eqn:X; cbn [negb andb]; auto.
  apply in_ids_iff in X. apply in_map_iff in X. destruct X as (l & E & Il).
  destruct (D l Il) as [Ill Dl].
  assert (l = r).
  { apply in_leaves in Ill, Ir. eapply wf_unique_parent; eauto; tauto. }
  subst l. unfold live. rewrite Dl. reflexivity.
Qed.

(* prune_keeps_live_leaves *)
Theorem prune_keeps_live : forall maxd t, wf t -> 1 <= maxd ->
  map idel (filter live (leaves (fst (prune maxd t)))) = map idel (filter live (leaves t)).
Proof.
  intros maxd t W M. destruct (prune_leaves_spec maxd t W M) as (dm & D & _ & E).
  rewrite (map_idel_filter_live _ _ E), (doomed_dead t dm W D). reflexivity.
Qed.

(* prune_keeps_winner: same winner, same "winner exists", same number of live leaves; no new leaves *)
Theorem prune_keeps_winner : forall maxd t, wf t -> 1 <= maxd ->
  let s' := winner_fold (leaves (fst (prune maxd t))) in
  let s := winner_fold (leaves t) in
  w_id s' = w_id s /\ w_exists s' = w_exists s /\ w_active s' = w_active s /\ w_leaves s' <= w_leaves s.
Proof.
  intros maxd t W M. cbn zeta.
  destruct (prune_leaves_spec maxd t W M) as (dm & D & NE & E).
  pose proof (prune_keeps_live maxd t W M) as LV.
  rewrite (winner_fold_idel _ _ E).
  assert (Act : w_active (winner_fold (filter (not_doomed dm) (leaves t))) = w_active (winner_fold (leaves t))).
  { destruct (winner_counts (filter (not_doomed dm) (leaves t))) as [_ ->].
    destruct (winner_counts (leaves t)) as [_ ->]. rewrite (doomed_dead t dm W D). reflexivity. }
  assert (Lv : w_leaves (winner_fold (filter (not_doomed dm) (leaves t))) <= w_leaves (winner_fold (leaves t))).
  { destruct (winner_counts (filter (not_doomed dm) (leaves t))) as [-> _].
    destruct (winner_counts (leaves t)) as [-> _]. pose proof (filter_length_le (not_doomed dm) (leaves t)). lia. }
  destruct dm as [|x dm'].
  - rewrite (filter_true (not_doomed [])); auto. repeat split; lia.
  - assert (NL : filter live (leaves t) <> []) by (apply NE; congruence).
    assert (NL' : filter live (filter (not_doomed (x :: dm')) (leaves t)) <> []) by (rewrite (doomed_dead t _ W D); exact NL).
    destruct (winner_live_only _ NL) as (A1 & B1 & _).
    destruct (winner_live_only _ NL') as (A2 & B2 & _).
    rewrite A1, A2, B1, B2, (doomed_dead t _ W D). auto.
Qed.
