(* C04: the two defects the faithful model of the ORIGINAL code exposed; both are repaired in /repo
   (commits 140db63, ac6ea40) and the model follows the repaired code (RevId.code_fixed = true).
   The old behaviour stays reachable through the [false] instances; the witnesses below are evaluated
   on it.  Not part of the property obligations. *)
From SG Require Import Base.Prelude C04.RevId C04.RevTree C04.DocModel C04.WinnerProofs C04.WfProofs C04.FlagsProofs C04.DocProofs
  C04.History C04.HistoryProofs C04.C04_Properties.
Open Scope N_scope.

(* old documentUpdateFunc: flags computed BEFORE pruneRevisions and never revisited; when pruning removes
   an old tombstoned branch the stored Branched flag stays set although a single leaf is left.
   revs_limit = 3: push the tombstone 1-a, then 5-a with ancestry 2-ff, 1-ff. *)
Definition stale_ops : list op :=
  [ OPush [I 1 [97]] true false;
    OPush [I 5 [97]; I 2 [102;102]; I 1 [102;102]] false false ].

Lemma stale_ops_valid : Forall valid_op stale_ops.
Proof. repeat constructor; intros i I; cbn in I; intuition (subst; cbn; lia). Qed.

Theorem C04_stored_branched_flag_refuted_old_code :
  let d := run false true 3 empty_doc stale_ops in
  dbranch d = true /\ length (leaves (dtree d)) = 1%nat.
Proof. vm_compute. split; reflexivity. Qed.

(* the same requests on the repaired code *)
Example C04_stored_branched_flag_repaired :
  let d := run true true 3 empty_doc stale_ops in
  dbranch d = false /\ length (leaves (dtree d)) = 1%nat.
Proof. vm_compute. split; reflexivity. Qed.

Theorem C04_reachable_old_code_statement_refuted : ~ C04_reachable_documents_old_code_statement.
Proof.
  intros H. specialize (H true 3 stale_ops stale_ops_valid ltac:(lia)).
  destruct H as (_ & F & _). cbn zeta in F.
  assert (NE : dtree (run false true 3 empty_doc stale_ops) <> []) by (vm_compute; congruence).
  destruct (F NE) as (w & _ & _ & _ & _ & _ & B).
  assert (Bt : dbranch (run false true 3 empty_doc stale_ops) = true) by (vm_compute; reflexivity).
  apply B in Bt. vm_compute in Bt. lia.
Qed.

(* old parseRevID: two different strings denote the same (generation, digest) - "01-a" and "1-a" are both
   accepted and compare equal, so the winner loop depended on map iteration order *)
Theorem C04_noncanonical_ids_compare_equal_old_code :
  exists a b, a <> b /\ parse_revid_gen false a <> None /\ parse_revid_gen false b <> None /\
    cmp_raw_gen false a b = 0%Z.
Proof.
  exists [48;49;45;97], [49;45;97]. repeat split; try (vm_compute; congruence).
Qed.

(* the repaired parser rejects the non-canonical spelling *)
Example C04_noncanonical_ids_rejected :
  parse_revid_gen true [48;49;45;97] = None /\ parse_revid_gen true [43;49;45;97] = None /\
  parse_revid_gen true [49;45;97] = Some (1, [97]).
Proof. vm_compute. repeat split. Qed.

(* ---- deepening round: a refuted READING, not a defect of the code ----
   "Prune all branches so that they have a maximum depth of maxdepth" (comment of pruneRevisions) does not
   mean that every leaf's retained history has at most maxDepth entries: computeDepthsAndFindLeaves gives a
   node the distance to its NEAREST leaf, so a long branch keeps an ancestor that a short sibling branch
   keeps alive.  What holds is C04_prune_depth_bound (nearest leaf) and C04_history_after_prune (prefix).
   Tree 1-a <- 2-a <- 3-a and 1-a <- 2-b, maxDepth 2: nothing is pruned, the history of 3-a has 3 entries. *)
Definition two_branches : tree :=
  [ R (I 2 [98]) (Some (I 1 [97])) false; R (I 3 [97]) (Some (I 2 [97])) false;
    R (I 2 [97]) (Some (I 1 [97])) false; R (I 1 [97]) None false ].

Theorem C04_per_leaf_history_bound_refuted :
  exists maxd t l, wf t /\ 1 <= maxd /\ In l (leaves (fst (prune maxd t))) /\
    maxd < N.of_nat (length (fst (get_history (fst (prune maxd t)) (rid l)))).
Proof.
  exists 2, two_branches, (R (I 3 [97]) (Some (I 2 [97])) false). split.
  - apply (add_all_wf (List.rev two_branches) [] two_branches wf_nil).
    + intros r H. cbn in H. intuition (subst; cbn; lia).
    + vm_compute. reflexivity.
  - split; [lia|]. split; [vm_compute; tauto | vm_compute; reflexivity].
Qed.
