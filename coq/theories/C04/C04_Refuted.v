(* C04: statements that the faithful model of the UNCHANGED code violates (witnesses by evaluation).
   Not part of the property obligations. *)
From SG Require Import Base.Prelude C04.RevId C04.RevTree C04.DocModel C04.WinnerProofs C04.DocProofs.
Open Scope N_scope.

(* documentUpdateFunc computes the flags (updateWinningRevAndSetDocFlags) BEFORE pruneRevisions; when
   pruning removes an old tombstoned branch the stored Branched flag stays set although a single leaf
   is left.  revs_limit = 3: push the tombstone 1-a, then 5-a with ancestry 2-ff, 1-ff. *)
Definition stale_ops : list op :=
  [ OPush [I 1 [97]] true false;
    OPush [I 5 [97]; I 2 [102;102]; I 1 [102;102]] false false ].

Theorem C04_stored_branched_flag_refuted :
  exists allowC limit ops, Forall valid_op ops /\ 1 <= limit /\
    let d := run allowC limit empty_doc ops in
    dbranch d = true /\ length (leaves (dtree d)) = 1%nat.
Proof.
  exists true, 3, stale_ops. split.
  - repeat constructor; intros i I; cbn in I; intuition (subst; cbn; lia).
  - split; [lia|]. vm_compute. split; reflexivity.
Qed.

(* textual ids: two different strings can denote the same (generation, digest) - "01-abc" and "1-abc"
   compare equal, so for such ids the winner loop would depend on iteration order; the tree model
   works on parsed ids and the theorems assume ids in canonical form *)
Theorem C04_noncanonical_ids_compare_equal :
  exists a b, a <> b /\ parse_revid a <> None /\ parse_revid b <> None /\ cmp_raw a b = 0%Z.
Proof.
  exists [48;49;45;97], [49;45;97]. repeat split; try (vm_compute; congruence).
Qed.
