(* C04 proofs, part 2: the winner loop computes a maximum and does not depend on iteration order. *)
From Coq Require Import Permutation.
From SG Require Import Base.Prelude C04.RevId C04.RevTree C04.OrderProofs.
Open Scope N_scope.

(* ranking key of a leaf and of the loop state: (exists, id) *)
Definition key (r : rev) : bool * revid := (negb (rdel r), rid r).
Definition skey (s : wstate) : bool * revid := (w_exists s, wid (w_id s)).

(* strict order on keys: live above deleted, then compareRevIDs *)
Definition klt (a b : bool * revid) : bool :=
  (negb (fst a) && fst b) || (Bool.eqb (fst a) (fst b) && is_gt (cmp_id (snd b) (snd a))).

Lemma better_klt : forall r s, better r s = klt (skey s) (key r).
Proof.
  intros r s. unfold better, klt, skey, key; cbn [fst snd].
  destruct (rdel r), (w_exists s); cbn; reflexivity.
Qed.

Lemma klt_irrefl : forall a, klt a a = false.
Proof.
  intros [e i]. unfold klt; cbn [fst snd]. rewrite cmp_id_refl. destruct e; reflexivity.
Qed.

Lemma klt_trans : forall a b c, klt a b = true -> klt b c = true -> klt a c = true.
Proof.
  intros [e1 i1] [e2 i2] [e3 i3]. unfold klt; cbn [fst snd].
  destruct e1, e2, e3; cbn; try congruence; try reflexivity;
    rewrite ?andb_true_r, ?andb_false_r, ?orb_false_r; cbn;
    destruct (cmp_id i2 i1) eqn:E1; destruct (cmp_id i3 i2) eqn:E2; cbn; try congruence;
    intros _ _; rewrite (cmp_id_gt_trans i3 i2 i1 E2 E1); reflexivity.
Qed.

Lemma klt_asym : forall a b, klt a b = true -> klt b a = false.
Proof.
  intros a b H. destruct (klt b a) eqn:E; auto.
  pose proof (klt_trans _ _ _ H E) as K. rewrite klt_irrefl in K. congruence.
Qed.

Lemma klt_total : forall a b, klt a b = false -> klt b a = false -> a = b.
Proof.
  intros [e1 i1] [e2 i2]. unfold klt; cbn [fst snd].
  destruct e1, e2; cbn; try congruence;
    rewrite (cmp_id_antisym i1 i2); destruct (cmp_id i1 i2) eqn:E; cbn; try congruence;
    intros _ _; apply cmp_id_eq in E; subst; reflexivity.
Qed.

(* a <= b and b <= c give a <= c, where x <= y is [klt y x = false] *)
Lemma kle_trans : forall a b c, klt b a = false -> klt c b = false -> klt c a = false.
Proof.
  intros a b c H1 H2. destruct (klt c a) eqn:E; auto.
  (* c < a, a <= b: then c < b or ... *)
  destruct (klt a b) eqn:E2.
  - rewrite (klt_trans _ _ _ E E2) in H2. congruence.
  - assert (a = b) by (apply klt_total; assumption). subst. congruence.
Qed.

(* ---- one step ---- *)
Lemma step_id : forall s r,
  w_id (winner_step s r) = if klt (skey s) (key r) then Some (rid r) else w_id s.
Proof. intros. unfold winner_step; cbn [w_id]. rewrite better_klt. reflexivity. Qed.

Lemma step_exists : forall s r,
  w_exists (winner_step s r) = if klt (skey s) (key r) then negb (rdel r) else w_exists s.
Proof. intros. unfold winner_step; cbn [w_exists]. rewrite better_klt. reflexivity. Qed.

Lemma skey_step : forall s r,
  skey (winner_step s r) = if klt (skey s) (key r) then key r else skey s.
Proof.
  intros. unfold skey at 1. rewrite step_id, step_exists.
  destruct (klt (skey s) (key r)); reflexivity.
Qed.

Lemma wstate_eq : forall a b,
  w_id a = w_id b -> w_exists a = w_exists b -> w_leaves a = w_leaves b -> w_active a = w_active b -> a = b.
Proof. intros [] []; cbn; intros; subst; reflexivity. Qed.

Lemma key_inj : forall a b, key a = key b -> rid a = rid b /\ rdel a = rdel b.
Proof.
  intros a b H. unfold key in H. inversion H. split; auto.
  destruct (rdel a), (rdel b); cbn in *; congruence.
Qed.

(* the loop body commutes: the heart of order independence *)
Lemma winner_step_comm : forall s a b,
  winner_step (winner_step s a) b = winner_step (winner_step s b) a.
Proof.
  intros s a b. apply wstate_eq.
  - rewrite !step_id, !skey_step.
    destruct (klt (skey s) (key a)) eqn:Ea; destruct (klt (skey s) (key b)) eqn:Eb; cbv iota.
    + destruct (klt (key a) (key b)) eqn:Eab.
      * rewrite (klt_asym _ _ Eab). reflexivity.
      * destruct (klt (key b) (key a)) eqn:Eba; auto.
        destruct (key_inj a b (klt_total _ _ Eab Eba)) as [E _]. rewrite E. reflexivity.
    + rewrite ?Ea, ?Eb. destruct (klt (key a) (key b)) eqn:Eab; auto.
      rewrite (klt_trans _ _ _ Ea Eab) in Eb. congruence.
    + rewrite ?Ea, ?Eb. destruct (klt (key b) (key a)) eqn:Eba; auto.
      rewrite (klt_trans _ _ _ Eb Eba) in Ea. congruence.
    + rewrite ?Ea, ?Eb. reflexivity.
  - rewrite !step_exists, !skey_step.
    destruct (klt (skey s) (key a)) eqn:Ea; destruct (klt (skey s) (key b)) eqn:Eb; cbv iota.
    + destruct (klt (key a) (key b)) eqn:Eab.
      * rewrite (klt_asym _ _ Eab). reflexivity.
      * destruct (klt (key b) (key a)) eqn:Eba; auto.
        destruct (key_inj a b (klt_total _ _ Eab Eba)) as [_ E]. rewrite E. reflexivity.
    + rewrite ?Ea, ?Eb. destruct (klt (key a) (key b)) eqn:Eab; auto.
      rewrite (klt_trans _ _ _ Ea Eab) in Eb. congruence.
    + rewrite ?Ea, ?Eb. destruct (klt (key b) (key a)) eqn:Eba; auto.
      rewrite (klt_trans _ _ _ Eb Eba) in Ea. congruence.
    + rewrite ?Ea, ?Eb. reflexivity.
  - unfold winner_step; cbn [w_leaves]. reflexivity.
  - unfold winner_step; cbn [w_active]. destruct (rdel a), (rdel b); cbn; reflexivity.
Qed.

Lemma fold_left_comm_perm {A B} (f : A -> B -> A) :
  (forall s a b, f (f s a) b = f (f s b) a) ->
  forall l l', Permutation l l' -> forall s, fold_left f l s = fold_left f l' s.
Proof.
  intros C l l' P. induction P; intros s; cbn.
  - reflexivity.
  - apply IHP.
  - rewrite C. reflexivity.
  - rewrite IHP1. apply IHP2.
Qed.

(* winner_perm: the result of the winner loop is invariant under permutation of the leaves
   (Go map iteration order is irrelevant).  No hypothesis on the leaves is needed. *)
Theorem winner_perm : forall l l', Permutation l l' -> winner_fold l = winner_fold l'.
Proof.
  intros l l' P. unfold winner_fold. apply fold_left_comm_perm; auto. apply winner_step_comm.
Qed.

(* ---- the loop computes a maximum ---- *)
Lemma fold_max : forall l s,
  let s' := fold_left winner_step l s in
  (forall r, In r l -> klt (skey s') (key r) = false) /\
  klt (skey s') (skey s) = false /\
  ((w_id s' = w_id s /\ w_exists s' = w_exists s) \/
   (exists r, In r l /\ w_id s' = Some (rid r) /\ w_exists s' = negb (rdel r))).
Proof.
  induction l as [|r l IH]; intros s; cbn.
  - split; [intros ? []|]. split; [apply klt_irrefl | left; auto].
  - destruct (IH (winner_step s r)) as (A & B & C).
    assert (Hr : klt (skey (winner_step s r)) (key r) = false).
    { rewrite skey_step. destruct (klt (skey s) (key r)) eqn:E; [apply klt_irrefl | exact E]. }
    assert (Hs : klt (skey (winner_step s r)) (skey s) = false).
    { rewrite skey_step. destruct (klt (skey s) (key r)) eqn:E; [apply klt_asym; exact E | apply klt_irrefl]. }
    split; [|split].
    + intros r' [<- | H]; [| auto]. eapply kle_trans; eauto.
    + eapply kle_trans; eauto.
    + destruct C as [[C1 C2] | (r' & I & C1 & C2)].
      * rewrite step_id in C1. rewrite step_exists in C2.
        destruct (klt (skey s) (key r)).
        -- right. exists r. auto.
        -- left. auto.
      * right. exists r'. auto.
Qed.

(* [a] outranks [b]: live beats deleted, then the higher (generation, digest) *)
Definition outranks (a b : rev) : Prop :=
  (rdel a = false /\ rdel b = true) \/ (rdel a = rdel b /\ cmp_id (rid a) (rid b) = Gt).

Lemma klt_outranks : forall a b, klt (key b) (key a) = true <-> outranks a b.
Proof.
  intros a b. unfold klt, key, outranks; cbn [fst snd].
  destruct (rdel a), (rdel b); cbn; rewrite ?andb_true_r;
    destruct (cmp_id (rid a) (rid b)); cbn; intuition congruence.
Qed.

Lemma init_below_valid : forall r, 1 <= gen (rid r) -> klt (skey w_init) (key r) = true.
Proof.
  intros r H. unfold klt, skey, key, w_init; cbn [fst snd w_exists w_id wid].
  destruct (rdel r); cbn; auto.
  unfold cmp_id, id0; cbn [gen dig].
  destruct (0 <? gen (rid r)) eqn:E; [reflexivity | lia].
Qed.

(* winner_is_max: on a non-empty list of leaves with valid ids the winner is a leaf that outranks
   every other leaf (ties are only possible between records with the same id and deleted bit) *)
Theorem winner_is_max : forall l, l <> [] -> (forall r, In r l -> 1 <= gen (rid r)) ->
  exists w, In w l /\ w_id (winner_fold l) = Some (rid w) /\ w_exists (winner_fold l) = negb (rdel w) /\
    forall r, In r l -> outranks w r \/ (rid r = rid w /\ rdel r = rdel w).
Proof.
  intros l NE V. unfold winner_fold.
  destruct (fold_max l w_init) as (A & B & C). cbn zeta in *.
  destruct C as [[C1 C2] | (w & I & C1 & C2)].
  - exfalso. destruct l as [|r l]; [congruence|].
    specialize (A r (or_introl eq_refl)).
    assert (E : skey (fold_left winner_step (r :: l) w_init) = skey w_init).
    { unfold skey. rewrite C1, C2. reflexivity. }
    rewrite E, init_below_valid in A; [congruence | apply V; left; reflexivity].
  - exists w. repeat split; auto.
    intros r Ir. specialize (A r Ir).
    assert (E : skey (fold_left winner_step l w_init) = key w).
    { unfold skey, key. rewrite C1, C2. reflexivity. }
    rewrite E in A.
    destruct (klt (key r) (key w)) eqn:K.
    + left. apply klt_outranks. exact K.
    + right. apply key_inj. apply klt_total; assumption.
Qed.

(* the winner is unique: any leaf with the maximality property has the winner's id *)
Lemma max_unique : forall l a b, In a l -> In b l ->
  (forall r, In r l -> outranks a r \/ (rid r = rid a /\ rdel r = rdel a)) ->
  (forall r, In r l -> outranks b r \/ (rid r = rid b /\ rdel r = rdel b)) ->
  rid a = rid b /\ rdel a = rdel b.
Proof.
  intros l a b Ia Ib Ma Mb.
  destruct (Ma b Ib) as [O1 | [E1 E2]]; [| auto].
  destruct (Mb a Ia) as [O2 | [E1 E2]]; [| auto].
  apply klt_outranks in O1, O2. rewrite (klt_asym _ _ O1) in O2. congruence.
Qed.

(* ---- the two counters ---- *)
Definition live (r : rev) : bool := negb (rdel r).

Lemma fold_counts : forall l s,
  w_leaves (fold_left winner_step l s) = w_leaves s + N.of_nat (length l) /\
  w_active (fold_left winner_step l s) = w_active s + N.of_nat (length (filter live l)).
Proof.
  induction l as [|r l IH]; intros s; cbn [fold_left length filter].
  - split; lia.
  - destruct (IH (winner_step s r)) as [A B]. rewrite A, B.
    unfold winner_step; cbn [w_leaves w_active]. unfold live.
    destruct (rdel r); cbn [negb length]; split; lia.
Qed.

Lemma winner_counts : forall l,
  w_leaves (winner_fold l) = N.of_nat (length l) /\
  w_active (winner_fold l) = N.of_nat (length (filter live l)).
Proof.
  intros l. unfold winner_fold. destruct (fold_counts l w_init) as [A B]. rewrite A, B. cbn. split; lia.
Qed.

Lemma winner_fold_nil_id : forall l, l = [] -> w_id (winner_fold l) = None.
Proof. intros l ->. reflexivity. Qed.
