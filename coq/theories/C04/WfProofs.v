(* C04 proofs, part 3: well-formed trees (forest with strictly increasing generations), preservation
   by accepted insertions, existence of leaves, permutation invariance of the leaf set. *)
From Coq Require Import Permutation.
From SG Require Import Base.Prelude C04.RevId C04.RevTree C04.OrderProofs C04.WinnerProofs.
Open Scope N_scope.

(* ---- lookup facts ---- *)
Lemma find_rev_some : forall t i r, find_rev t i = Some r -> In r t /\ rid r = i.
Proof.
  induction t as [|x t IH]; intros i r H; cbn in H; [congruence|].
  destruct (revid_eqb (rid x) i) eqn:E.
  - inversion H; subst. apply revid_eqb_eq in E. split; [left; reflexivity | exact E].
  - destruct (IH _ _ H). split; [right|]; assumption.
Qed.

Lemma find_rev_none : forall t i, find_rev t i = None <-> ~ In i (map rid t).
Proof.
  induction t as [|x t IH]; intros i; cbn.
  - split; auto.
  - destruct (revid_eqb (rid x) i) eqn:E.
    + apply revid_eqb_eq in E. split; [congruence | intros H; exfalso; apply H; left; exact E].
    + apply revid_eqb_neq in E. rewrite IH. split; [intros H [K | K]; auto | intros H K; apply H; right; exact K].
Qed.

Lemma contains_in : forall t i, contains t i = true <-> In i (map rid t).
Proof.
  intros t i. unfold contains. destruct (find_rev t i) eqn:E.
  - apply find_rev_some in E. destruct E as [I <-]. split; auto. intros _. apply in_map. exact I.
  - split; [congruence|]. intros H. apply find_rev_none in E. contradiction.
Qed.

Lemma contains_false : forall t i, contains t i = false <-> ~ In i (map rid t).
Proof.
  intros t i. rewrite <- contains_in. destruct (contains t i); split; congruence.
Qed.

Lemma find_rev_nodup : forall t r, NoDup (map rid t) -> In r t -> find_rev t (rid r) = Some r.
Proof.
  induction t as [|x t IH]; intros r ND I; [destruct I|]. cbn.
  inversion ND as [|? ? NI ND']; subst.
  destruct I as [-> | I].
  - rewrite revid_eqb_refl. reflexivity.
  - destruct (revid_eqb (rid x) (rid r)) eqn:E.
    + apply revid_eqb_eq in E. exfalso. apply NI. rewrite E. apply in_map. exact I.
    + apply IH; assumption.
Qed.

Lemma nodup_rid_inj : forall t a b, NoDup (map rid t) -> In a t -> In b t -> rid a = rid b -> a = b.
Proof.
  intros t a b ND Ia Ib E.
  pose proof (find_rev_nodup t a ND Ia) as Fa. pose proof (find_rev_nodup t b ND Ib) as Fb.
  rewrite E in Fa. congruence.
Qed.

Lemma contains_perm : forall t t' i, Permutation t t' -> contains t i = contains t' i.
Proof.
  intros t t' i P. destruct (contains t' i) eqn:E.
  - apply contains_in. apply contains_in in E. eapply Permutation_in; [apply Permutation_sym, Permutation_map, P | exact E].
  - apply contains_false. apply contains_false in E. intros H. apply E.
    eapply Permutation_in; [apply Permutation_map, P | exact H].
Qed.

Lemma opt_id_eqb_eq : forall a b, opt_id_eqb a b = true <-> a = b.
Proof.
  intros [a|] [b|]; cbn; try (split; congruence).
  rewrite revid_eqb_eq. split; congruence.
Qed.

Lemma is_parent_iff : forall t i, is_parent t i = true <-> exists r, In r t /\ rpar r = Some i.
Proof.
  intros t i. unfold is_parent. rewrite existsb_exists.
  split; intros (r & I & H); exists r; split; auto; apply opt_id_eqb_eq; auto.
Qed.

Lemma is_parent_false : forall t i, is_parent t i = false <-> forall r, In r t -> rpar r <> Some i.
Proof.
  intros t i. split.
  - intros H r I E. assert (K : is_parent t i = true) by (apply is_parent_iff; eauto). congruence.
  - intros H. destruct (is_parent t i) eqn:E; auto. apply is_parent_iff in E. destruct E as (r & I & E). exfalso. eapply H; eauto.
Qed.

Lemma is_parent_perm : forall t t' i, Permutation t t' -> is_parent t i = is_parent t' i.
Proof.
  intros t t' i P. destruct (is_parent t' i) eqn:E.
  - apply is_parent_iff. apply is_parent_iff in E. destruct E as (r & I & H). exists r. split; auto.
    eapply Permutation_in; [apply Permutation_sym, P | exact I].
  - apply is_parent_false. intros r I. apply (proj1 (is_parent_false _ _) E). eapply Permutation_in; eauto.
Qed.

Lemma filter_perm_same {A} (f : A -> bool) l l' :
  Permutation l l' -> Permutation (filter f l) (filter f l').
Proof.
  intros P. induction P; cbn.
  - constructor.
  - destruct (f x); [constructor|]; assumption.
  - destruct (f x), (f y); try apply Permutation_refl. apply perm_swap.
  - eapply Permutation_trans; eauto.
Qed.

Lemma filter_ext_perm {A} (f g : A -> bool) l l' :
  (forall x, f x = g x) -> Permutation l l' -> Permutation (filter f l) (filter g l').
Proof.
  intros E P.
  assert (Q : forall l, filter g l = filter f l).
  { clear - E. induction l; cbn; auto. rewrite E, IHl. reflexivity. }
  rewrite Q. apply filter_perm_same. exact P.
Qed.

(* the set of leaves does not depend on the order in which the tree is listed *)
Lemma leaves_perm : forall t t', Permutation t t' -> Permutation (leaves t) (leaves t').
Proof.
  intros t t' P. unfold leaves. apply filter_ext_perm; auto.
  intros x. rewrite (is_parent_perm t t' (rid x) P). reflexivity.
Qed.

Lemma in_leaves : forall t r, In r (leaves t) <-> In r t /\ is_parent t (rid r) = false.
Proof.
  intros t r. unfold leaves. rewrite filter_In. rewrite negb_true_iff. reflexivity.
Qed.

(* ---- well-formedness ---- *)
Definition wf (t : tree) : Prop :=
  NoDup (map rid t) /\
  (forall r, In r t -> 1 <= gen (rid r)) /\
  (forall r p, In r t -> rpar r = Some p -> contains t p = true /\ gen p < gen (rid r)).

Lemma wf_nil : wf [].
Proof. split; [constructor|]. split; [intros ? [] | intros ? ? []]. Qed.

Lemma contains_cons : forall r t i, contains (r :: t) i = revid_eqb (rid r) i || contains t i.
Proof. intros. unfold contains; cbn. destruct (revid_eqb (rid r) i); reflexivity. Qed.

(* add_wf: an accepted insertion conses the new record and preserves well-formedness *)
Theorem add_wf : forall t r t', wf t -> 1 <= gen (rid r) -> add t r = Some t' -> t' = r :: t /\ wf t'.
Proof.
  intros t r t' (ND & V & P) Vr H. unfold add in H.
  destruct (contains t (rid r)) eqn:C; [congruence|].
  assert (T : t' = r :: t /\ (forall p, rpar r = Some p -> contains t p = true /\ gen p < gen (rid r))).
  { destruct (rpar r) as [p|] eqn:Ep.
    - destruct (contains t p) eqn:Cp; cbn in H; [|congruence].
      destruct (gen (rid r) <=? gen p) eqn:G; [congruence|]. inversion H. split; auto.
      intros p' E. inversion E; subst. split; [auto | lia].
    - inversion H. split; auto. intros p' E. congruence. }
  destruct T as [-> T]. split; auto.
  split; [|split].
  - cbn. constructor; auto. apply contains_false. exact C.
  - intros x [<- | I]; auto.
  - intros x p [<- | I] E.
    + destruct (T p E) as [A B]. split; auto. rewrite contains_cons, A. apply orb_true_r.
    + destruct (P x p I E) as [A B]. split; auto. rewrite contains_cons, A. apply orb_true_r.
Qed.

(* exactly when an insertion is rejected (the tree is then unchanged: [add] returns None) *)
Theorem add_rejected_iff : forall t r,
  add t r = None <->
  (contains t (rid r) = true \/
   exists p, rpar r = Some p /\ (contains t p = false \/ gen (rid r) <= gen p)).
Proof.
  intros t r. unfold add.
  destruct (contains t (rid r)) eqn:C; [split; auto|].
  destruct (rpar r) as [p|].
  - destruct (contains t p) eqn:Cp; cbn.
    + destruct (gen (rid r) <=? gen p) eqn:G.
      * split; auto. intros _. right. exists p. split; auto. right. lia.
      * split; [congruence|]. intros [K | (p' & E & [K | K])]; try congruence; inversion E; subst; try congruence; lia.
    + split; auto. intros _. right. exists p. auto.
  - split; [congruence|]. intros [K | (p' & E & _)]; congruence.
Qed.

(* ---- forest structure: proper ancestors have strictly smaller generations ---- *)
Inductive ancestor (t : tree) : revid -> revid -> Prop :=
| anc_parent : forall r p, In r t -> rpar r = Some p -> ancestor t p (rid r)
| anc_trans : forall a b c, ancestor t a b -> ancestor t b c -> ancestor t a c.

Theorem wf_ancestor_gen : forall t a d, wf t -> ancestor t a d -> gen a < gen d.
Proof.
  intros t a d (ND & V & P) H. induction H.
  - destruct (P r p H H0). assumption.
  - lia.
Qed.

Corollary wf_acyclic : forall t a, wf t -> ~ ancestor t a a.
Proof. intros t a W H. pose proof (wf_ancestor_gen t a a W H). lia. Qed.

(* every node has at most one record, hence at most one parent *)
Corollary wf_unique_parent : forall t r1 r2, wf t -> In r1 t -> In r2 t -> rid r1 = rid r2 -> r1 = r2.
Proof. intros t r1 r2 (ND & _) I1 I2 E. eapply nodup_rid_inj; eauto. Qed.

(* a non-empty well-formed tree has a leaf: a node of maximal generation has no child *)
Lemma max_gen_exists : forall t : tree, t <> [] -> exists m, In m t /\ forall r, In r t -> gen (rid r) <= gen (rid m).
Proof.
  induction t as [|x t IH]; intros NE; [congruence|].
  destruct t as [|y t'].
  - exists x. split; [left; auto|]. intros r [<- | []]. lia.
  - destruct IH as (m & Im & Hm); [congruence|].
    destruct (gen (rid m) <=? gen (rid x)) eqn:E.
    + exists x. split; [left; auto|]. intros r [<- | I]; [lia|]. specialize (Hm r I). lia.
    + exists m. split; [right; auto|]. intros r [<- | I]; [lia|]. auto.
Qed.

Lemma wf_has_leaf : forall t, wf t -> t <> [] -> leaves t <> [].
Proof.
  intros t (ND & V & P) NE. destruct (max_gen_exists t NE) as (m & Im & Hm).
  assert (L : In m (leaves t)).
  { apply in_leaves. split; auto. apply is_parent_false. intros r I E.
    destruct (P r _ I E) as [_ G]. specialize (Hm r I). lia. }
  intros E. rewrite E in L. destruct L.
Qed.

Lemma leaves_valid : forall t, wf t -> forall r, In r (leaves t) -> 1 <= gen (rid r).
Proof. intros t (_ & V & _) r I. apply in_leaves in I. apply V. tauto. Qed.

Lemma wf_perm : forall t t', Permutation t t' -> wf t -> wf t'.
Proof.
  intros t t' P (ND & V & Q). split; [|split].
  - eapply Permutation_NoDup; [apply Permutation_map, P | exact ND].
  - intros r I. apply V. eapply Permutation_in; [apply Permutation_sym, P | exact I].
  - intros r p I E. assert (I' : In r t) by (eapply Permutation_in; [apply Permutation_sym, P | exact I]).
    destruct (Q r p I' E). split; auto. rewrite <- (contains_perm t t' p P). assumption.
Qed.
