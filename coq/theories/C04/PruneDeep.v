(* C04 proofs, part 11: pruneRevisions in depth.
   - which leaves disappear, exactly ([doomed]: tombstoned leaves more than maxDepth generations below
     the shortest live branch; the [keepRev] argument of the Go function is not used by its body);
   - the depth bound: after pruning every revision is at most maxDepth levels above its NEAREST leaf
     (computeDepthsAndFindLeaves assigns the minimum over the leaves below a node);
   - pruning twice = pruning once;
   - adding a child to a leaf before or after pruning elects the same winner. *)
From Coq Require Import Permutation.
From SG Require Import Base.Prelude C04.RevId C04.RevTree C04.History C04.OrderProofs C04.WinnerProofs
  C04.WfProofs C04.FlagsProofs C04.PruneProofs C04.PruneLeaves C04.CodecProofs C04.HistoryProofs.
Open Scope N_scope.

Lemma filter_nil_all {A} (f : A -> bool) l : (forall x, In x l -> f x = false) -> filter f l = [].
Proof.
  induction l as [|x l IH]; intros H; cbn; auto. rewrite (H x (or_introl eq_refl)). apply IH.
  intros y I. apply H. right. exact I.
Qed.

(* ---------- prune, restated with named pieces ---------- *)
Definition doomP (maxd shortest : N) (l : rev) : bool := rdel l && (gen (rid l) + maxd <? shortest).

Definition prune_t2 (maxd : N) (t : tree) : tree :=
  let t1 := filter (keep1 maxd t) t in
  match map (fun r => gen (rid r)) (filter live (leaves t1)) with
  | [] => t1
  | g :: gs => remove_ids t1 (branches t1 (filter (doomP maxd (fold_left N.min gs g)) (leaves t)))
  end.

Lemma prune_eq : forall maxd t, prune maxd t =
  if N.of_nat (length t) <=? maxd then (t, 0)
  else let t2 := prune_t2 maxd t in
       let pruned := N.of_nat (length t) - N.of_nat (length t2) in
       ((if 0 <? pruned then snip t2 else t2), pruned).
Proof. reflexivity. Qed.

(* FindShortestNonTombstonedBranch: the minimum generation of a live leaf *)
Definition shortest_live (t : tree) : option N :=
  match map (fun r => gen (rid r)) (filter live (leaves t)) with
  | [] => None
  | g :: gs => Some (fold_left N.min gs g)
  end.

(* the leaves pruneRevisions removes *)
Definition doomed (maxd : N) (t : tree) (l : rev) : bool :=
  negb (N.of_nat (length t) <=? maxd) &&
  match shortest_live t with None => false | Some s => doomP maxd s l end.

Lemma doomP_idel : forall maxd s a b, idel a = idel b -> doomP maxd s a = doomP maxd s b.
Proof. intros maxd s a b E. unfold idel in E. inversion E as [[E1 E2]]. unfold doomP. rewrite E1, E2. reflexivity. Qed.

Lemma in_ids_doomed : forall t P l, wf t -> In l (leaves t) ->
  in_ids (map rid (filter P (leaves t))) l = P l.
Proof.
  intros t P l W Il. destruct (P l) eqn:E.
  - apply in_ids_iff. apply in_map. apply filter_In. auto.
  - destruct (in_ids (map rid (filter P (leaves t))) l) eqn:X; auto.
    apply in_ids_iff in X. apply in_map_iff in X. destruct X as (l' & E' & I'). apply filter_In in I'.
    assert (l' = l) by (eapply leaves_nodup_eq; eauto; tauto). subst. destruct I'. congruence.
Qed.

Theorem prune_leaves_exact : forall maxd t, wf t -> 1 <= maxd ->
  map idel (leaves (fst (prune maxd t))) = map idel (filter (fun l => negb (doomed maxd t l)) (leaves t)).
Proof.
  intros maxd t W M. rewrite prune_eq. unfold doomed.
  destruct (N.of_nat (length t) <=? maxd).
  { cbn [fst negb andb]. rewrite filter_true; auto. }
  cbn [negb andb]. unfold prune_t2, shortest_live.
  set (t1 := filter (keep1 maxd t) t).
  assert (L1 : leaves t1 = leaves t) by (apply phase1_leaves; auto).
  assert (PW1 : pre_wf t1) by (apply pre_wf_filter, wf_pre_wf, W).
  rewrite L1.
  destruct (map (fun r : rev => gen (rid r)) (filter live (leaves t))) as [|g gs] eqn:LG.
  - cbn zeta. cbn [fst]. rewrite (filter_true (fun l => negb false)); auto.
    destruct (0 <? N.of_nat (length t) - N.of_nat (length t1)).
    + rewrite phase3_leaves, map_idel_sn, L1. reflexivity.
    + rewrite L1. reflexivity.
  - set (sh := fold_left N.min gs g).
    set (dm := filter (doomP maxd sh) (leaves t)).
    cbn zeta. cbn [fst].
    assert (P2 : leaves (remove_ids t1 (branches t1 dm)) = filter (fun l => negb (doomP maxd sh l)) (leaves t)).
    { rewrite phase2_leaves; auto.
      - rewrite L1. apply filter_ext_in. intros l Il. subst dm. rewrite (in_ids_doomed t _ l W Il). reflexivity.
      - intros l I. rewrite L1. subst dm. apply filter_In in I. tauto. }
    destruct (0 <? N.of_nat (length t) - N.of_nat (length (remove_ids t1 (branches t1 dm)))).
    + rewrite phase3_leaves, map_idel_sn, P2. reflexivity.
    + rewrite P2. reflexivity.
Qed.

(* ---------- the depth bound ---------- *)
Lemma entries_up : forall t y d, pre_wf t ->
  (In (y, d) (depth_entries t) <-> exists l n, In l (leaves t) /\ d = N.of_nat n + 1 /\ up t (rid l) n y).
Proof.
  intros t y d PW. rewrite entries_in. split.
  - intros (l & Il & H). apply number_from_nth in H. destruct H as [L H]. apply chain_up in H; auto.
    exists l, (N.to_nat (d - 1)). split; auto. split; [lia | exact H].
  - intros (l & n & Il & -> & U). exists l. split; auto. apply number_from_nth. split; [lia|].
    replace (N.to_nat (N.of_nat n + 1 - 1)) with n by lia. apply chain_up; auto.
Qed.

Lemma entries_depth_le_length : forall t y d, In (y, d) (depth_entries t) -> d <= N.of_nat (length t).
Proof.
  intros t y d H. apply entries_in in H. destruct H as (l & _ & H). apply number_from_nth in H.
  destruct H as [L H]. assert (K : (N.to_nat (d - 1) < length (chain (length t) t (rid l)))%nat).
  { apply nth_error_Some. congruence. }
  pose proof (chain_length_le (length t) t (rid l)). lia.
Qed.

(* every revision of a well-formed tree lies on the path from some leaf to the root *)
Lemma wf_node_has_leaf : forall t r, wf t -> In r t -> exists l n, In l (leaves t) /\ up t (rid l) n (rid r).
Proof.
  intros t r W Ir. assert (NE : t <> []) by (intros E; rewrite E in Ir; destruct Ir).
  destruct (max_gen_exists t NE) as (m & Im & Hm).
  assert (G : forall k r, In r t -> (N.to_nat (gen (rid m)) - N.to_nat (gen (rid r)) <= k)%nat ->
              exists l n, In l (leaves t) /\ up t (rid l) n (rid r)).
  { clear r Ir. induction k as [|k IH]; intros r Ir Hk.
    - destruct (is_parent t (rid r)) eqn:P.
      + apply is_parent_iff in P. destruct P as (c & Ic & Pc). destruct W as (_ & _ & Q).
        destruct (Q c _ Ic Pc) as [_ Gc]. specialize (Hm c Ic). lia.
      + exists r, 0%nat. split; [apply in_leaves; auto|]. apply up0. apply contains_in, in_map, Ir.
    - destruct (is_parent t (rid r)) eqn:P.
      + apply is_parent_iff in P. destruct P as (c & Ic & Pc). pose proof W as (_ & _ & Q).
        destruct (Q c _ Ic Pc) as [Cr Gc].
        destruct (IH c Ic) as (l & n & Il & U); [lia|].
        exists l, (S n). split; auto. eapply upS; eauto.
      + exists r, 0%nat. split; [apply in_leaves; auto|]. apply up0. apply contains_in, in_map, Ir. }
  eapply G; eauto.
Qed.

(* phase 1 keeps the first maxd revisions above every leaf *)
Lemma phase1_path : forall maxd t l n y, wf t -> In l (leaves t) -> up t (rid l) n y -> N.of_nat n + 1 <= maxd ->
  up (filter (keep1 maxd t) t) (rid l) n y.
Proof.
  intros maxd t l n y W Il U L. apply up_filter_keep; auto.
  intros m z rz Lm Um Irz Ez. apply (keep1_of_entry maxd t rz (N.of_nat m + 1)); [|lia].
  apply entries_up; [apply wf_pre_wf; exact W|]. exists l, m. rewrite Ez. auto.
Qed.

Lemma branches_up : forall t1 dm x, pre_wf t1 ->
  (In x (branches t1 dm) <-> exists l n, In l dm /\ up t1 (rid l) n x).
Proof.
  intros t1 dm x PW. rewrite branches_in. split.
  - intros (l & Il & I). apply In_nth_error in I. destruct I as (n & H). apply chain_up in H; auto. eauto.
  - intros (l & n & Il & U). exists l. split; auto. apply chain_up in U; auto. eapply nth_error_In; eauto.
Qed.

(* phase 2 removes whole upward paths: a path whose end survives survives entirely *)
Lemma phase2_path : forall t1 dm i n y, pre_wf t1 -> up t1 i n y -> ~ In y (branches t1 dm) ->
  up (remove_ids t1 (branches t1 dm)) i n y.
Proof.
  intros t1 dm i n y PW U NB. unfold remove_ids. apply up_filter_keep; auto.
  intros m z rz Lm Um Irz Ez. apply negb_true_iff. destruct (existsb (revid_eqb (rid rz)) (branches t1 dm)) eqn:X; auto.
  exfalso. apply NB. fold (in_ids (branches t1 dm) rz) in X. apply in_ids_iff in X. rewrite Ez in X.
  apply branches_up in X; auto. destruct X as (l & a & Il & Ua).
  replace n with (m + (n - m))%nat in U by lia. destruct (up_split _ _ _ _ _ U) as (x & A & B).
  assert (x = z) by (eapply up_det; eauto; apply PW). subst x.
  apply branches_up; auto. exists l, (a + (n - m))%nat. split; auto. eapply up_trans; eauto.
Qed.

Lemma prune_t2_near_leaf : forall maxd t r0, wf t -> 1 <= maxd -> In r0 (prune_t2 maxd t) ->
  exists m n, In m (leaves (prune_t2 maxd t)) /\ up (prune_t2 maxd t) (rid m) n (rid r0) /\ N.of_nat n + 1 <= maxd.
Proof.
  intros maxd t r0 W M. pose proof (wf_pre_wf t W) as PW. unfold prune_t2.
  set (t1 := filter (keep1 maxd t) t).
  assert (L1 : leaves t1 = leaves t) by (apply phase1_leaves; auto).
  assert (PW1 : pre_wf t1) by (apply pre_wf_filter; exact PW).
  assert (Near : forall r, In r t1 -> exists m n, In m (leaves t) /\ up t1 (rid m) n (rid r) /\ N.of_nat n + 1 <= maxd).
  { intros r Ir. subst t1. apply filter_In in Ir. destruct Ir as [Ir K].
    destruct (wf_node_has_leaf t r W Ir) as (l0 & n0 & Il0 & U0).
    unfold keep1 in K.
    destruct (depth_of_spec (depth_entries t) (rid r)) as [[_ NB] | (e & A & B & _)].
    - exfalso. apply (NB (N.of_nat n0 + 1)). apply entries_up; auto. exists l0, n0. auto.
    - rewrite A in K. apply N.leb_le in K. apply entries_up in B; auto. destruct B as (m & n & Im & -> & U).
      exists m, n. split; auto. split; auto. apply phase1_path; auto. }
  rewrite L1.
  destruct (map (fun r : rev => gen (rid r)) (filter live (leaves t))) as [|g gs].
  - intros I. destruct (Near r0 I) as (m & n & Im & U & L). exists m, n. rewrite L1. auto.
  - set (dm := filter (doomP maxd (fold_left N.min gs g)) (leaves t)).
    intros I. unfold remove_ids in I. apply filter_In in I. destruct I as [I NB].
    fold (in_ids (branches t1 dm) r0) in NB. apply negb_true_iff in NB.
    assert (NB' : ~ In (rid r0) (branches t1 dm)).
    { intros X. apply in_ids_iff in X. congruence. }
    destruct (Near r0 I) as (m & n & Im & U & L). exists m, n. split; [|split; auto].
    + rewrite phase2_leaves; auto.
      * apply filter_In. split; [rewrite L1; exact Im|]. apply negb_true_iff.
        destruct (in_ids (map rid dm) m) eqn:X; auto. exfalso. apply NB'.
        apply in_ids_iff in X. apply in_map_iff in X. destruct X as (l & E & Il).
        apply branches_up; auto. exists l, n. split; auto. rewrite E. exact U.
      * intros l Il. rewrite L1. subst dm. apply filter_In in Il. tauto.
    + apply phase2_path; auto.
Qed.

(* prune_depth_bound: in the pruned tree the depth computeDepthsAndFindLeaves would assign to any
   revision (1 + distance to its nearest leaf) is at most maxDepth *)
Theorem prune_depth_bound : forall maxd t, wf t -> 1 <= maxd ->
  let t' := fst (prune maxd t) in
  forall r d, In r t' -> depth_of (depth_entries t') (rid r) = Some d -> d <= maxd.
Proof.
  intros maxd t W M t' r d Ir D.
  assert (W' : wf t') by (apply prune_wf; exact W). pose proof (wf_pre_wf t' W') as PW'.
  destruct (depth_of_spec (depth_entries t') (rid r)) as [[A _] | (e & A & B & C)]; [congruence|].
  rewrite A in D. inversion D; subst e. clear D.
  subst t'. rewrite prune_eq in *.
  destruct (N.of_nat (length t) <=? maxd) eqn:Early.
  { cbn [fst] in *. pose proof (entries_depth_le_length _ _ _ B). lia. }
  cbn zeta in *. cbn [fst] in *.
  assert (Ex : exists e, In (rid r, e) (depth_entries
              (if 0 <? N.of_nat (length t) - N.of_nat (length (prune_t2 maxd t))
               then snip (prune_t2 maxd t) else prune_t2 maxd t)) /\ e <= maxd).
  { destruct (0 <? N.of_nat (length t) - N.of_nat (length (prune_t2 maxd t))).
    - destruct (in_snip_sn _ _ Ir) as (r0 & Ir0 & ->). rewrite sn_id.
      destruct (prune_t2_near_leaf maxd t r0 W M Ir0) as (m & n & Im & U & L).
      exists (N.of_nat n + 1). split; auto. apply entries_up; auto.
      exists (sn (prune_t2 maxd t) m), n. split; [rewrite phase3_leaves; apply in_map; exact Im|].
      split; auto. rewrite sn_id. apply up_snip. exact U.
    - destruct (prune_t2_near_leaf maxd t r W M Ir) as (m & n & Im & U & L).
      exists (N.of_nat n + 1). split; auto. apply entries_up; auto. exists m, n. auto. }
  destruct Ex as (e & Ie & Le). specialize (C e Ie). lia.
Qed.

(* ---------- idempotence ---------- *)
Lemma map_idel_gens : forall A B, map idel A = map idel B ->
  map (fun r => gen (rid r)) A = map (fun r => gen (rid r)) B.
Proof.
  intros A B E. assert (X : forall L, map (fun r => gen (rid r)) L = map (fun p => gen (fst p)) (map idel L)).
  { intros L. rewrite map_map. reflexivity. }
  rewrite (X A), (X B), E. reflexivity.
Qed.

Lemma in_map_idel : forall L x, In x L -> In (idel x) (map idel L).
Proof. intros. apply in_map. assumption. Qed.

Theorem prune_idempotent : forall maxd t, wf t -> 1 <= maxd ->
  prune maxd (fst (prune maxd t)) = (fst (prune maxd t), 0).
Proof.
  intros maxd t W M.
  destruct (N.of_nat (length t) <=? maxd) eqn:Early.
  { apply N.leb_le in Early. rewrite (prune_small maxd t Early). cbn [fst]. apply prune_small. exact Early. }
  pose proof (prune_depth_bound maxd t W M) as DB. cbn zeta in DB.
  pose proof (prune_leaves_exact maxd t W M) as LE.
  pose proof (prune_keeps_live maxd t W M) as KL.
  assert (W' : wf (fst (prune maxd t))) by (apply prune_wf; exact W).
  remember (fst (prune maxd t)) as t' eqn:Et'.
  rewrite (prune_eq maxd t').
  destruct (N.of_nat (length t') <=? maxd); [reflexivity|].
  assert (K1 : filter (keep1 maxd t') t' = t').
  { apply filter_true. intros r Ir. unfold keep1.
    destruct (depth_of (depth_entries t') (rid r)) as [d|] eqn:D; auto.
    apply N.leb_le. eapply DB; eauto. }
  assert (T2 : prune_t2 maxd t' = t').
  { unfold prune_t2. rewrite K1.
    rewrite (map_idel_gens _ _ KL).
    destruct (map (fun r : rev => gen (rid r)) (filter live (leaves t))) as [|g gs] eqn:LG; [reflexivity|].
    assert (DM : filter (doomP maxd (fold_left N.min gs g)) (leaves t') = []).
    { apply filter_nil_all. intros l' Il'.
      pose proof (in_map_idel _ _ Il') as X. rewrite LE in X. apply in_map_iff in X.
      destruct X as (l & E & Il). apply filter_In in Il. destruct Il as [Il ND].
      unfold doomed in ND. rewrite Early in ND. unfold shortest_live in ND. rewrite LG in ND.
      cbn [negb andb] in ND. apply negb_true_iff in ND.
      rewrite <- (doomP_idel maxd _ l l' E). exact ND. }
    rewrite DM. unfold branches. cbn [flat_map]. unfold remove_ids. apply filter_true. intros; reflexivity. }
  cbn zeta. rewrite T2. replace (N.of_nat (length t') - N.of_nat (length t')) with 0 by lia.
  reflexivity.
Qed.

(* ---------- pruning, then adding a child to a leaf ---------- *)
Lemma is_parent_cons : forall r t i, is_parent (r :: t) i = opt_id_eqb (rpar r) (Some i) || is_parent t i.
Proof. intros. reflexivity. Qed.

Lemma leaves_add_child : forall t r p, wf t -> contains t (rid r) = false -> rpar r = Some p -> contains t p = true ->
  leaves (r :: t) = r :: filter (fun x => negb (revid_eqb (rid x) p)) (leaves t).
Proof.
  intros t r p W Cr Ep Cp. unfold leaves at 1. cbn [filter].
  assert (NP : is_parent (r :: t) (rid r) = false).
  { rewrite is_parent_cons, Ep. cbn [opt_id_eqb option_eqb].
    assert (X : revid_eqb p (rid r) = false).
    { apply revid_eqb_neq. intros E. rewrite E in Cp. congruence. }
    rewrite X. cbn [orb]. apply is_parent_false. intros c Ic Pc.
    destruct W as (_ & _ & Q). destruct (Q c _ Ic Pc) as [C _]. congruence. }
  rewrite NP. cbn [negb]. f_equal. unfold leaves. rewrite filter_filter. apply filter_ext.
  intros x. rewrite is_parent_cons, Ep. cbn [opt_id_eqb option_eqb].
  rewrite (revid_eqb_sym p (rid x)). destruct (revid_eqb (rid x) p), (is_parent t (rid x)); reflexivity.
Qed.

Lemma add_child_ok : forall t r p, contains t (rid r) = false -> rpar r = Some p -> contains t p = true ->
  gen p < gen (rid r) -> add t r = Some (r :: t).
Proof.
  intros t r p Cr Ep Cp G. unfold add. rewrite Cr, Ep, Cp. cbn [negb].
  destruct (gen (rid r) <=? gen p) eqn:E; [lia | reflexivity].
Qed.

Lemma fold_min_le : forall gs g x, In x (g :: gs) -> fold_left N.min gs g <= x.
Proof.
  induction gs as [|h gs IH]; intros g x I; cbn [fold_left].
  - destruct I as [<- | []]. lia.
  - destruct I as [<- | [<- | I]].
    + specialize (IH (N.min g h) (N.min g h) (or_introl eq_refl)). lia.
    + specialize (IH (N.min g h) (N.min g h) (or_introl eq_refl)). lia.
    + apply IH. right. exact I.
Qed.

Lemma map_idel_filter_ext : forall (P : rev -> bool) A B, (forall a b, idel a = idel b -> P a = P b) ->
  map idel A = map idel B -> map idel (filter P A) = map idel (filter P B).
Proof.
  intros P. induction A as [|a A IH]; intros [|b B] HP E; cbn in E; try congruence; auto.
  assert (Ea : idel a = idel b) by congruence. assert (Er : map idel A = map idel B) by congruence.
  cbn [filter]. rewrite (HP a b Ea). destruct (P b); cbn [map]; rewrite ?Ea, (IH B HP Er); reflexivity.
Qed.

(* revisions dominated by the current best do not change the winner *)
Lemma dominated_steps : forall D s, (forall d, In d D -> klt (skey s) (key d) = false) ->
  w_id (fold_left winner_step D s) = w_id s /\ w_exists (fold_left winner_step D s) = w_exists s.
Proof.
  induction D as [|d D IH]; intros s H; cbn [fold_left]; auto.
  assert (Hd : klt (skey s) (key d) = false) by (apply H; left; reflexivity).
  destruct (IH (winner_step s d)) as [A B].
  - intros x I. rewrite skey_step, Hd. apply H. right. exact I.
  - rewrite A, B, step_id, step_exists, Hd. auto.
Qed.

Lemma winner_drop_dominated : forall K D,
  (forall d, In d D -> exists x, In x K /\ outranks x d) ->
  w_id (winner_fold (K ++ D)) = w_id (winner_fold K) /\ w_exists (winner_fold (K ++ D)) = w_exists (winner_fold K).
Proof.
  intros K D H. unfold winner_fold. rewrite fold_left_app. apply dominated_steps.
  intros d Id. destruct (H d Id) as (x & Ix & O). apply klt_outranks in O.
  destruct (fold_max K w_init) as (Mx & _ & _). cbn zeta in Mx.
  eapply kle_trans; [apply klt_asym; exact O | apply Mx; exact Ix].
Qed.

Lemma contains_prune_sub : forall maxd t i, contains (fst (prune maxd t)) i = true -> contains t i = true.
Proof.
  intros maxd t i C. destruct (contains_rec _ _ C) as (r' & I & E).
  destruct (prune_sub maxd t r' I) as (r & Ir & Er & _). apply contains_in. rewrite <- E, Er. apply in_map. exact Ir.
Qed.

(* prune_then_add_consistent: a new child of a revision that is a leaf after pruning is accepted by the
   unpruned and by the pruned tree alike, and both elect the same winner with the same live-leaf count *)
Theorem prune_then_add_consistent : forall maxd t r p, wf t -> 1 <= maxd ->
  rpar r = Some p -> gen p < gen (rid r) -> contains t (rid r) = false ->
  let t' := fst (prune maxd t) in
  is_leaf t' p = true ->
  add t r = Some (r :: t) /\ add t' r = Some (r :: t') /\
  let s := winner_fold (leaves (r :: t)) in
  let s' := winner_fold (leaves (r :: t')) in
  w_id s' = w_id s /\ w_exists s' = w_exists s /\ w_active s' = w_active s.
Proof.
  intros maxd t r p W M Ep G Cr t' LF.
  assert (W' : wf t') by (apply prune_wf; exact W).
  unfold is_leaf in LF. apply andb_true_iff in LF. destruct LF as [Cp' NP']. apply negb_true_iff in NP'.
  assert (Cp : contains t p = true) by (eapply contains_prune_sub; eauto).
  assert (Cr' : contains t' (rid r) = false).
  { destruct (contains t' (rid r)) eqn:X; auto. apply contains_prune_sub in X. congruence. }
  split; [eapply add_child_ok; eauto|]. split; [eapply add_child_ok; eauto|].
  cbn zeta. rewrite (leaves_add_child t r p W Cr Ep Cp), (leaves_add_child t' r p W' Cr' Ep Cp').
  set (np := fun x : rev => negb (revid_eqb (rid x) p)).
  set (nd := fun l : rev => negb (doomed maxd t l)).
  set (L := filter np (leaves t)).
  pose proof (prune_leaves_exact maxd t W M) as LE. fold t' in LE. fold nd in LE.
  assert (E1 : map idel (r :: filter np (leaves t')) = map idel (r :: filter nd L)).
  { cbn [map]. f_equal. subst L. rewrite filter_filter.
    rewrite (filter_ext (fun x => np x && nd x) (fun x => nd x && np x)) by (intros; apply andb_comm).
    rewrite <- filter_filter. apply map_idel_filter_ext; auto.
    intros a b E. unfold idel in E. inversion E as [[Ea Eb]]. unfold np. rewrite Ea. reflexivity. }
  rewrite (winner_fold_idel _ _ E1).
  set (K := r :: filter nd L). set (D := filter (fun x => negb (nd x)) L).
  assert (P : Permutation (r :: L) (K ++ D)).
  { subst K. cbn [app]. constructor. apply filter_split_perm. }
  rewrite (winner_perm _ _ P).
  (* the leaf p of the unpruned tree *)
  assert (PR : exists pr, In pr (leaves t) /\ rid pr = p).
  { destruct (contains_rec _ _ Cp') as (l' & Il' & El').
    assert (Ill' : In l' (leaves t')) by (apply in_leaves; rewrite El'; auto).
    pose proof (in_map_idel _ _ Ill') as X. rewrite LE in X. apply in_map_iff in X.
    destruct X as (l & E & Il). apply filter_In in Il. exists l. split; [tauto|].
    unfold idel in E. inversion E. congruence. }
  destruct PR as (pr & Ipr & Epr).
  assert (Dom : forall d, In d D -> rdel d = true /\ exists x, In x K /\ outranks x d).
  { intros d Id. subst D. apply filter_In in Id. destruct Id as [IdL ND]. subst L. apply filter_In in IdL.
    destruct IdL as [Idl Npd]. unfold nd in ND. rewrite negb_involutive in ND. unfold doomed in ND.
    apply andb_true_iff in ND. destruct ND as [_ ND]. unfold shortest_live in ND.
    destruct (map (fun r0 : rev => gen (rid r0)) (filter live (leaves t))) as [|g gs] eqn:LG; [discriminate|].
    unfold doomP in ND. apply andb_true_iff in ND. destruct ND as [Dd Gd]. apply N.ltb_lt in Gd.
    split; auto.
    destruct (rdel r) eqn:Dr.
    - destruct (rdel pr) eqn:Dp.
      + (* some live leaf other than p outranks d *)
        assert (LV : exists lam, In lam (filter live (leaves t))).
        { destruct (filter live (leaves t)) as [|lam ?]; [discriminate | exists lam; left; reflexivity]. }
        destruct LV as (lam & Ilam). apply filter_In in Ilam. destruct Ilam as [Ilam Llam].
        unfold live in Llam. apply negb_true_iff in Llam.
        exists lam. split; [|left; auto].
        subst K. right. apply filter_In. split.
        * apply filter_In. split; auto. unfold np. apply negb_true_iff. apply revid_eqb_neq. intros E.
          assert (lam = pr) by (apply (leaves_nodup_eq t lam pr W Ilam Ipr); congruence). subst lam. congruence.
        * unfold nd, doomed, shortest_live. rewrite LG. unfold doomP. rewrite Llam. cbn [andb].
          rewrite andb_false_r. reflexivity.
      + (* p is live: the shortest live branch is at most gen p < gen r *)
        assert (S : fold_left N.min gs g <= gen p).
        { apply fold_min_le. rewrite <- LG. rewrite <- Epr.
          apply (in_map (fun r0 => gen (rid r0))). apply filter_In. split; auto. unfold live. rewrite Dp. reflexivity. }
        exists r. split; [subst K; left; reflexivity|]. right. split; [congruence|].
        apply cmp_id_gt_lt. apply cmp_id_gen. lia.
    - exists r. split; [subst K; left; reflexivity|]. left. auto. }
  destruct (winner_drop_dominated K D) as [A B]; [intros d Id; apply (Dom d Id)|].
  split; [symmetry; exact A|]. split; [symmetry; exact B|].
  destruct (winner_counts (K ++ D)) as [_ ->]. destruct (winner_counts K) as [_ ->].
  rewrite filter_app, app_length.
  assert (Z : filter live D = []).
  { apply filter_nil_all. intros d Id. unfold live. rewrite (proj1 (Dom d Id)). reflexivity. }
  rewrite Z. cbn [length]. lia.
Qed.

(* ---------- prune_keeps_leaves_and_winner ---------- *)
(* the leaves after pruning are exactly the leaves before minus the doomed ones (ids and tombstone bits
   unchanged); a doomed leaf is a tombstone; the winner, whether it is live, and the number of live leaves
   are unchanged *)
Theorem prune_keeps_leaves_and_winner : forall maxd t, wf t -> 1 <= maxd ->
  let t' := fst (prune maxd t) in
  (forall l, In l (leaves t) -> doomed maxd t l = false -> exists l', In l' (leaves t') /\ idel l' = idel l) /\
  (forall l', In l' (leaves t') -> exists l, In l (leaves t) /\ doomed maxd t l = false /\ idel l' = idel l) /\
  (forall l, doomed maxd t l = true -> rdel l = true /\ shortest_live t <> None) /\
  (forall l, In l (leaves t) -> rdel l = false -> doomed maxd t l = false) /\
  w_id (winner_fold (leaves t')) = w_id (winner_fold (leaves t)) /\
  w_exists (winner_fold (leaves t')) = w_exists (winner_fold (leaves t)) /\
  w_active (winner_fold (leaves t')) = w_active (winner_fold (leaves t)).
Proof.
  intros maxd t W M t'. pose proof (prune_leaves_exact maxd t W M) as LE. fold t' in LE.
  split; [|split; [|split; [|split]]].
  - intros l Il ND. assert (X : In (idel l) (map idel (leaves t'))).
    { rewrite LE. apply in_map. apply filter_In. split; auto. rewrite ND. reflexivity. }
    apply in_map_iff in X. destruct X as (l' & E & Il'). eauto.
  - intros l' Il'. pose proof (in_map_idel _ _ Il') as X. rewrite LE in X. apply in_map_iff in X.
    destruct X as (l & E & Il). apply filter_In in Il. destruct Il as [Il ND]. apply negb_true_iff in ND.
    exists l. auto.
  - intros l D. unfold doomed in D. apply andb_true_iff in D. destruct D as [_ D].
    destruct (shortest_live t); [|discriminate]. unfold doomP in D. apply andb_true_iff in D. split; [tauto | congruence].
  - intros l _ Dl. unfold doomed. destruct (shortest_live t); [|apply andb_false_r].
    unfold doomP. rewrite Dl. cbn [andb]. apply andb_false_r.
  - pose proof (prune_keeps_winner maxd t W M) as K. cbn zeta in K. fold t' in K. tauto.
Qed.

(* prune_preserves_winner, in terms of what winningRevision returns: same winner, same inConflict; and
   [branched] can only go from true to false *)
Theorem prune_preserves_winner : forall maxd t, wf t -> 1 <= maxd ->
  let t' := fst (prune maxd t) in
  fst (fst (winning t')) = fst (fst (winning t)) /\ snd (winning t') = snd (winning t) /\
  (snd (fst (winning t')) = true -> snd (fst (winning t)) = true).
Proof.
  intros maxd t W M t'. pose proof (prune_keeps_winner maxd t W M) as K. cbn zeta in K. fold t' in K.
  destruct K as (A & _ & C & D). unfold winning. cbn [fst snd]. rewrite A, C. split; auto. split; auto.
  intros H. apply N.ltb_lt in H. apply N.ltb_lt. lia.
Qed.
