(* C04 model, part 3: the document-level write path as far as it concerns the revision tree
   (db/crud.go: Put, PutExistingRevWithConflictResolution, IsIllegalConflict,
    updateWinningRevAndSetDocFlags, documentUpdateFunc's prune step). *)
From SG Require Import Base.Prelude.
From SG Require Export C04.RevTree.
Open Scope N_scope.

(* what the stored sync metadata says about the tree *)
Record doc := D { dtree : tree; dcur : option revid; ddel : bool; dconf : bool; dbranch : bool }.
Definition empty_doc : doc := D [] None false false false.

Definition del_of (t : tree) (w : option revid) : bool :=
  match w with
  | Some i => match find_rev t i with Some r => rdel r | None => false end
  | None => false
  end.

(* updateWinningRevAndSetDocFlags *)
Definition update_flags (t : tree) : doc :=
  let s := winner_fold (leaves t) in
  D t (w_id s) (del_of t (w_id s)) (1 <? w_active s) (1 <? w_leaves s).

Definition is_none {A} (o : option A) : bool := match o with None => true | Some _ => false end.

(* IsIllegalConflict(doc, parentRevID, deleted, noConflicts, docHistory) *)
Definition illegal_conflict (allowC noC : bool) (d : doc) (parent : option revid) (deleted : bool)
           (hist : list revid) : bool :=
  if allowC && negb noC then false
  else if opt_id_eqb parent (dcur d) || is_none (dcur d) then false
  else if deleted then
    negb (existsb (fun l => opt_id_eqb (Some (rid l)) parent && negb (rdel l)) (leaves (dtree d)))
  else if ddel d then existsb (contains (dtree d)) hist
  else true.

Inductive result := ROk | RConflict | RCancel | RErr.
Definition result_eqb (a b : result) : bool :=
  match a, b with ROk, ROk | RConflict, RConflict | RCancel, RCancel | RErr, RErr => true | _, _ => false end.

(* "Find the point where this doc's history branches from the current rev":
   (revisions new to the tree, newest first; first known ancestor) *)
Fixpoint split_known (t : tree) (hist : list revid) : list revid * option revid :=
  match hist with
  | [] => ([], None)
  | h :: r => if contains t h then ([], Some h)
              else let (n, p) := split_known t r in (h :: n, p)
  end.

(* "Add all the new-to-me revisions to the rev tree": the loop runs from the oldest new revision to the
   newest ([for i := currentRevIndex - 1; i >= 0; i--]); each is a child of the previous one, the oldest
   a child of the known ancestor [base]; only the newest carries the tombstone bit
   ([Deleted: i == 0 && newDoc.Deleted]).  [nw] is listed newest first, as in the request. *)
Fixpoint add_hist (t : tree) (nw : list revid) (base : option revid) (deleted : bool) : option tree :=
  match nw with
  | [] => Some t
  | h :: older =>
      match add_hist t older base false with
      | Some t' => add t' (R h (match older with [] => base | o :: _ => Some o end) deleted)
      | None => None
      end
  end.

(* flags are computed on the tree before pruning; the pruned tree is what gets stored.
   [fx = true] (repaired code, commit ac6ea40): when pruneRevisions pruned anything, the Branched flag -
   and only it - is recomputed from winningRevision on the pruned tree.  [fx = false]: the old code. *)
Definition finish (fx : bool) (limit : N) (t : tree) : doc :=
  let d := update_flags t in
  let t' := fst (prune limit t) in
  D t' (dcur d) (ddel d) (dconf d)
    (if fx && (0 <? snd (prune limit t)) then 1 <? w_leaves (winner_fold (leaves t')) else dbranch d).

Inductive op :=
| OPush (hist : list revid) (deleted : bool) (noConflicts : bool)   (* PutExistingRev: hist[0] is the new rev *)
| OPut (parent : option revid) (deleted : bool) (newid : revid).    (* Put; newid = the id CreateRevID produced *)

Definition push_step (fx allowC : bool) (limit : N) (d : doc) (hist : list revid) (deleted noC : bool)
  : doc * result :=
  match hist with
  | [] => (d, RErr)
  | _ =>
      let (nw, parent) := split_known (dtree d) hist in
      match nw with
      | [] => (d, RCancel)
      | _ => if illegal_conflict allowC noC d parent deleted hist then (d, RConflict)
             else match add_hist (dtree d) nw parent deleted with
                  | None => (d, RErr)
                  | Some t' => (finish fx limit t', ROk)
                  end
      end
  end.

Definition put_step (fx allowC : bool) (limit : N) (d : doc) (parent : option revid) (deleted : bool)
           (newid : revid) : doc * result :=
  let t := dtree d in
  let do_add (par : option revid) :=
      (* generation = parent generation + 1 *)
      if negb (gen newid =? gen (wid par) + 1) then (d, RErr)
      else match add t (R newid par deleted) with
           | Some t' => (finish fx limit t', ROk)
           | None => (d, RErr)
           end in
  match parent with
  | None => match dcur d with
            | None => do_add None
            | Some c => if del_of t (Some c) then do_add (Some c) else (d, RConflict)   (* "Document exists" *)
            end
  | Some p => if negb (is_leaf t p) || illegal_conflict allowC false d (Some p) deleted []
              then (d, RConflict)
              else do_add (Some p)
  end.

Definition step (fx allowC : bool) (limit : N) (d : doc) (o : op) : doc * result :=
  match o with
  | OPush hist deleted noC => push_step fx allowC limit d hist deleted noC
  | OPut parent deleted newid => put_step fx allowC limit d parent deleted newid
  end.

Fixpoint run (fx allowC : bool) (limit : N) (d : doc) (ops : list op) : doc :=
  match ops with
  | [] => d
  | o :: r => run fx allowC limit (fst (step fx allowC limit d o)) r
  end.
