(* C04 proofs, part 10: every reachable document, pruning included (revs_limit >= 1 arbitrary). *)
From Coq Require Import Permutation.
From SG Require Import Base.Prelude C04.RevId C04.RevTree C04.DocModel C04.OrderProofs C04.WinnerProofs
  C04.WfProofs C04.FlagsProofs C04.PushProofs C04.PruneProofs C04.PruneLeaves C04.DocProofs.
Open Scope N_scope.

(* the stored document agrees with what updateWinningRevAndSetDocFlags would compute on the stored tree,
   except that Branched may be stale-true (flags are computed before pruning) *)
Definition dinv2 (d : doc) : Prop :=
  let u := update_flags (dtree d) in
  wf (dtree d) /\ dcur d = dcur u /\ ddel d = ddel u /\ dconf d = dconf u /\ (dbranch u = true -> dbranch d = true).

Lemma dinv2_update : forall t, wf t -> dinv2 (update_flags t).
Proof. intros t W. unfold dinv2; cbn [dtree update_flags dcur ddel dconf dbranch]. auto. Qed.

Lemma dinv2_empty : dinv2 empty_doc.
Proof. apply (dinv2_update [] wf_nil). Qed.

Lemma winner_id_is_leaf : forall L i, w_id (winner_fold L) = Some i -> exists r, In r L /\ rid r = i.
Proof.
  intros L i H. destruct (fold_max L w_init) as (_ & _ & C). cbn zeta in C. fold (winner_fold L) in C.
  destruct C as [[C _] | (r & I & C & _)].
  - rewrite H in C. cbn in C. congruence.
  - exists r. split; auto. congruence.
Qed.

Lemma finish_inv : forall fx limit t, wf t -> 1 <= limit -> dinv2 (finish fx limit t).
Proof.
  intros fx limit t W M. unfold dinv2, finish. cbn [dtree dcur ddel dconf dbranch update_flags].
  pose proof (prune_wf limit t W) as W'.
  destruct (prune_keeps_winner limit t W M) as (A & B & C & D). cbn zeta in *.
  set (t' := fst (prune limit t)) in *.
  split; auto. split; auto. split; [|split].
  - rewrite A. destruct (w_id (winner_fold (leaves t))) as [i|] eqn:Wi; [|reflexivity].
    destruct (winner_id_is_leaf _ _ A) as (r & Ir & Er).
    apply in_leaves in Ir. destruct Ir as [Ir _].
    destruct (prune_sub limit t r Ir) as (r0 & Ir0 & E1 & E2 & _).
    unfold del_of. rewrite <- Er.
    rewrite (find_rev_nodup t' r (proj1 W') Ir). rewrite E1.
    rewrite (find_rev_nodup t r0 (proj1 W) Ir0). auto.
  - rewrite C. reflexivity.
  - intros H. destruct (fx && (0 <? snd (prune limit t))); [exact H|].
    apply N.ltb_lt in H. apply N.ltb_lt. lia.
Qed.

(* the repaired code: the Branched flag is exact after every write *)
Lemma finish_branch_exact : forall limit t,
  dbranch (finish true limit t) = dbranch (update_flags (dtree (finish true limit t))).
Proof.
  intros limit t. unfold finish. cbn [dtree dbranch update_flags andb].
  destruct (0 <? snd (prune limit t)) eqn:E; [reflexivity|].
  rewrite (prune_zero limit t); [reflexivity|]. apply N.ltb_ge in E. lia.
Qed.

Lemma finish_live_count : forall fx limit t, wf t -> 1 <= limit -> live_count (dtree (finish fx limit t)) = live_count t.
Proof.
  intros fx limit t W M. unfold finish, live_count. cbn [dtree].
  pose proof (prune_keeps_live limit t W M) as E. apply (f_equal (@length _)) in E.
  rewrite !map_length in E. exact E.
Qed.

Lemma dcur_none_empty2 : forall d, dinv2 d -> dcur d = None -> dtree d = [].
Proof.
  intros d (W & E & _) N. destruct (tree_nil_dec (dtree d)) as [T | NE]; auto. exfalso.
  destruct (winning_is_max_leaf (dtree d) W NE) as (w & _ & A).
  rewrite E in N. cbn [dcur update_flags] in N. congruence.
Qed.

Lemma ddel_no_live2 : forall d, dinv2 d -> ddel d = true -> live_count (dtree d) = 0%nat.
Proof.
  intros d (W & _ & E & _) Dl. unfold live_count.
  destruct (tree_nil_dec (dtree d)) as [T | NE]; [rewrite T; reflexivity|].
  destruct (flags_agree (dtree d) W NE) as (w & _ & _ & _ & A & _). cbn zeta in A.
  rewrite <- E in A. apply proj1 in A. specialize (A Dl).
  clear - A. induction (leaves (dtree d)) as [|l L IH]; cbn [filter length]; auto.
  unfold live at 1. rewrite (A l (or_introl eq_refl)). cbn [negb]. apply IH. intros y I. apply A. right. exact I.
Qed.

Lemma cur_live_leaf2 : forall d, dinv2 d -> dtree d <> [] ->
  live_leaf (dtree d) (dcur d) = true \/ live_count (dtree d) = 0%nat.
Proof.
  intros d I NE. pose proof I as (W & Ec & Ed & _).
  destruct (flags_agree (dtree d) W NE) as (w & [Iw _] & A & B & _). cbn zeta in A, B. rewrite <- Ec in A. rewrite <- Ed in B.
  destruct (rdel w) eqn:Dw.
  - right. apply ddel_no_live2; auto.
  - left. unfold live_leaf. apply existsb_exists. exists w. split; auto.
    rewrite A. unfold live. rewrite Dw.
    replace (opt_id_eqb (Some (rid w)) (Some (rid w))) with true by (symmetry; apply opt_id_eqb_eq; reflexivity).
    reflexivity.
Qed.

Lemma conflict_free_count2 : forall noC d parent deleted hist,
  dinv2 d -> illegal_conflict false noC d parent deleted hist = false ->
  (live_count (dtree d) <= 1)%nat ->
  (live_count (dtree d) + (if deleted then 0 else 1) <= 1 + (if live_leaf (dtree d) parent then 1 else 0))%nat.
Proof.
  intros noC d parent deleted hist I H L. unfold illegal_conflict in H. cbn [andb] in H.
  destruct (opt_id_eqb parent (dcur d) || is_none (dcur d)) eqn:A.
  - apply orb_true_iff in A. destruct A as [A | A].
    + apply opt_id_eqb_eq in A. subst parent.
      destruct (tree_nil_dec (dtree d)) as [T | NE].
      * rewrite T. cbn. destruct deleted; lia.
      * destruct (cur_live_leaf2 d I NE) as [K | K]; rewrite K; destruct deleted; lia.
    + destruct (dcur d) eqn:C; [discriminate|]. rewrite (dcur_none_empty2 d I C). cbn. destruct deleted; lia.
  - destruct deleted; [lia|].
    destruct (ddel d) eqn:Dl; [|discriminate].
    rewrite (ddel_no_live2 d I Dl). lia.
Qed.

Definition branch_exact (d : doc) : Prop := dbranch d = dbranch (update_flags (dtree d)).

Lemma step_inv2 : forall fx allowC limit d o,
  dinv2 d -> valid_op o -> 1 <= limit ->
  let d' := fst (step fx allowC limit d o) in
  dinv2 d' /\ (allowC = false -> (live_count (dtree d) <= 1)%nat -> (live_count (dtree d') <= 1)%nat) /\
  (fx = true -> branch_exact d -> branch_exact d').
Proof.
  intros fx allowC limit d o I V Lim. cbn zeta.
  assert (Same : dinv2 d /\ (allowC = false -> (live_count (dtree d) <= 1)%nat -> (live_count (dtree d) <= 1)%nat) /\
                 (fx = true -> branch_exact d -> branch_exact d))
    by (split; auto).
  pose proof I as (Wd & _).
  destruct o as [hist deleted noC | parent deleted newid]; cbn [step].
  - unfold push_step. destruct hist as [|h0 hist0]; [exact Same|].
    set (hist := h0 :: hist0) in *.
    destruct (split_known (dtree d) hist) as [nw base] eqn:Sk.
    destruct (split_known_incl _ _ _ _ Sk) as [Inc Len].
    destruct nw as [|n nw']; [exact Same|]. set (nw := n :: nw') in *.
    destruct (illegal_conflict allowC noC d base deleted hist) eqn:Ic; [exact Same|].
    destruct (add_hist (dtree d) nw base deleted) as [t'|] eqn:Ah; [|exact Same].
    cbn [fst].
    destruct (add_hist_wf nw (dtree d) base deleted t' Wd (fun x Ix => V x (Inc x Ix)) Ah) as (W' & L' & C').
    split; [apply finish_inv; auto|]. split.
    + intros -> L1. rewrite finish_live_count; auto.
      destruct C' as [C' _]; [subst nw; congruence|].
      pose proof (conflict_free_count2 noC d base deleted hist I Ic L1). lia.
    + intros -> _. apply finish_branch_exact.
  - unfold put_step.
    assert (DoAdd : forall par, (allowC = false -> (live_count (dtree d) <= 1)%nat ->
                     (live_count (dtree d) + (if deleted then 0 else 1) <= 1 + (if live_leaf (dtree d) par then 1 else 0))%nat) ->
       let r := (if negb (gen newid =? gen (wid par) + 1) then (d, RErr)
                 else match add (dtree d) (R newid par deleted) with
                      | Some t' => (finish fx limit t', ROk)
                      | None => (d, RErr)
                      end) in
       dinv2 (fst r) /\
       (allowC = false -> (live_count (dtree d) <= 1)%nat -> (live_count (dtree (fst r)) <= 1)%nat) /\
       (fx = true -> branch_exact d -> branch_exact (fst r))).
    { intros par Hc. cbn zeta.
      destruct (negb (gen newid =? gen (wid par) + 1)); [exact Same|].
      destruct (add (dtree d) (R newid par deleted)) as [t'|] eqn:Ad; [|exact Same].
      cbn [fst].
      destruct (add_wf (dtree d) (R newid par deleted) t' Wd (V newid (or_introl eq_refl)) Ad) as [-> W'].
      split; [apply finish_inv; auto|]. split.
      - intros A L1. rewrite finish_live_count; auto.
        pose proof (live_count_add (dtree d) _ Wd W') as LA. cbn [rpar rdel] in LA.
        specialize (Hc A L1). lia.
      - intros -> _. apply finish_branch_exact. }
    destruct parent as [p|].
    + destruct (negb (is_leaf (dtree d) p) || illegal_conflict allowC false d (Some p) deleted []) eqn:G; [exact Same|].
      apply DoAdd. intros -> L1. apply orb_false_iff in G. destruct G as [_ G].
      eapply conflict_free_count2; eauto.
    + destruct (dcur d) as [c|] eqn:C.
      * destruct (del_of (dtree d) (Some c)) eqn:Dc; [|exact Same].
        apply DoAdd. intros _ _.
        assert (Dl : ddel d = true).
        { destruct I as (_ & Ec & Ed & _). rewrite Ed. cbn [ddel update_flags].
          rewrite Ec in C. cbn [dcur update_flags] in C. rewrite C. exact Dc. }
        rewrite (ddel_no_live2 d I Dl). destruct deleted; lia.
      * apply DoAdd. intros _ _. rewrite (dcur_none_empty2 d I C). cbn. destruct deleted; lia.
Qed.

Lemma run_inv2 : forall fx allowC limit ops d,
  dinv2 d -> Forall valid_op ops -> 1 <= limit ->
  let d' := run fx allowC limit d ops in
  dinv2 d' /\ (allowC = false -> (live_count (dtree d) <= 1)%nat -> (live_count (dtree d') <= 1)%nat) /\
  (fx = true -> branch_exact d -> branch_exact d').
Proof.
  intros fx allowC limit. induction ops as [|o ops IH]; intros d I V Lim; cbn [run].
  - split; auto.
  - inversion V as [|? ? Vo Vr]; subst.
    destruct (step_inv2 fx allowC limit d o I Vo Lim) as (I' & C' & B').
    destruct (IH (fst (step fx allowC limit d o)) I' Vr Lim) as (I'' & C'' & B'').
    split; auto.
Qed.

(* every reachable document, whatever revs_limit >= 1, old or repaired code *)
Theorem reachable_all : forall fx allowC limit ops,
  Forall valid_op ops -> 1 <= limit ->
  let d := run fx allowC limit empty_doc ops in
  wf (dtree d) /\
  (dtree d <> [] ->
   exists w, max_leaf (dtree d) w /\ dcur d = Some (rid w) /\ ddel d = rdel w /\
     (ddel d = true <-> forall l, In l (leaves (dtree d)) -> rdel l = true) /\
     (dconf d = true <-> (2 <= length (filter live (leaves (dtree d))))%nat) /\
     ((2 <= length (leaves (dtree d)))%nat -> dbranch d = true)) /\
  (allowC = false -> (length (filter live (leaves (dtree d))) <= 1)%nat).
Proof.
  intros fx allowC limit ops V Lim. cbn zeta.
  destruct (run_inv2 fx allowC limit ops empty_doc dinv2_empty V Lim) as ((W & Ec & Ed & Ef & Eb) & C & _).
  split; auto. split.
  - intros NE. destruct (flags_agree _ W NE) as (w & Mx & A1 & A2 & A3 & A4 & A5). cbn zeta in *.
    exists w. rewrite Ec, Ed, Ef. split; [exact Mx|]. split; [exact A1|]. split; [exact A2|]. split; [exact A3|].
    split; [exact A4|]. intros H. apply Eb. apply A5. exact H.
  - intros A. apply C; auto.
Qed.

(* the repaired code: all three flags exact, for every revs_limit >= 1 *)
Theorem reachable_exact : forall allowC limit ops,
  Forall valid_op ops -> 1 <= limit ->
  let d := run true allowC limit empty_doc ops in
  wf (dtree d) /\
  (dtree d <> [] ->
   exists w, max_leaf (dtree d) w /\ dcur d = Some (rid w) /\ ddel d = rdel w /\
     (ddel d = true <-> forall l, In l (leaves (dtree d)) -> rdel l = true) /\
     (dconf d = true <-> (2 <= length (filter live (leaves (dtree d))))%nat) /\
     (dbranch d = true <-> (2 <= length (leaves (dtree d)))%nat)) /\
  (allowC = false -> (length (filter live (leaves (dtree d))) <= 1)%nat).
Proof.
  intros allowC limit ops V Lim. cbn zeta.
  destruct (run_inv2 true allowC limit ops empty_doc dinv2_empty V Lim) as ((W & Ec & Ed & Ef & _) & C & B).
  specialize (B eq_refl (eq_refl : branch_exact empty_doc)). unfold branch_exact in B.
  split; auto. split.
  - intros NE. destruct (flags_agree _ W NE) as (w & Mx & A1 & A2 & A3 & A4 & A5). cbn zeta in *.
    exists w. rewrite Ec, Ed, Ef, B. split; [exact Mx|]. split; [exact A1|]. split; [exact A2|]. split; [exact A3|].
    split; [exact A4 | exact A5].
  - intros A. apply C; auto.
Qed.
