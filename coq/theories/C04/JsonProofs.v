(* C04 proofs, part 13: the JSON bytes of a revTreeList: lexing the printed text gives back the tokens,
   parsing them gives back the revTreeList (maps in the key order the JSON library wrote them), hence
   the byte-level round trip of RevTree.MarshalJSON / UnmarshalJSON. *)
From Coq Require Import Permutation.
From SG Require Import Base.Prelude C04.RevId C04.RevTree C04.History C04.CodecX C04.Json C04.OrderProofs
  C04.WinnerProofs C04.WfProofs C04.PruneProofs C04.PruneLeaves C04.CodecProofs C04.CodecXProofs.
Open Scope N_scope.

Definition ascii (s : list N) : Prop := forall c, In c s -> c < 128.

(* ---------- lexing ---------- *)
Lemma lex_run_app : forall st a b, lex_run st (a ++ b) = lex_run (lex_run st a) b.
Proof. intros. unfold lex_run. apply fold_left_app. Qed.

Lemma hexv_hexc : forall d, d < 16 -> hexv (hexc d) = Some d.
Proof.
  intros d H. unfold hexc, hexv. destruct (N.ltb_spec d 10).
  - replace ((48 <=? 48 + d) && (48 + d <=? 57)) with true by (symmetry; apply andb_true_iff; split; apply N.leb_le; lia).
    f_equal. lia.
  - replace ((48 <=? 87 + d) && (87 + d <=? 57)) with false by (symmetry; apply andb_false_iff; right; apply N.leb_gt; lia).
    replace ((97 <=? 87 + d) && (87 + d <=? 102)) with true by (symmetry; apply andb_true_iff; split; apply N.leb_le; lia).
    f_equal. lia.
Qed.

Ltac neq_false c v := replace (c =? v) with false by (symmetry; apply N.eqb_neq; lia).

(* one escaped byte is read back as that byte *)
Lemma lex_esc_byte : forall ts a c, c < 128 ->
  lex_run (Some (ts, LStr a)) (esc_byte c) = Some (ts, LStr (c :: a)).
Proof.
  intros ts a c H. unfold esc_byte.
  destruct (N.eqb_spec c 34) as [-> | N1]; [reflexivity|].
  destruct (N.eqb_spec c 92) as [-> | N2]; [reflexivity|].
  destruct (N.eqb_spec c 8) as [-> | N3]; [reflexivity|].
  destruct (N.eqb_spec c 12) as [-> | N4]; [reflexivity|].
  destruct (N.eqb_spec c 10) as [-> | N5]; [reflexivity|].
  destruct (N.eqb_spec c 13) as [-> | N6]; [reflexivity|].
  destruct (N.eqb_spec c 9) as [-> | N7]; [reflexivity|].
  destruct ((c <? 32) || (c =? 60) || (c =? 62) || (c =? 38)) eqn:E.
  - assert (D1 : c / 16 < 16) by (apply N.div_lt_upper_bound; lia).
    assert (D2 : c mod 16 < 16) by (apply N.mod_lt; lia).
    change [92; 117; 48; 48; hexc (c / 16); hexc (c mod 16)] with ([92; 117; 48; 48] ++ [hexc (c / 16); hexc (c mod 16)]).
    rewrite lex_run_app.
    assert (P0 : lex_run (Some (ts, LStr a)) [92; 117; 48; 48] = Some (ts, LU a 2 0)) by reflexivity.
    rewrite P0. cbn [lex_run fold_left lex_step].
    rewrite (hexv_hexc _ D1). cbn iota beta zeta. cbn [lex_step]. rewrite (hexv_hexc _ D2). cbn iota beta zeta.
    pose proof (N.div_mod c 16 ltac:(lia)) as DM.
    replace ((0 * 16 + c / 16) * 16 + c mod 16) with c by lia.
    destruct (N.ltb_spec c 128); [reflexivity | lia].
  - apply orb_false_iff in E. destruct E as [E E4]. apply orb_false_iff in E. destruct E as [E E3].
    apply orb_false_iff in E. destruct E as [E1 E2]. apply N.ltb_ge in E1.
    cbn [lex_run fold_left lex_step]. neq_false c 34. neq_false c 92.
    replace ((c <? 32) || (128 <=? c)) with false; [reflexivity|].
    symmetry. apply orb_false_iff. split; [apply N.ltb_ge; lia | apply N.leb_gt; lia].
Qed.

Lemma lex_str_body : forall s ts a, ascii s ->
  lex_run (Some (ts, LStr a)) (flat_map esc_byte s) = Some (ts, LStr (List.rev s ++ a)).
Proof.
  induction s as [|c s IH]; intros ts a A; [reflexivity|].
  cbn [flat_map]. rewrite lex_run_app, lex_esc_byte by (apply A; left; reflexivity).
  rewrite IH by (intros x I; apply A; right; exact I).
  cbn [List.rev]. rewrite <- app_assoc. reflexivity.
Qed.

Lemma lex_str : forall s ts, ascii s ->
  lex_run (Some (ts, LDef)) (print_str s) = Some (TStr s :: ts, LDef).
Proof.
  intros s ts A. unfold print_str. change (34 :: flat_map esc_byte s ++ [34]) with ([34] ++ flat_map esc_byte s ++ [34]).
  rewrite lex_run_app. change (lex_run (Some (ts, LDef)) [34]) with (Some (ts, LStr [])).
  rewrite lex_run_app, lex_str_body by exact A. rewrite app_nil_r.
  cbn [lex_run fold_left lex_step N.eqb Pos.eqb]. rewrite rev_involutive. reflexivity.
Qed.

Lemma lex_digits : forall l ts neg ds, forallb is_digit l = true ->
  lex_run (Some (ts, LNum neg ds)) l = Some (ts, LNum neg (List.rev l ++ ds)).
Proof.
  induction l as [|c l IH]; intros ts neg ds H; [reflexivity|].
  cbn [forallb] in H. apply andb_true_iff in H. destruct H as [Hc Hl].
  cbn [lex_run fold_left lex_step]. rewrite Hc. fold (lex_run (Some (ts, LNum neg (c :: ds))) l).
  rewrite IH by exact Hl. cbn [List.rev]. rewrite <- app_assoc. reflexivity.
Qed.

(* decimal text has no leading zero *)
Lemma dec_fuel_head : forall f n, n < 2 ^ N.of_nat f -> 1 <= n ->
  exists c r, dec_fuel (S f) n = c :: r /\ c <> 48.
Proof.
  induction f as [|f IH]; intros n H P.
  - change (N.of_nat 0) with 0 in H. rewrite N.pow_0_r in H. lia.
  - change (dec_fuel (S (S f)) n) with (if n <? 10 then [48 + n] else dec_fuel (S f) (n / 10) ++ [48 + n mod 10]).
    destruct (N.ltb_spec n 10).
    + exists (48 + n), []. split; auto. lia.
    + rewrite Nat2N.inj_succ, N.pow_succ_r' in H.
      assert (D : n / 10 < 2 ^ N.of_nat f) by (apply N.div_lt_upper_bound; lia).
      assert (D1 : 1 <= n / 10) by (apply N.div_le_lower_bound; lia).
      destruct (IH _ D D1) as (c & r & E & NE). rewrite E. exists c, (r ++ [48 + n mod 10]). split; auto.
Qed.

Lemma dec_no_leading_zero : forall n r, dec n = 48 :: r -> r = [].
Proof.
  intros n r E. destruct (N.eq_dec n 0) as [-> | NZ].
  - vm_compute in E. congruence.
  - unfold dec in E. destruct (dec_fuel_head (N.to_nat (N.size n)) n) as (c & r' & E' & NE).
    + rewrite N2Nat.id. apply N.size_gt.
    + lia.
    + rewrite E' in E. congruence.
Qed.

Lemma flush_dec : forall neg n, flush_num neg (List.rev (dec n)) =
  Some (TInt (if neg then (- Z.of_N n)%Z else Z.of_N n)).
Proof.
  intros neg n. unfold flush_num. rewrite rev_involutive.
  destruct (dec_head n) as (c & r & E & D). rewrite E.
  assert (L : (c =? 48) && negb (is_nil r) = false).
  { destruct (N.eqb_spec c 48) as [-> | NE]; [|reflexivity]. rewrite (dec_no_leading_zero n r E). reflexivity. }
  rewrite L. rewrite <- E, dec_val. reflexivity.
Qed.

Lemma digit_def_step : forall ts c, is_digit c = true -> def_step ts c = Some (ts, LNum false [c]).
Proof.
  intros ts c D. unfold is_digit in D. apply andb_true_iff in D. destruct D as [D1 D2].
  apply N.leb_le in D1, D2. unfold def_step.
  neq_false c 32. neq_false c 9. neq_false c 10. neq_false c 13. cbn [orb].
  neq_false c 123. neq_false c 125. neq_false c 91. neq_false c 93. neq_false c 58. neq_false c 44.
  neq_false c 34. neq_false c 45.
  replace (is_digit c) with true; [reflexivity|]. symmetry. unfold is_digit. apply andb_true_iff. split; apply N.leb_le; lia.
Qed.

(* an integer, read from the default mode: the lexer is left inside the number *)
Lemma lex_int : forall z ts, exists neg ds,
  lex_run (Some (ts, LDef)) (decZ z) = Some (ts, LNum neg ds) /\ flush_num neg ds = Some (TInt z).
Proof.
  intros z ts. unfold decZ. destruct (Z.ltb_spec z 0).
  - exists true, (List.rev (dec (Z.to_N (- z)))). split.
    + change (45 :: dec (Z.to_N (- z))) with ([45] ++ dec (Z.to_N (- z))). rewrite lex_run_app.
      change (lex_run (Some (ts, LDef)) [45]) with (Some (ts, LNum true [])).
      rewrite lex_digits by (eapply digits_all; apply dec_val). rewrite app_nil_r. reflexivity.
    + rewrite flush_dec. f_equal. f_equal. lia.
  - exists false, (List.rev (dec (Z.to_N z))). split.
    + destruct (dec_head (Z.to_N z)) as (c & r & E & D). rewrite E.
      change (c :: r) with ([c] ++ r). rewrite lex_run_app.
      change (lex_run (Some (ts, LDef)) [c]) with (def_step ts c). rewrite digit_def_step by exact D.
      pose proof (digits_all _ _ _ (dec_val (Z.to_N z))) as A. rewrite E in A. cbn [forallb] in A.
      apply andb_true_iff in A. rewrite lex_digits by tauto. cbn [List.rev]. reflexivity.
    + rewrite flush_dec. f_equal. f_equal. lia.
Qed.

(* a chunk of tokens that is lexed from the default mode back to the default mode *)
Definition lex_ok (c : list tok) : Prop :=
  forall ts, lex_run (Some (ts, LDef)) (print_toks c) = Some (List.rev c ++ ts, LDef).

Lemma print_toks_app : forall a b, print_toks (a ++ b) = print_toks a ++ print_toks b.
Proof. intros. unfold print_toks. apply flat_map_app. Qed.

Lemma lex_ok_nil : lex_ok [].
Proof. intros ts. reflexivity. Qed.

Lemma lex_ok_app : forall a b, lex_ok a -> lex_ok b -> lex_ok (a ++ b).
Proof.
  intros a b A B ts. rewrite print_toks_app, lex_run_app, A, B, rev_app_distr, <- app_assoc. reflexivity.
Qed.

Lemma lex_ok_cons : forall t c, lex_ok [t] -> lex_ok c -> lex_ok (t :: c).
Proof. intros t c A B. change (t :: c) with ([t] ++ c). apply lex_ok_app; assumption. Qed.

Lemma lex_ok_punct : lex_ok [TLB] /\ lex_ok [TRB] /\ lex_ok [TLK] /\ lex_ok [TRK] /\ lex_ok [TColon] /\ lex_ok [TComma].
Proof. repeat split; intros ts; reflexivity. Qed.

Lemma lex_ok_str : forall s, ascii s -> lex_ok [TStr s].
Proof.
  intros s A ts. unfold print_toks. cbn [flat_map print_tok]. rewrite app_nil_r. rewrite lex_str by exact A. reflexivity.
Qed.

Lemma lex_ints_tail : forall l ts neg ds z, flush_num neg ds = Some (TInt z) ->
  lex_run (Some (ts, LNum neg ds)) (print_toks (flat_map (fun z => TComma :: [TInt z]) l ++ [TRK]))
  = Some (List.rev (flat_map (fun z => TComma :: [TInt z]) l ++ [TRK]) ++ TInt z :: ts, LDef).
Proof.
  induction l as [|z' l IH]; intros ts neg ds z F.
  - cbn [flat_map app print_toks print_tok lex_run fold_left lex_step]. change (is_digit 93) with false.
    cbn iota. rewrite F. reflexivity.
  - cbn [flat_map app]. change (TComma :: TInt z' :: flat_map (fun z0 => TComma :: [TInt z0]) l ++ [TRK])
      with ([TComma] ++ [TInt z'] ++ (flat_map (fun z0 => TComma :: [TInt z0]) l ++ [TRK])).
    assert (S1 : lex_run (Some (ts, LNum neg ds)) (print_toks [TComma]) = Some (TComma :: TInt z :: ts, LDef)).
    { cbn [print_toks flat_map print_tok app lex_run fold_left lex_step]. change (is_digit 44) with false.
      cbn iota. rewrite F. reflexivity. }
    destruct (lex_int z' (TComma :: TInt z :: ts)) as (neg' & ds' & R & F').
    assert (S2 : lex_run (Some (TComma :: TInt z :: ts, LDef)) (print_toks [TInt z']) = Some (TComma :: TInt z :: ts, LNum neg' ds')).
    { unfold print_toks. cbn [flat_map print_tok]. rewrite app_nil_r. exact R. }
    rewrite print_toks_app, lex_run_app, S1, print_toks_app, lex_run_app, S2, (IH _ _ _ _ F'). f_equal. f_equal.
    cbn [List.rev]. rewrite !rev_app_distr. cbn [List.rev app]. rewrite <- !app_assoc. reflexivity.
Qed.

Lemma lex_ok_intlist : forall l, lex_ok (toks_intlist l).
Proof.
  intros l ts. unfold toks_intlist, toks_list. destruct l as [|z l].
  - reflexivity.
  - change (TLK :: [TInt z] ++ flat_map (fun a => TComma :: [TInt a]) l ++ [TRK])
      with ([TLK] ++ [TInt z] ++ (flat_map (fun a => TComma :: [TInt a]) l ++ [TRK])).
    rewrite print_toks_app, lex_run_app.
    change (lex_run (Some (ts, LDef)) (print_toks [TLK])) with (Some (TLK :: ts, LDef)).
    destruct (lex_int z (TLK :: ts)) as (neg & ds & R & F).
    assert (S2 : lex_run (Some (TLK :: ts, LDef)) (print_toks [TInt z]) = Some (TLK :: ts, LNum neg ds)).
    { unfold print_toks. cbn [flat_map print_tok]. rewrite app_nil_r. exact R. }
    rewrite print_toks_app, lex_run_app, S2, (lex_ints_tail _ _ _ _ _ F). f_equal. f_equal.
    cbn [List.rev]. rewrite !rev_app_distr. cbn [List.rev app]. rewrite <- !app_assoc. reflexivity.
Qed.

Lemma lex_ok_flat {A} : forall (f : A -> list tok) l, (forall a, In a l -> lex_ok (f a)) -> lex_ok (flat_map f l).
Proof.
  intros f. induction l as [|a l IH]; intros H; cbn [flat_map]; [apply lex_ok_nil|].
  apply lex_ok_app; [apply H; left; reflexivity | apply IH; intros b I; apply H; right; exact I].
Qed.

Lemma lex_ok_list {A} : forall (f : A -> list tok) l, (forall a, In a l -> lex_ok (f a)) -> lex_ok (toks_list f l).
Proof.
  intros f l H. destruct lex_ok_punct as (_ & _ & LK & RK & _ & CM). unfold toks_list. apply lex_ok_cons; auto.
  destruct l as [|a l]; auto.
  apply lex_ok_app; [apply H; left; reflexivity|]. apply lex_ok_app; auto.
  apply lex_ok_flat. intros b I. apply lex_ok_cons; auto. apply H. right. exact I.
Qed.

Lemma lex_ok_strlist : forall l, (forall s, In s l -> ascii s) -> lex_ok (toks_strlist l).
Proof. intros l H. apply lex_ok_list. intros s I. apply lex_ok_str. apply H. exact I. Qed.

Lemma lex_ok_map {V} : forall (f : V -> list tok) m,
  (forall k v, In (k, v) m -> ascii k /\ lex_ok (f v)) -> lex_ok (toks_map f m).
Proof.
  intros f m H. destruct lex_ok_punct as (LB & RB & _ & _ & CL & CM). unfold toks_map. apply lex_ok_cons; auto.
  destruct m as [|[k v] m]; auto.
  destruct (H k v (or_introl eq_refl)) as [Ak Ov].
  apply lex_ok_cons; [apply lex_ok_str; exact Ak|]. apply lex_ok_cons; auto. apply lex_ok_app; auto.
  apply lex_ok_app; auto. apply lex_ok_flat. intros [k' v'] I. cbn [fst snd].
  destruct (H k' v' (or_intror I)) as [Ak' Ov'].
  apply lex_ok_cons; auto. apply lex_ok_cons; [apply lex_ok_str; exact Ak'|]. apply lex_ok_cons; auto.
Qed.

Lemma lex_of_ok : forall c, lex_ok c -> lex (print_toks c) = Some c.
Proof. intros c H. unfold lex. rewrite H. cbn [lex_finish]. rewrite app_nil_r, rev_involutive. reflexivity. Qed.

(* ---------- parsing value shapes ---------- *)
Lemma p_strs_tail_ok : forall l rest,
  p_strs_tail (flat_map (fun s => TComma :: [TStr s]) l ++ TRK :: rest) = Some (l, rest).
Proof.
  induction l as [|s l IH]; intros rest; [reflexivity|]. cbn [flat_map app p_strs_tail]. rewrite IH. reflexivity.
Qed.

Lemma p_strlist_ok : forall l rest, p_strlist (toks_strlist l ++ rest) = Some (l, rest).
Proof.
  intros [|s l] rest; [reflexivity|]. unfold toks_strlist, toks_list. cbn [app p_strlist].
  rewrite <- app_assoc. cbn [app]. rewrite p_strs_tail_ok. reflexivity.
Qed.

Lemma p_ints_tail_ok : forall l rest,
  p_ints_tail (flat_map (fun z => TComma :: [TInt z]) l ++ TRK :: rest) = Some (l, rest).
Proof.
  induction l as [|s l IH]; intros rest; [reflexivity|]. cbn [flat_map app p_ints_tail]. rewrite IH. reflexivity.
Qed.

Lemma p_intlist_ok : forall l rest, p_intlist (toks_intlist l ++ rest) = Some (l, rest).
Proof.
  intros [|s l] rest; [reflexivity|]. unfold toks_intlist, toks_list. cbn [app p_intlist].
  rewrite <- app_assoc. cbn [app]. rewrite p_ints_tail_ok. reflexivity.
Qed.

Lemma p_smap_tail_ok : forall (m : list (list N * list N)) rest,
  p_smap_tail (flat_map (fun kv => TComma :: TStr (fst kv) :: TColon :: [TStr (snd kv)]) m ++ TRB :: rest) = Some (m, rest).
Proof.
  induction m as [|[k v] m IH]; intros rest; [reflexivity|]. cbn [flat_map app p_smap_tail fst snd]. rewrite IH. reflexivity.
Qed.

Lemma p_strmap_ok : forall m rest, p_strmap (toks_map (fun b => [TStr b]) m ++ rest) = Some (m, rest).
Proof.
  intros [|[k v] m] rest; [reflexivity|]. unfold toks_map. cbn [app p_strmap].
  rewrite <- app_assoc. cbn [app]. rewrite p_smap_tail_ok. reflexivity.
Qed.

Lemma flat_map_length_ge {A B} : forall (f : A -> list B) l, (forall a, (1 <= length (f a))%nat) ->
  (length l <= length (flat_map f l))%nat.
Proof.
  intros f. induction l as [|a l IH]; intros H; cbn [flat_map length]; [lia|].
  rewrite app_length. pose proof (H a). specialize (IH H). lia.
Qed.

Lemma p_lmap_tail_ok : forall (m : list (list N * list (list N))) fuel rest, (length m < fuel)%nat ->
  p_lmap_tail fuel (flat_map (fun kv => TComma :: TStr (fst kv) :: TColon :: toks_strlist (snd kv)) m ++ TRB :: rest)
  = Some (m, rest).
Proof.
  induction m as [|[k v] m IH]; intros fuel rest L; (destruct fuel as [|fuel]; [cbn in L; lia|]).
  - reflexivity.
  - cbn [flat_map fst snd]. rewrite <- !app_comm_cons. cbn [p_lmap_tail].
    rewrite <- app_assoc. rewrite p_strlist_ok. rewrite IH by (cbn in L; lia). reflexivity.
Qed.

Lemma p_listmap_ok : forall m rest, p_listmap (toks_map toks_strlist m ++ rest) = Some (m, rest).
Proof.
  intros [|[k v] m] rest; [reflexivity|]. unfold toks_map. rewrite <- !app_comm_cons. cbn [p_listmap].
  rewrite <- !app_assoc. rewrite p_strlist_ok. cbn [app].
  rewrite p_lmap_tail_ok; [reflexivity|].
  rewrite app_length. pose proof (flat_map_length_ge
    (fun kv : list N * list (list N) => TComma :: TStr (fst kv) :: TColon :: toks_strlist (snd kv)) m
    ltac:(intros; cbn; lia)). lia.
Qed.

(* ---------- members ---------- *)
Definition member3 := (list N * list tok * (raw -> raw))%type.
Definition m3_member (m : member3) : member := (fst (fst m), snd (fst m)).
Definition m3_valid (m : member3) : Prop :=
  forall a rest, set_val (fst (fst m)) a (snd (fst m) ++ rest) = Some (snd m a, rest).

Fixpoint distinctb (ks : list (list N)) (seen : list (list N)) : bool :=
  match ks with [] => true | k :: ks' => negb (mem_key k seen) && distinctb ks' (k :: seen) end.

Lemma p_members_chain : forall (ms : list member3) fuel seen a,
  ms <> [] -> Forall m3_valid ms -> distinctb (map (fun m => fst (fst m)) ms) seen = true ->
  (length ms <= fuel)%nat ->
  p_members fuel seen a (join_members (map m3_member ms) ++ [TRB]) = Some (fold_left (fun a m => snd m a) ms a).
Proof.
  induction ms as [|[[k vt] g] ms IH]; intros fuel seen a NE V D L; [congruence|].
  destruct fuel as [|fuel]; [cbn in L; lia|].
  inversion V as [|? ? V1 V2]; subst. cbn [map distinctb fst snd] in D. apply andb_true_iff in D.
  destruct D as [D1 D2]. apply negb_true_iff in D1.
  pose proof (V1 a) as V1a. cbn [fst snd] in V1a.
  destruct ms as [|m2 ms].
  - cbn [map join_members flat_map]. rewrite app_nil_r.
    change (member_toks (m3_member (k, vt, g))) with (TStr k :: TColon :: vt).
    cbn [app p_members]. rewrite D1, V1a. reflexivity.
  - cbn [map join_members].
    change (member_toks (m3_member (k, vt, g))) with (TStr k :: TColon :: vt).
    rewrite <- app_assoc. cbn [app p_members]. rewrite D1, V1a.
    cbn [flat_map]. rewrite <- app_assoc. cbn [app]. cbn [fold_left snd].
    rewrite app_assoc.
    apply (IH fuel (k :: seen) (g a)); auto; [discriminate | cbn in L |- *; lia].
Qed.

Definition set_revs v (a : raw) := RAW (Some v) (r_parents a) (r_deleted a) (r_bodymap a) (r_keymap a) (r_chanmap a) (r_att a).
Definition set_parents v (a : raw) := RAW (r_revs a) (Some v) (r_deleted a) (r_bodymap a) (r_keymap a) (r_chanmap a) (r_att a).
Definition set_deleted v (a : raw) := RAW (r_revs a) (r_parents a) (Some v) (r_bodymap a) (r_keymap a) (r_chanmap a) (r_att a).
Definition set_bodymap v (a : raw) := RAW (r_revs a) (r_parents a) (r_deleted a) (Some v) (r_keymap a) (r_chanmap a) (r_att a).
Definition set_keymap v (a : raw) := RAW (r_revs a) (r_parents a) (r_deleted a) (r_bodymap a) (Some v) (r_chanmap a) (r_att a).
Definition set_chanmap v (a : raw) := RAW (r_revs a) (r_parents a) (r_deleted a) (r_bodymap a) (r_keymap a) (Some v) (r_att a).
Definition set_att v (a : raw) := RAW (r_revs a) (r_parents a) (r_deleted a) (r_bodymap a) (r_keymap a) (r_chanmap a) (Some v).

Lemma v_revs : forall l, m3_valid (k_revs, toks_strlist l, set_revs l).
Proof. intros l a rest. cbn [fst snd]. change (set_val k_revs a (toks_strlist l ++ rest))
  with (match p_strlist (toks_strlist l ++ rest) with Some (v, r) => Some (set_revs v a, r) | None => None end).
  rewrite p_strlist_ok. reflexivity. Qed.
Lemma v_parents : forall l, m3_valid (k_parents, toks_intlist l, set_parents l).
Proof. intros l a rest. cbn [fst snd]. change (set_val k_parents a (toks_intlist l ++ rest))
  with (match p_intlist (toks_intlist l ++ rest) with Some (v, r) => Some (set_parents v a, r) | None => None end).
  rewrite p_intlist_ok. reflexivity. Qed.
Lemma v_deleted : forall l, m3_valid (k_deleted, toks_intlist l, set_deleted l).
Proof. intros l a rest. cbn [fst snd]. change (set_val k_deleted a (toks_intlist l ++ rest))
  with (match p_intlist (toks_intlist l ++ rest) with Some (v, r) => Some (set_deleted v a, r) | None => None end).
  rewrite p_intlist_ok. reflexivity. Qed.
Lemma v_bodymap : forall m, m3_valid (k_bodymap, toks_map (fun b => [TStr b]) m, set_bodymap m).
Proof. intros l a rest. cbn [fst snd]. change (set_val k_bodymap a (toks_map (fun b => [TStr b]) l ++ rest))
  with (match p_strmap (toks_map (fun b => [TStr b]) l ++ rest) with Some (v, r) => Some (set_bodymap v a, r) | None => None end).
  rewrite p_strmap_ok. reflexivity. Qed.
Lemma v_keymap : forall m, m3_valid (k_keymap, toks_map (fun b => [TStr b]) m, set_keymap m).
Proof. intros l a rest. cbn [fst snd]. change (set_val k_keymap a (toks_map (fun b => [TStr b]) l ++ rest))
  with (match p_strmap (toks_map (fun b => [TStr b]) l ++ rest) with Some (v, r) => Some (set_keymap v a, r) | None => None end).
  rewrite p_strmap_ok. reflexivity. Qed.
Lemma v_chanmap : forall m, m3_valid (k_chanmap, toks_map toks_strlist m, set_chanmap m).
Proof. intros l a rest. cbn [fst snd]. change (set_val k_chanmap a (toks_map toks_strlist l ++ rest))
  with (match p_listmap (toks_map toks_strlist l ++ rest) with Some (v, r) => Some (set_chanmap v a, r) | None => None end).
  rewrite p_listmap_ok. reflexivity. Qed.
Lemma v_att : forall l, m3_valid (k_att, toks_intlist l, set_att l).
Proof. intros l a rest. cbn [fst snd]. change (set_val k_att a (toks_intlist l ++ rest))
  with (match p_intlist (toks_intlist l ++ rest) with Some (v, r) => Some (set_att v a, r) | None => None end).
  rewrite p_intlist_ok. reflexivity. Qed.

Definition opt3 {A} (k : list N) (f : list A -> list tok) (g : list A -> raw -> raw) (l : list A) : list member3 :=
  match l with [] => [] | _ => [(k, f l, g l)] end.

Definition members3_of (e : rtl) : list member3 :=
  [(k_revs, toks_strlist (map rev_text (l_revs e)), set_revs (map rev_text (l_revs e)));
   (k_parents, toks_intlist (l_parents e), set_parents (l_parents e))]
  ++ opt3 k_deleted toks_intlist set_deleted (l_deleted e)
  ++ opt3 k_bodymap (fun m => toks_map (fun b => [TStr b]) (sort_keys m)) (fun m => set_bodymap (sort_keys m))
          (match l_bodymap e with Some m => m | None => [] end)
  ++ opt3 k_keymap (fun m => toks_map (fun b => [TStr b]) (sort_keys m)) (fun m => set_keymap (sort_keys m)) (l_keymap e)
  ++ opt3 k_chanmap (fun m => toks_map toks_strlist (sort_keys m)) (fun m => set_chanmap (sort_keys m)) (l_chanmap e)
  ++ opt3 k_att toks_intlist set_att (l_att e).

(* the revTreeList as the parser returns it: maps in sorted key order, an empty body map is absent *)
Definition canon (e : rtl) : rtl :=
  RTL (l_revs e) (l_parents e) (l_deleted e) None
      (match l_bodymap e with Some (kv :: m) => Some (sort_keys (kv :: m)) | _ => None end)
      (sort_keys (l_keymap e)) [] (sort_keys (l_chanmap e)) (l_att e).

Definition raw_of (e : rtl) : raw := fold_left (fun a (m : member3) => snd m a) (members3_of e) raw0.

Lemma members3_facts : forall e,
  map m3_member (members3_of e) = members_of e /\
  Forall m3_valid (members3_of e) /\
  distinctb (map (fun m : member3 => fst (fst m)) (members3_of e)) [] = true /\
  (2 <= length (members3_of e) <= 7)%nat /\
  r_revs (raw_of e) = Some (map rev_text (l_revs e)) /\
  oget (r_parents (raw_of e)) = l_parents e /\ oget (r_deleted (raw_of e)) = l_deleted e /\
  r_bodymap (raw_of e) = l_bodymap (canon e) /\ oget (r_keymap (raw_of e)) = l_keymap (canon e) /\
  oget (r_chanmap (raw_of e)) = l_chanmap (canon e) /\ oget (r_att (raw_of e)) = l_att e.
Proof.
  intros e. unfold raw_of, members3_of, members_of, canon. cbn [l_bodymap l_keymap l_chanmap].
  destruct (l_deleted e) as [|d0 dl]; destruct (l_bodymap e) as [[|b0 bl]|];
    destruct (l_keymap e) as [|k0 kl]; destruct (l_chanmap e) as [|c0 cl]; destruct (l_att e) as [|a0 al];
    cbn [opt3 opt_member app map m3_member fst snd fold_left length sort_keys];
    (split; [reflexivity|]);
    (split; [repeat constructor; first [apply v_revs | apply v_parents | apply v_deleted | apply v_bodymap
                                       | apply v_keymap | apply v_chanmap | apply v_att]|]);
    (split; [reflexivity|]); (split; [lia|]); repeat split; reflexivity.
Qed.

Lemma join_length : forall ms, (length ms <= length (join_members ms))%nat.
Proof.
  intros [|m ms]; [cbn; lia|]. cbn [join_members length]. rewrite app_length. unfold member_toks at 1. cbn [length].
  pose proof (flat_map_length_ge (fun m : member => TComma :: member_toks m) ms ltac:(intros; cbn; lia)). lia.
Qed.

Lemma p_obj_ok : forall e, p_obj (toks_rtl e) = Some (raw_of e).
Proof.
  intros e. destruct (members3_facts e) as (M & V & D & L & _). unfold toks_rtl. rewrite <- M.
  destruct (members3_of e) as [|[[k vt] g] ms] eqn:E; [cbn in L; lia|].
  unfold raw_of. rewrite E.
  remember (join_members (map m3_member (@cons member3 ((k, vt), g) ms)) ++ [TRB]) as X eqn:EX.
  assert (HX : exists r, X = TStr k :: r).
  { subst X. cbn [map join_members]. unfold m3_member at 1. unfold member_toks at 1. cbn [fst snd app]. eexists. reflexivity. }
  destruct HX as (r & HX).
  assert (PO : p_obj (TLB :: X) = p_members (length X) [] raw0 X) by (rewrite HX; reflexivity).
  rewrite PO. subst X. apply p_members_chain; auto; [discriminate|].
  rewrite app_length. pose proof (join_length (map m3_member (@cons member3 ((k, vt), g) ms))) as J. rewrite map_length in J.
  cbn [length] in *. lia.
Qed.

(* ---------- revision ids as text ---------- *)
Lemma split_dash_digits : forall p d, forallb is_digit p = true -> split_dash (p ++ 45 :: d) = Some (p, d).
Proof.
  induction p as [|c p IH]; intros d H; [reflexivity|]. cbn [forallb] in H. apply andb_true_iff in H. destruct H as [Hc Hp].
  cbn [app split_dash]. unfold is_digit in Hc. apply andb_true_iff in Hc. destruct Hc as [C1 C2]. apply N.leb_le in C1.
  neq_false c 45. rewrite (IH d Hp). reflexivity.
Qed.

Lemma parse_revid_text : forall i, 1 <= gen i <= max_int -> parse_revid (rev_text i) = Some (gen i, dig i).
Proof.
  intros [g d] [G1 G2]. cbn [gen dig] in *. unfold parse_revid, parse_revid_gen, rev_text. cbn [gen dig].
  rewrite split_dash_digits by (eapply digits_all; apply dec_val).
  destruct (dec_head g) as (c & r & E & D).
  assert (NZ : c <> 48).
  { intros ->. pose proof (dec_no_leading_zero g r E). subst r. pose proof (dec_val g) as V. rewrite E in V.
    cbn in V. assert (g = 0) by congruence. lia. }
  unfold is_digit in D. apply andb_true_iff in D. destruct D as [D1 D2]. apply N.leb_le in D1.
  assert (A : atoi_pos (dec g) = Some g).
  { unfold atoi_pos. rewrite E. neq_false c 43. rewrite <- E, dec_val.
    replace ((1 <=? g) && (g <=? max_int)) with true; [reflexivity|]. symmetry. apply andb_true_iff. split; apply N.leb_le; lia. }
  rewrite A. unfold canonical_prefix. rewrite E. neq_false c 43. neq_false c 48. cbn [negb andb]. reflexivity.
Qed.

Lemma revs_of_text_ok : forall l, (forall i, In i l -> 1 <= gen i <= max_int) -> revs_of_text (map rev_text l) = Some l.
Proof.
  induction l as [|i l IH]; intros H; [reflexivity|]. cbn [map revs_of_text].
  rewrite parse_revid_text by (apply H; left; reflexivity). rewrite IH by (intros j I; apply H; right; exact I).
  destruct i; reflexivity.
Qed.

Definition gens_ok (e : rtl) : Prop := forall i, In i (l_revs e) -> 1 <= gen i <= max_int.

Theorem parse_toks_rtl : forall e, gens_ok e -> l_bodies_old e = None -> l_chans_old e = [] ->
  match p_obj (toks_rtl e) with Some a => raw_to_rtl a | None => None end = Some (canon e).
Proof.
  intros e G B C. rewrite p_obj_ok. destruct (members3_facts e) as (_ & _ & _ & _ & R1 & R2 & R3 & R4 & R5 & R6 & R7).
  unfold raw_to_rtl. rewrite R1. cbn [oget]. rewrite (revs_of_text_ok _ G), R2, R3, R4, R5, R6, R7. reflexivity.
Qed.

(* ---------- the printed text is lexed back ---------- *)
Definition rtl_ascii (e : rtl) : Prop :=
  (forall i, In i (l_revs e) -> ascii (dig i)) /\
  (forall m k v, l_bodymap e = Some m -> In (k, v) m -> ascii k /\ ascii v) /\
  (forall k v, In (k, v) (l_keymap e) -> ascii k /\ ascii v) /\
  (forall k v, In (k, v) (l_chanmap e) -> ascii k /\ forall s, In s v -> ascii s).

Lemma insert_key_perm {V} : forall (kv : list N * V) m, Permutation (insert_key kv m) (kv :: m).
Proof.
  induction m as [|kv' m IH]; cbn [insert_key]; [apply Permutation_refl|].
  destruct (cmp_dig (fst kv) (fst kv')); try apply Permutation_refl.
  eapply Permutation_trans; [apply perm_skip; exact IH | apply perm_swap].
Qed.

Lemma sort_keys_perm {V} : forall (m : list (list N * V)), Permutation (sort_keys m) m.
Proof.
  induction m as [|kv m IH]; cbn [sort_keys]; [constructor|].
  eapply Permutation_trans; [apply insert_key_perm | apply perm_skip; exact IH].
Qed.

Lemma in_sort_keys {V} : forall (m : list (list N * V)) kv, In kv (sort_keys m) -> In kv m.
Proof. intros m kv I. eapply Permutation_in; [apply sort_keys_perm | exact I]. Qed.

Lemma ascii_dec : forall n, ascii (dec n).
Proof.
  intros n c I. pose proof (digits_all _ _ _ (dec_val n)) as A. rewrite forallb_forall in A. specialize (A c I).
  unfold is_digit in A. apply andb_true_iff in A. destruct A as [_ A]. apply N.leb_le in A. lia.
Qed.

Lemma lex_ok_member : forall k vt, ascii k -> lex_ok vt -> lex_ok (member_toks (k, vt)).
Proof.
  intros k vt A O. destruct lex_ok_punct as (_ & _ & _ & _ & CL & _). unfold member_toks. cbn [fst snd].
  apply lex_ok_cons; [apply lex_ok_str; exact A|]. apply lex_ok_cons; auto.
Qed.

Lemma lex_ok_join : forall ms, (forall m, In m ms -> lex_ok (member_toks m)) -> lex_ok (join_members ms).
Proof.
  intros [|m ms] H; [apply lex_ok_nil|]. cbn [join_members]. apply lex_ok_app; [apply H; left; reflexivity|].
  apply lex_ok_flat. intros m' I. destruct lex_ok_punct as (_ & _ & _ & _ & _ & CM).
  apply lex_ok_cons; auto. apply H. right. exact I.
Qed.

Lemma key_ascii : ascii k_revs /\ ascii k_parents /\ ascii k_deleted /\ ascii k_bodymap /\ ascii k_keymap
  /\ ascii k_chanmap /\ ascii k_att.
Proof.
  repeat split; intros c I; cbn in I;
    repeat (destruct I as [<- | I]; [reflexivity|]); destruct I.
Qed.

Lemma lex_ok_rtl : forall e, rtl_ascii e -> lex_ok (toks_rtl e).
Proof.
  intros e (A1 & A2 & A3 & A4). destruct lex_ok_punct as (LB & RB & _).
  destruct key_ascii as (K1 & K2 & K3 & K4 & K5 & K6 & K7).
  unfold toks_rtl. apply lex_ok_cons; auto. apply lex_ok_app; auto. apply lex_ok_join.
  intros m I. unfold members_of in I.
  assert (SM : forall m0 : list (list N * list N), (forall k v, In (k, v) m0 -> ascii k /\ ascii v) ->
               lex_ok (toks_map (fun b => [TStr b]) (sort_keys m0))).
  { intros m0 H. apply lex_ok_map. intros k v Ikv. apply in_sort_keys in Ikv. destruct (H k v Ikv).
    split; auto. apply lex_ok_str. assumption. }
  repeat (apply in_app_or in I; destruct I as [I | I]).
  - destruct I as [<- | [<- | []]].
    + apply lex_ok_member; [assumption|]. apply lex_ok_strlist. intros s Is. apply in_map_iff in Is.
      destruct Is as (i & <- & Ii). intros c Ic. unfold rev_text in Ic. apply in_app_or in Ic.
      destruct Ic as [Ic | [<- | Ic]]; [apply (ascii_dec _ _ Ic) | reflexivity | apply (A1 i Ii c Ic)].
    + apply lex_ok_member; [assumption|]. apply lex_ok_intlist.
  - unfold opt_member in I. destruct (l_deleted e); [destruct I|]. destruct I as [<- | []].
    apply lex_ok_member; [assumption|]. apply lex_ok_intlist.
  - unfold opt_member in I. destruct (l_bodymap e) as [[|b0 bm]|] eqn:BM; [destruct I | | destruct I]. destruct I as [<- | []].
    apply lex_ok_member; [assumption|]. apply SM. intros k v Ikv. eapply A2; eauto.
  - unfold opt_member in I. destruct (l_keymap e) as [|k0 km] eqn:KM; [destruct I|]. destruct I as [<- | []].
    apply lex_ok_member; [assumption|]. apply SM. intros k v Ikv. apply A3. exact Ikv.
  - unfold opt_member in I. destruct (l_chanmap e) as [|c0 cm] eqn:CM; [destruct I|]. destruct I as [<- | []].
    apply lex_ok_member; [assumption|]. apply lex_ok_map. intros k v Ikv. apply in_sort_keys in Ikv.
    destruct (A4 k v Ikv) as [Ak Av]. split; auto. apply lex_ok_strlist. exact Av.
  - unfold opt_member in I. destruct (l_att e); [destruct I|]. destruct I as [<- | []].
    apply lex_ok_member; [assumption|]. apply lex_ok_intlist.
Qed.

(* parse (print e) = e with its maps in the key order of the JSON text *)
Theorem parse_print_rtl : forall e, rtl_ascii e -> gens_ok e -> l_bodies_old e = None -> l_chans_old e = [] ->
  parse_rtl (print_rtl e) = Some (canon e).
Proof.
  intros e A G B C. unfold parse_rtl, print_rtl. rewrite (lex_of_ok _ (lex_ok_rtl e A)).
  apply parse_toks_rtl; assumption.
Qed.
