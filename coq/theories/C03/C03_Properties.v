(* C03 -- Effective access equals what admin grants and current documents confer.
   This file contains nothing but the property theorems; each is closed by [exact]/[apply] of a lemma proved
   elsewhere and followed by Print Assumptions.

   Model: Access.v (the access-grant bookkeeping and invalidation protocol of the code as it is now).
   Specification: AccessSpec.v ([user_spec], [own_spec], [roles_spec]: stated on the ground truth only -- explicit
   sets, verdict of the sync function on the winning revision of each document, existing roles).
   [purge_ok ops] : the history contains no Purge (the code does not invalidate on purge, see C03_Refuted.v);
   the property's quantifier (principal edits, role create/delete, document writes / updates / deletes /
   conflicting revisions) does not include purge. *)
From SG Require Import Base.Prelude C03.Access C03.AccessSpec C03.AccessProofs C03.AccessTheorems.
Open Scope N_scope.

(* after ANY history, the user's next load returns exactly: explicit channels + channels granted by winning live
   revisions + "!" + the same for every existing role held by admin assignment or by grant; and exactly the
   roles assigned or granted *)
Theorem C03_access_spec : forall ops u,
  purge_ok ops ->
  let st := run init ops in
  match users st u with
  | None => snd (step st (LoadUser u)) = OUser None
  | Some ur => exists chs ros, snd (step st (LoadUser u)) = OUser (Some (chs, ros)) /\
                 (forall c, In c chs <-> user_spec st u ur c) /\
                 (forall r, In r ros <-> roles_spec (docs st) u (u_xro ur) r)
  end.
Proof. intros ops u H. exact (proj2 (load_user_correct (run init ops) u (reachable_Inv ops H))). Qed.
Print Assumptions C03_access_spec.

(* the same three sources for a role *)
Theorem C03_role_spec : forall ops r,
  purge_ok ops ->
  let st := run init ops in
  match roles st r with
  | None => snd (step st (LoadRole r)) = ORole None
  | Some rr => if r_del rr then snd (step st (LoadRole r)) = ORole None
               else exists chs, snd (step st (LoadRole r)) = ORole (Some chs) /\
                                (forall c, In c chs <-> own_spec (docs st) (PR r) (r_xch rr) c)
  end.
Proof. intros ops r H. exact (load_role_correct (run init ops) r (reachable_Inv ops H)). Qed.
Print Assumptions C03_role_spec.

(* the invariant of the invalidation protocol: every cached value is invalidated or equal to the specification,
   for users (channels and roles) and roles *)
Theorem C03_computed_invalidated_or_spec : forall ops,
  purge_ok ops ->
  let st := run init ops in
  (forall u ur, users st u = Some ur ->
     (u_ch ur = None \/ exists l, u_ch ur = Some l /\ forall c, In c l <-> own_spec (docs st) (PU u) (u_xch ur) c) /\
     (u_ro ur = None \/ exists l, u_ro ur = Some l /\ forall r, In r l <-> roles_spec (docs st) u (u_xro ur) r)) /\
  (forall r rr, roles st r = Some rr ->
     (r_ch rr = None \/ exists l, r_ch rr = Some l /\ forall c, In c l <-> own_spec (docs st) (PR r) (r_xch rr) c)).
Proof.
  intros ops H st. pose proof (reachable_Inv ops H) as I. fold st in I. split.
  - intros u ur E. destruct (inv_users st I u ur E) as [G1 G2]. split.
    + destruct (u_ch ur) as [l|]; [right; exists l; split; [reflexivity | apply G1; reflexivity] | left; reflexivity].
    + destruct (u_ro ur) as [l|]; [right; exists l; split; [reflexivity | apply G2; reflexivity] | left; reflexivity].
  - intros r rr E. pose proof (inv_roles st I r rr E) as G.
    destruct (r_ch rr) as [l|] eqn:El; [right; exists l; split; [reflexivity | apply G; exact El] | left; reflexivity].
Qed.
Print Assumptions C03_computed_invalidated_or_spec.

(* the access maps stored on a document are always the verdict of the sync function on its winning revision
   (never a non-winning or superseded one; nothing for a tombstone) *)
Theorem C03_stored_access_is_winner_verdict : forall ops d,
  purge_ok ops ->
  let st := run init ops in
  d_acc (docs st d) = v_acc (wverdict (d_leaves (docs st d))) /\
  d_rol (docs st d) = v_rol (wverdict (d_leaves (docs st d))) /\
  (forall w, winner (d_leaves (docs st d)) = Some w -> l_body w = None -> d_acc (docs st d) = [] /\ d_rol (docs st d) = []).
Proof.
  intros ops d H st. pose proof (reachable_Inv ops H) as I. fold st in I.
  split; [exact (inv_acc st I d)|]. split; [exact (inv_rol st I d)|].
  intros w E Hb. rewrite (inv_acc st I d), (inv_rol st I d), (tombstone_winner_grants_nothing _ w E Hb). split; reflexivity.
Qed.
Print Assumptions C03_stored_access_is_winner_verdict.

(* updateAccess reports exactly the keys whose granted set changed (these are the principals invalidated) *)
Theorem C03_update_access_exact : forall (old new : list (pid * list N)) k,
  (In k (changed_keys pid_eqb old new) -> ~ (forall c, In c (grants pid_eqb old k) <-> In c (grants pid_eqb new k))) /\
  (~ In k (changed_keys pid_eqb old new) -> forall c, In c (grants pid_eqb old k) <-> In c (grants pid_eqb new k)).
Proof.
  intros old new k. split; [apply (changed_key_differs pid_eqb) | apply (unchanged_key pid_eqb pid_eqb_eq)].
Qed.
Print Assumptions C03_update_access_exact.

(* a conflicting revision that does not become the winner (the winning revision id of d is the same before and
   after the write) changes no user's next load *)
Theorem C03_non_winning_write_no_effect : forall ops d parent r b u,
  purge_ok ops ->
  let st := run init ops in
  let st' := fst (step st (Put d parent r b)) in
  same_winner (winner (d_leaves (docs st d))) (winner (d_leaves (docs st' d))) = true ->
  out_equiv (snd (step st' (LoadUser u))) (snd (step st (LoadUser u))).
Proof.
  intros ops d parent r b u H st st' Hw. pose proof (reachable_Inv ops H) as I. fold st in I.
  apply same_truth_loads; [apply (step_Inv st (Put d parent r b) I); right; reflexivity | exact I|].
  apply put_same_winner_truth; assumption.
Qed.
Print Assumptions C03_non_winning_write_no_effect.

(* revocation: when the winning revision of d is a tombstone, every user's next load is what it would be if
   document d had never existed *)
Theorem C03_revoke_on_tombstone : forall ops d w u ur,
  purge_ok ops ->
  let st := run init ops in
  winner (d_leaves (docs st d)) = Some w -> l_body w = None ->
  users st u = Some ur ->
  exists chs ros, snd (step st (LoadUser u)) = OUser (Some (chs, ros)) /\
    (forall c, In c chs <-> user_spec (without_doc st d) u ur c) /\
    (forall r, In r ros <-> roles_spec (docs (without_doc st d)) u (u_xro ur) r).
Proof.
  intros ops d w u ur H st Ew Hb Eu. pose proof (reachable_Inv ops H) as I. fold st in I.
  destruct (load_user_correct st u I) as [_ Hl]. rewrite Eu in Hl. destruct Hl as [chs [ros [E [Hc Hr]]]].
  pose proof (without_tombstoned st d (tombstone_winner_grants_nothing _ w Ew Hb)) as T.
  exists chs, ros. split; [exact E|]. split.
  - intros c. rewrite Hc. apply user_spec_truth; [exact T | reflexivity | reflexivity].
  - intros x. rewrite Hr. apply roles_spec_iff. intros y. apply truth_role_ext. intros z. apply (proj1 T).
Qed.
Print Assumptions C03_revoke_on_tombstone.

(* order independence: two histories (any orders of principal creation, document writes, edits) that end with the
   same ground truth -- same explicit sets, same winning-revision verdicts, same existing roles -- give the same
   answer to every user's next load *)
Theorem C03_order_independent : forall ops1 ops2 u,
  purge_ok ops1 -> purge_ok ops2 ->
  same_truth (run init ops1) (run init ops2) ->
  out_equiv (snd (step (run init ops1) (LoadUser u))) (snd (step (run init ops2) (LoadUser u))).
Proof.
  intros ops1 ops2 u H1 H2 T. apply same_truth_loads; [apply reachable_Inv; exact H1 | apply reachable_Inv; exact H2 | exact T].
Qed.
Print Assumptions C03_order_independent.

(* CAS-retried rebuild: a GetUser whose lazy rebuild (read, rebuild, compare-and-swap) is interrupted by an admin
   edit of the same user between its read and its write returns AND persists exactly what "edit, then load" does
   -- in EVERY state, for EVERY edit (in particular edits that empty the admin channels or admin roles): the
   callback is re-run on the new document, nothing of the document read first survives *)
Theorem C03_load_race_equals_sequential : forall st u c r ur0,
  users st u = Some ur0 -> user_needs_rebuild ur0 = true ->
  step st (LoadUserRace u c r) = step (fst (step st (SetUser u c r))) (LoadUser u).
Proof. intros st u c r ur0 E H. exact (load_user_race_eq st u c r ur0 E H). Qed.
Print Assumptions C03_load_race_equals_sequential.

Theorem C03_role_load_race_equals_sequential : forall st r c rr0,
  roles st r = Some rr0 -> role_needs_rebuild rr0 = true ->
  step st (LoadRoleRace r c) = step (fst (step st (SetRole r c))) (LoadRole r).
Proof. intros st r c rr0 E H. exact (load_role_race_eq st r c rr0 E H). Qed.
Print Assumptions C03_role_load_race_equals_sequential.

(* every raced load is one of the two sequential orders (when nothing has to be rebuilt there is no write: the
   load answers from the document read before the edit, and the edit lands) *)
Theorem C03_load_race_linearizable : forall st u c r,
  step st (LoadUserRace u c r) = step (fst (step st (SetUser u c r))) (LoadUser u) \/
  step st (LoadUserRace u c r) = (fst (step (fst (step st (LoadUser u))) (SetUser u c r)), snd (step st (LoadUser u))).
Proof.
  intros st u c r. cbn [step]. destruct (users st u) as [ur0|] eqn:E0.
  - destruct (user_needs_rebuild ur0) eqn:Hn; [left; exact (load_user_race_eq st u c r ur0 E0 Hn)|].
    right. unfold load_user_race. rewrite E0, Hn. reflexivity.
  - right. unfold load_user_race, load_user, rebuild_user. rewrite E0. reflexivity.
Qed.
Print Assumptions C03_load_race_linearizable.

(* non-vacuity: a history without purge in which a user created AFTER the granting document gets a channel
   directly and one through a granted role, and loses both when the document is tombstoned *)
Example C03_nonvacuous :
  let ops := [Put 0 None (1, 5) (BLive (mkV [(PU 0, [1]); (PR 0, [2])] [(0, [0])]));
              SetRole 0 (Some [3]); SetUser 0 None None] in
  purge_ok ops /\
  snd (step (run init ops) (LoadUser 0)) = OUser (Some ([1; 0; 3; 2; 0], [0])) /\
  snd (step (run init (ops ++ [Put 0 (Some (1, 5)) (2, 5) BTomb])) (LoadUser 0)) = OUser (Some ([0], [])).
Proof. cbv zeta. split; [right; reflexivity|]. split; vm_compute; reflexivity. Qed.
