(* C03 -- Effective access equals what admin grants and current documents confer.
   This file contains nothing but the property theorems; each is closed by [exact]/[apply] of a lemma proved
   elsewhere and followed by Print Assumptions.

   Model: Access.v (the access-grant bookkeeping and invalidation protocol of the code as it is now).
   Specification: AccessSpec.v ([user_spec], [own_spec], [roles_spec]: stated on the ground truth only -- explicit
   sets, verdict of the sync function on the winning revision of each document, existing roles).
   [purge_ok ops] : the history contains no Purge (the code does not invalidate on purge, see C03_Refuted.v);
   the property's quantifier (principal edits, role create/delete, document writes / updates / deletes /
   conflicting revisions) does not include purge. *)
From SG Require Import Base.Prelude C03.Access C03.AccessSpec C03.AccessProofs C03.AccessTheorems.
From SG Require Import C03.Effective C03.EffectiveProofs C03.AccessX C03.AccessXLemmas C03.AccessXProofs C03.AccessXTheorems.
From SG Require Import C03.Session C03.SessionProofs.
Open Scope N_scope.

(* after ANY history, the user's next load returns exactly: explicit channels + channels granted by winning live
   revisions + "!" + the same for every existing role held by admin assignment or by grant; and exactly the
   roles assigned or granted *)
Theorem C03_access_spec : forall ops u,
  purge_ok ops ->
  let st := run init ops in
  match users st u with
  | None => snd (step st (LoadUser u)) = OUser None
  | Some ur => exists chs ros, snd (step st (LoadUser u)) = OUser (Some (chs, ros)) /\
                 (forall c, In c chs <-> user_spec st u ur c) /\
                 (forall r, In r ros <-> roles_spec (docs st) u (u_xro ur) r)
  end.
Proof. intros ops u H. exact (proj2 (load_user_correct (run init ops) u (reachable_Inv ops H))). Qed.
Print Assumptions C03_access_spec.

(* the same three sources for a role *)
Theorem C03_role_spec : forall ops r,
  purge_ok ops ->
  let st := run init ops in
  match roles st r with
  | None => snd (step st (LoadRole r)) = ORole None
  | Some rr => if r_del rr then snd (step st (LoadRole r)) = ORole None
               else exists chs, snd (step st (LoadRole r)) = ORole (Some chs) /\
                                (forall c, In c chs <-> own_spec (docs st) (PR r) (r_xch rr) c)
  end.
Proof. intros ops r H. exact (load_role_correct (run init ops) r (reachable_Inv ops H)). Qed.
Print Assumptions C03_role_spec.

(* the invariant of the invalidation protocol: every cached value is invalidated or equal to the specification,
   for users (channels and roles) and roles *)
Theorem C03_computed_invalidated_or_spec : forall ops,
  purge_ok ops ->
  let st := run init ops in
  (forall u ur, users st u = Some ur ->
     (u_ch ur = None \/ exists l, u_ch ur = Some l /\ forall c, In c l <-> own_spec (docs st) (PU u) (u_xch ur) c) /\
     (u_ro ur = None \/ exists l, u_ro ur = Some l /\ forall r, In r l <-> roles_spec (docs st) u (u_xro ur) r)) /\
  (forall r rr, roles st r = Some rr ->
     (r_ch rr = None \/ exists l, r_ch rr = Some l /\ forall c, In c l <-> own_spec (docs st) (PR r) (r_xch rr) c)).
Proof.
  intros ops H st. pose proof (reachable_Inv ops H) as I. fold st in I. split.
  - intros u ur E. destruct (inv_users st I u ur E) as [G1 G2]. split.
    + destruct (u_ch ur) as [l|]; [right; exists l; split; [reflexivity | apply G1; reflexivity] | left; reflexivity].
    + destruct (u_ro ur) as [l|]; [right; exists l; split; [reflexivity | apply G2; reflexivity] | left; reflexivity].
  - intros r rr E. pose proof (inv_roles st I r rr E) as G.
    destruct (r_ch rr) as [l|] eqn:El; [right; exists l; split; [reflexivity | apply G; exact El] | left; reflexivity].
Qed.
Print Assumptions C03_computed_invalidated_or_spec.

(* the access maps stored on a document are always the verdict of the sync function on its winning revision
   (never a non-winning or superseded one; nothing for a tombstone) *)
Theorem C03_stored_access_is_winner_verdict : forall ops d,
  purge_ok ops ->
  let st := run init ops in
  d_acc (docs st d) = v_acc (wverdict (d_leaves (docs st d))) /\
  d_rol (docs st d) = v_rol (wverdict (d_leaves (docs st d))) /\
  (forall w, winner (d_leaves (docs st d)) = Some w -> l_body w = None -> d_acc (docs st d) = [] /\ d_rol (docs st d) = []).
Proof.
  intros ops d H st. pose proof (reachable_Inv ops H) as I. fold st in I.
  split; [exact (inv_acc st I d)|]. split; [exact (inv_rol st I d)|].
  intros w E Hb. rewrite (inv_acc st I d), (inv_rol st I d), (tombstone_winner_grants_nothing _ w E Hb). split; reflexivity.
Qed.
Print Assumptions C03_stored_access_is_winner_verdict.

(* updateAccess reports exactly the keys whose granted set changed (these are the principals invalidated) *)
Theorem C03_update_access_exact : forall (old new : list (pid * list N)) k,
  (In k (changed_keys pid_eqb old new) -> ~ (forall c, In c (grants pid_eqb old k) <-> In c (grants pid_eqb new k))) /\
  (~ In k (changed_keys pid_eqb old new) -> forall c, In c (grants pid_eqb old k) <-> In c (grants pid_eqb new k)).
Proof.
  intros old new k. split; [apply (changed_key_differs pid_eqb) | apply (unchanged_key pid_eqb pid_eqb_eq)].
Qed.
Print Assumptions C03_update_access_exact.

(* a conflicting revision that does not become the winner (the winning revision id of d is the same before and
   after the write) changes no user's next load *)
Theorem C03_non_winning_write_no_effect : forall ops d parent r b u,
  purge_ok ops ->
  let st := run init ops in
  let st' := fst (step st (Put d parent r b)) in
  same_winner (winner (d_leaves (docs st d))) (winner (d_leaves (docs st' d))) = true ->
  out_equiv (snd (step st' (LoadUser u))) (snd (step st (LoadUser u))).
Proof.
  intros ops d parent r b u H st st' Hw. pose proof (reachable_Inv ops H) as I. fold st in I.
  apply same_truth_loads; [apply (step_Inv st (Put d parent r b) I); right; reflexivity | exact I|].
  apply put_same_winner_truth; assumption.
Qed.
Print Assumptions C03_non_winning_write_no_effect.

(* revocation: when the winning revision of d is a tombstone, every user's next load is what it would be if
   document d had never existed *)
Theorem C03_revoke_on_tombstone : forall ops d w u ur,
  purge_ok ops ->
  let st := run init ops in
  winner (d_leaves (docs st d)) = Some w -> l_body w = None ->
  users st u = Some ur ->
  exists chs ros, snd (step st (LoadUser u)) = OUser (Some (chs, ros)) /\
    (forall c, In c chs <-> user_spec (without_doc st d) u ur c) /\
    (forall r, In r ros <-> roles_spec (docs (without_doc st d)) u (u_xro ur) r).
Proof.
  intros ops d w u ur H st Ew Hb Eu. pose proof (reachable_Inv ops H) as I. fold st in I.
  destruct (load_user_correct st u I) as [_ Hl]. rewrite Eu in Hl. destruct Hl as [chs [ros [E [Hc Hr]]]].
  pose proof (without_tombstoned st d (tombstone_winner_grants_nothing _ w Ew Hb)) as T.
  exists chs, ros. split; [exact E|]. split.
  - intros c. rewrite Hc. apply user_spec_truth; [exact T | reflexivity | reflexivity].
  - intros x. rewrite Hr. apply roles_spec_iff. intros y. apply truth_role_ext. intros z. apply (proj1 T).
Qed.
Print Assumptions C03_revoke_on_tombstone.

(* order independence: two histories (any orders of principal creation, document writes, edits) that end with the
   same ground truth -- same explicit sets, same winning-revision verdicts, same existing roles -- give the same
   answer to every user's next load *)
Theorem C03_order_independent : forall ops1 ops2 u,
  purge_ok ops1 -> purge_ok ops2 ->
  same_truth (run init ops1) (run init ops2) ->
  out_equiv (snd (step (run init ops1) (LoadUser u))) (snd (step (run init ops2) (LoadUser u))).
Proof.
  intros ops1 ops2 u H1 H2 T. apply same_truth_loads; [apply reachable_Inv; exact H1 | apply reachable_Inv; exact H2 | exact T].
Qed.
Print Assumptions C03_order_independent.

(* CAS-retried rebuild: a GetUser whose lazy rebuild (read, rebuild, compare-and-swap) is interrupted by an admin
   edit of the same user between its read and its write returns AND persists exactly what "edit, then load" does
   -- in EVERY state, for EVERY edit (in particular edits that empty the admin channels or admin roles): the
   callback is re-run on the new document, nothing of the document read first survives *)
Theorem C03_load_race_equals_sequential : forall st u c r ur0,
  users st u = Some ur0 -> user_needs_rebuild ur0 = true ->
  step st (LoadUserRace u c r) = step (fst (step st (SetUser u c r))) (LoadUser u).
Proof. intros st u c r ur0 E H. exact (load_user_race_eq st u c r ur0 E H). Qed.
Print Assumptions C03_load_race_equals_sequential.

Theorem C03_role_load_race_equals_sequential : forall st r c rr0,
  roles st r = Some rr0 -> role_needs_rebuild rr0 = true ->
  step st (LoadRoleRace r c) = step (fst (step st (SetRole r c))) (LoadRole r).
Proof. intros st r c rr0 E H. exact (load_role_race_eq st r c rr0 E H). Qed.
Print Assumptions C03_role_load_race_equals_sequential.

(* every raced load is one of the two sequential orders (when nothing has to be rebuilt there is no write: the
   load answers from the document read before the edit, and the edit lands) *)
Theorem C03_load_race_linearizable : forall st u c r,
  step st (LoadUserRace u c r) = step (fst (step st (SetUser u c r))) (LoadUser u) \/
  step st (LoadUserRace u c r) = (fst (step (fst (step st (LoadUser u))) (SetUser u c r)), snd (step st (LoadUser u))).
Proof.
  intros st u c r. cbn [step]. destruct (users st u) as [ur0|] eqn:E0.
  - destruct (user_needs_rebuild ur0) eqn:Hn; [left; exact (load_user_race_eq st u c r ur0 E0 Hn)|].
    right. unfold load_user_race. rewrite E0, Hn. reflexivity.
  - right. unfold load_user_race, load_user, rebuild_user. rewrite E0. reflexivity.
Qed.
Print Assumptions C03_load_race_linearizable.

(* ======================================================================================================
   Extended model (AccessX.v): WHO writes, WHEN a grant was made, and the access API of a loaded user.
   [xwf (xinit def) ops]: every operation that allocates a sequence carries one larger than all sequences used
   before (db.sequences is the one allocator of document and principal sequences; the correspondence harness checks
   this on every history the real code ran).  The base component [xb] of an extended state evolves by the functions
   of Access.v, so theorems (1)-(8) above hold of it.
   ====================================================================================================== *)

(* every extended operation is the corresponding operation of Access.v on the base component (a write with a user
   context: a load of the writer, then the write if accepted, then the reload of the writer if its access changed) *)
Theorem C03_extended_refines_base : forall xs o,
  match base_op o with
  | Some bo => xb (fst (xstep xs o)) = fst (step (xb xs) bo)
  | None => match o with
            | XPut (Some u) d parent r q b s =>
              let st1 := fst (step (xb xs) (LoadUser u)) in
              xb (fst (xstep xs o)) = st1 \/ xb (fst (xstep xs o)) = fst (step st1 (Put d parent r b)) \/
              xb (fst (xstep xs o)) = fst (rebuild_user (fst (step st1 (Put d parent r b))) u)
            | _ => xb (fst (xstep xs o)) = xb xs
            end
  end.
Proof. exact xstep_refines_base. Qed.
Print Assumptions C03_extended_refines_base.

(* (1) WHO.  A write made with a user context that the sync function rejects (the body is rejected, or requireAdmin /
   requireUser / requireRole / requireAccess fails for the writer -- in the written body or in the body of an older
   leaf that the write would promote) changes no grant: no revision, no stored access map, no sequence; the only
   effect is the lazy rebuild a load of the writer does, and every user's next load is what it was before.
   (Resync is outside these operations: there a rejection DROPS the document's grants -- see C18.) *)
Theorem C03_rejected_write_grants_nothing : forall def ops u d parent r q b s,
  xwf (xinit def) ops = true ->
  let xs := xrun (xinit def) ops in
  snd (xstep xs (XPut (Some u) d parent r q b s)) = XStatus false ->
  let xs' := fst (xstep xs (XPut (Some u) d parent r q b s)) in
  xb xs' = fst (step (xb xs) (LoadUser u)) /\
  docs (xb xs') = docs (xb xs) /\
  xdacc xs' = xdacc xs /\ xdrol xs' = xdrol xs /\ xreq xs' = xreq xs /\ xclock xs' = xclock xs /\
  same_truth (xb xs') (xb xs) /\
  forall u', out_equiv (snd (step (xb xs') (LoadUser u'))) (snd (step (xb xs) (LoadUser u'))).
Proof.
  intros def ops u d parent r q b s W xs Hrej xs'. cbn [xstep fst snd] in *.
  apply (rejected_write_grants_nothing xs u d parent r q b s (reachable_XInv def ops W)).
  destruct (snd (x_put_as xs u d parent r q b s)); [discriminate | reflexivity].
Qed.
Print Assumptions C03_rejected_write_grants_nothing.

(* ... and an accepted one met the requirement of its body, evaluated against the writer's SPECIFIED access: the
   roles it holds by admin assignment or document grant, the channel names its load returns *)
Theorem C03_accepted_write_met_requirement : forall def ops u d parent r q v s ur,
  xwf (xinit def) ops = true ->
  let xs := xrun (xinit def) ops in
  users (xb xs) u = Some ur ->
  snd (xstep xs (XPut (Some u) d parent r q (BLive v) s)) = XStatus true ->
  match q with
  | RNone => True
  | RAdmin => False
  | RUser l => In u l
  | RRole l => exists x, In x l /\ roles_spec (docs (xb xs)) u (u_xro ur) x
  | RAccess l => exists c, In c l /\ In c (effective_set (view_of (x_load_user xs u) u))
  end.
Proof.
  intros def ops u d parent r q v s ur W xs Eu Hacc. cbn [xstep fst snd] in Hacc.
  assert (Ha : snd (x_put_as xs u d parent r q (BLive v) s) = true) by (destruct (snd (x_put_as xs u d parent r q (BLive v) s)); [reflexivity | discriminate]).
  pose proof (accepted_needs_requirement xs u d parent r q v s ur (reachable_XInv def ops W) Eu Ha) as H.
  destruct q; try exact H. destruct H as [c [H1 H2]]. exists c. split; [exact H1|]. rewrite <- inherited_keys. exact H2.
Qed.
Print Assumptions C03_accepted_write_met_requirement.

(* (2) TIME.  granted_since_is_first_grant_seq: after a load, the since value of every channel of the user is the
   sequence of the EARLIEST currently-live grant source -- the admin grant (sequence of the UpdatePrincipal that added
   the channel), every document whose stored access map (= the verdict on its winning revision) grants it, "!" at 1 --
   and the user has a since value exactly for the channels of the access specification *)
Theorem C03_granted_since_is_first_grant_seq : forall def ops u ur c,
  xwf (xinit def) ops = true ->
  let xs := fst (xstep (xrun (xinit def) ops) (XLoadUser u)) in
  users (xb xs) u = Some ur ->
  let g := ud_ch (xu xs u) in
  let srcs := chan_sources xs (PU u) (g_x g) c in
  (In c (keys (g_c g)) <-> own_spec (docs (xb xs)) (PU u) (u_xch ur) c) /\
  (In c (keys (g_c g)) <-> srcs <> []) /\
  (srcs <> [] -> In (since (g_c g) c) srcs /\ forall s, In s srcs -> since (g_c g) c <= s).
Proof.
  intros def ops u ur c W xs Eu. cbn [xstep fst] in *.
  pose proof (x_load_user_XInv _ u (reachable_XInv def ops W)) as I.
  exact (user_since_is_first_grant_seq _ u ur c I Eu (proj1 (loaded_user_valid _ u ur (reachable_XInv def ops W) Eu))).
Qed.
Print Assumptions C03_granted_since_is_first_grant_seq.

(* the same for the roles of a user (RolesSince_) and for the channels of a role *)
Theorem C03_role_since_is_first_grant_seq : forall def ops u ur r,
  xwf (xinit def) ops = true ->
  let xs := fst (xstep (xrun (xinit def) ops) (XLoadUser u)) in
  users (xb xs) u = Some ur ->
  let g := ud_ro (xu xs u) in
  let srcs := role_sources xs u (g_x g) r in
  (In r (keys (g_c g)) <-> roles_spec (docs (xb xs)) u (u_xro ur) r) /\
  (In r (keys (g_c g)) <-> srcs <> []) /\
  (srcs <> [] -> In (since (g_c g) r) srcs /\ forall s, In s srcs -> since (g_c g) r <= s).
Proof.
  intros def ops u ur r W xs Eu. cbn [xstep fst] in *.
  pose proof (x_load_user_XInv _ u (reachable_XInv def ops W)) as I.
  exact (user_roles_since_is_first_grant_seq _ u ur r I Eu (proj2 (loaded_user_valid _ u ur (reachable_XInv def ops W) Eu))).
Qed.
Print Assumptions C03_role_since_is_first_grant_seq.

Theorem C03_role_channels_since_is_first_grant_seq : forall def ops r rr c,
  xwf (xinit def) ops = true ->
  let xs := xrun (xinit def) ops in
  roles (xb xs) r = Some rr -> r_del rr = false -> r_ch rr <> None ->
  let g := xr xs r in
  let srcs := chan_sources xs (PR r) (g_x g) c in
  (In c (keys (g_c g)) <-> own_spec (docs (xb xs)) (PR r) (r_xch rr) c) /\
  (In c (keys (g_c g)) <-> srcs <> []) /\
  (srcs <> [] -> In (since (g_c g) c) srcs /\ forall s, In s srcs -> since (g_c g) c <= s).
Proof.
  intros def ops r rr c W xs Er Hd Hv. exact (role_since_is_first_grant_seq xs r rr c (reachable_XInv def ops W) Er Hd Hv).
Qed.
Print Assumptions C03_role_channels_since_is_first_grant_seq.

(* what the sequence of a DOCUMENT grant is (db/document.go updateAccess), for every admin write with sequence s:
   the document grants c to k with a positive sequence exactly when its stored access map does; a grant the document
   keeps making keeps its sequence; a grant it starts making gets s; other documents are untouched *)
Theorem C03_doc_grant_seq_law : forall def ops d parent r q b s k c,
  xwf (xinit def) (ops ++ [XPut None d parent r q b s]) = true ->
  let xs := xrun (xinit def) ops in
  let xs' := fst (xstep xs (XPut None d parent r q b s)) in
  let old := since (tgrants pid_eqb (xdacc xs d) k) c in
  let new := since (tgrants pid_eqb (xdacc xs' d) k) c in
  let granted_before := In c (grants pid_eqb (d_acc (docs (xb xs) d)) k) in
  let granted_after := In c (grants pid_eqb (d_acc (docs (xb xs') d)) k) in
  (granted_before <-> old <> 0) /\ (granted_after <-> new <> 0) /\
  (granted_after -> granted_before -> new = old) /\
  (granted_after -> ~ granted_before -> new = s) /\
  (forall d0, d0 <> d -> xdacc xs' d0 = xdacc xs d0).
Proof.
  intros def ops d parent r q b s k c W xs.
  assert (W' : xwf (xinit def) ops = true /\ xclock xs < s) by (apply (xwf_snoc_seq ops _ _ s W); reflexivity).
  destruct W' as [W1 W2]. cbn [xstep fst]. exact (doc_grant_seq_law xs d parent r q b s k c (reachable_XInv def ops W1) W2).
Qed.
Print Assumptions C03_doc_grant_seq_law.

(* the ChannelHistory: when a load rebuilds an invalidated channel cache, every channel that was cached and is no
   longer granted gets the CLOSED interval [since, channel_inval_seq] as its last history entry, where
   0 < since < channel_inval_seq <= the last sequence used; the entries of every other channel are untouched; the
   cache is valid afterwards *)
Theorem C03_history_records_closed_interval : forall def ops u ur c dflt,
  xwf (xinit def) ops = true ->
  let xs := xrun (xinit def) ops in
  users (xb xs) u = Some ur -> u_ch ur = None ->
  let g := ud_ch (xu xs u) in
  let g' := ud_ch (xu (fst (xstep xs (XLoadUser u))) u) in
  (In c (keys (g_c g)) -> ~ In c (keys (g_c g')) ->
     last (entries (g_hist g') c) dflt = (since (g_c g) c, g_inv g) /\
     since (g_c g) c < g_inv g /\ g_inv g <= xclock xs /\ 0 < since (g_c g) c) /\
  ((~ In c (keys (g_c g)) \/ In c (keys (g_c g'))) -> entries (g_hist g') c = entries (g_hist g) c) /\
  g_inv g' = 0.
Proof.
  intros def ops u ur c dflt W xs Eu Hn. cbn [xstep fst].
  exact (user_history_records_interval xs u ur c dflt (reachable_XInv def ops W) Eu Hn).
Qed.
Print Assumptions C03_history_records_closed_interval.

(* the channel history of a ROLE survives soft delete + re-creation, in the default collection and in a named one
   (auth.NewRole / NewRoleNoChannels carry over every collection's history since 3cadf88; before, a named collection
   lost it -- recreate_keeps_named_history = false): DeleteRole records [since, delete sequence] as the last entry of
   every channel the role had, and UpdatePrincipal re-creating the role keeps the whole history -- so a user who still
   holds the role is told about the channels the re-created role no longer grants *)
Theorem C03_role_history_survives_delete_and_recreate : forall def ops r rr s1 s2 chans c dflt,
  xwf (xinit def) ops = true ->
  let xs := xrun (xinit def) ops in
  roles (xb (x_rebuild_role xs r)) r = Some rr -> r_del rr = false ->
  let g := xr (x_rebuild_role xs r) r in
  let xs1 := fst (xstep xs (XDelRole r false s1)) in
  let xs2 := fst (xstep xs1 (XSetRole r chans s2)) in
  (In c (keys (g_c g)) -> last (entries (g_hist (xr xs2 r)) c) dflt = (since (g_c g) c, s1)) /\
  (~ In c (keys (g_c g)) -> entries (g_hist (xr xs2 r)) c = entries (g_hist g) c) /\
  g_hist (xr xs2 r) = g_hist (xr xs1 r).
Proof.
  intros def ops r rr s1 s2 chans c dflt _ xs Er Ed g xs1 xs2. subst xs1 xs2. cbn [xstep fst].
  assert (Edel : exists rr1, roles (xb (x_del_role xs r false s1)) r = Some rr1 /\ r_del rr1 = true).
  { unfold x_del_role, x_mark_deleted. rewrite Er, Ed. cbn [xb set_roles roles]. rewrite upd_same. eexists. split; reflexivity. }
  destruct Edel as [rr1 [E1 E2]].
  rewrite (recreated_role_keeps_history _ r rr1 chans s2 E1 E2).
  destruct (deleted_role_records_intervals xs r rr s1 c dflt Er Ed) as [A [B _]]. split; [exact A|]. split; [exact B | reflexivity].
Qed.
Print Assumptions C03_role_history_survives_delete_and_recreate.

(* since values move FORWARD across a revocation: if after ops1 channel c has no live grant source for key p (it is
   revoked), then after ANY continuation ops2 every grant source of c for p -- hence the since value a load computes
   from them -- is newer than every sequence used up to the revocation, in particular newer than the EndSeq of every
   history entry recorded so far *)
Theorem C03_since_moves_forward : forall def ops1 ops2 p c s,
  xwf (xinit def) (ops1 ++ ops2) = true ->
  srcs (xrun (xinit def) ops1) p c = [] ->
  In s (srcs (xrun (xinit def) (ops1 ++ ops2)) p c) ->
  xclock (xrun (xinit def) ops1) < s.
Proof.
  intros def ops1 ops2 p c s W H0 Hs.
  destruct (xwf_app ops1 ops2 (xinit def) W) as [W1 [W2 E]]. rewrite E in Hs.
  apply (sources_move_forward ops2 (xrun (xinit def) ops1) p c (xclock (xrun (xinit def) ops1)) (reachable_XInv def ops1 W1) W2 (N.le_refl _)); [|exact Hs].
  intros s0 H. rewrite H0 in H. destruct H.
Qed.
Print Assumptions C03_since_moves_forward.

(* (3) The access API of a loaded user object agrees with ONE effective set: the names of the user's own channels and
   of the channels of every existing, not deleted role it holds ([effective_set (view_of xs u)]).  In every reachable
   state: *)
(* CanSeeCollectionChannel c  <->  c or "*" is in the effective set *)
Theorem C03_can_see_iff_in_effective : forall def ops u c,
  xwf (xinit def) ops = true ->
  let v := view_of (xrun (xinit def) ops) u in
  can_see v c = true <-> In c (effective_set v) \/ In star (effective_set v).
Proof. intros def ops u c _ v. apply can_see_iff_in_effective. Qed.
Print Assumptions C03_can_see_iff_in_effective.

(* InheritedCollectionChannels has exactly the names of the effective set, each with the smallest of: the user's own
   since value, and for every role max(the role's since value for the channel, the sequence the user got the role) *)
Theorem C03_inherited_is_effective : forall def ops u c,
  xwf (xinit def) ops = true ->
  let v := view_of (xrun (xinit def) ops) u in
  keys (inherited v) = effective_set v /\
  since (inherited v) c =
    fold_left (fun m r => nmin0 m (if since (vr_ch r) c =? 0 then 0 else N.max (since (vr_ch r) c) (vr_since r)))
              (uv_roles v) (since (uv_own v) c).
Proof.
  intros def ops u c W v. split; [apply inherited_keys|]. rewrite inherited_since.
  pose proof (view_of_pos _ u (reachable_XInv def ops W)) as [_ Pr]. fold v in Pr.
  generalize (since (uv_own v) c). induction (uv_roles v) as [|r l IH]; intros m; cbn [fold_left]; [reflexivity|].
  rewrite (since_raise (vr_since r) (vr_ch r) c (Pr r (or_introl eq_refl))). apply IH. intros r0 H0. apply Pr. right. exact H0.
Qed.
Print Assumptions C03_inherited_is_effective.

(* FilterToAvailableCollectionChannels: a set without "*" is intersected with what can be seen (the rest is reported
   as removed, every kept channel carries a positive sequence); a set with "*" yields the inherited channels *)
Theorem C03_filter_is_intersection : forall def ops u cs,
  xwf (xinit def) ops = true ->
  let v := view_of (xrun (xinit def) ops) u in
  (mem star cs = false ->
     (forall c, In c (keys (fst (filter_available v cs))) <-> In c cs /\ can_see v c = true) /\
     (forall c, In c (snd (filter_available v cs)) <-> In c cs /\ can_see v c = false) /\
     (forall e, In e (fst (filter_available v cs)) -> snd e = can_see_since v (fst e) /\ 0 < snd e)) /\
  (mem star cs = true -> filter_available v cs = (inherited v, [])).
Proof. intros def ops u cs W v. apply filter_is_intersection. apply view_of_pos. exact (reachable_XInv def ops W). Qed.
Print Assumptions C03_filter_is_intersection.

(* expandCollectionWildCardChannel: a set that mentions "*" expands to the effective set; any other set is unchanged *)
Theorem C03_wildcard_expands_to_effective : forall def ops u cs,
  xwf (xinit def) ops = true ->
  let v := view_of (xrun (xinit def) ops) u in
  (mem star cs = true -> expand_wildcard v cs = effective_set v) /\
  (mem star cs = false -> expand_wildcard v cs = cs).
Proof. intros def ops u cs _ v. apply wildcard_expands_to_effective. Qed.
Print Assumptions C03_wildcard_expands_to_effective.

(* AuthorizeAnyCollectionChannel agrees with the effective set for EVERY channel set, in the default collection and in
   a named one: a non-empty set is authorized iff some channel of it is in the effective set or "*" is; the EMPTY set
   (a document in no channel) iff "*" is in the effective set, held directly or through a role.
   (Before the repair a58a51d the default collection ignored a "*" held through a role for the empty set: the old
   behaviour is authorize_any_with true, refuted in C03_Refuted.v, monitor signature
   authorize-any-empty-set-ignores-role-star.) *)
Theorem C03_authorize_any_agrees : forall def ops u cs isdef,
  xwf (xinit def) ops = true ->
  let v := view_of (xrun (xinit def) ops) u in
  authorize_any isdef v cs = true <->
  match cs with [] => In star (effective_set v) | _ => exists c, In c cs /\ (In c (effective_set v) \/ In star (effective_set v)) end.
Proof. intros def ops u cs isdef _ v. apply authorize_any_agrees. Qed.
Print Assumptions C03_authorize_any_agrees.

(* ======================================================================================================
   Long-lived sessions (Session.v): an open BLIP connection / a continuous changes feed keeps a user object and
   reloads it only when its ChangeWaiter was notified on one of its keys; a mutation AND a deletion of a principal
   document notify its key ([srun_now] = the code as it is now; before e7d0448 a deletion did not: C03_Refuted.v).
   [forallb notified_op ops]: the history (any operations of Access.v by anybody -- including DeleteUser and
   DeleteRole with purge --, sessions opened, requests made, in any order) contains no db Purge (purge-stale-grant)
   and no raced load.
   ====================================================================================================== *)

(* waiter_keys_cover_access_sources: after every history, the keys every open session listens on contain the key of
   its user's document and the key of the document of EVERY role named by its cached user object -- the principal
   documents its effective access is computed from *)
Theorem C03_waiter_keys_cover_access_sources : forall ops id s,
  forallb notified_op ops = true ->
  find_sess id (ss_sess (srun_now sinit ops)) = Some s ->
  In (PU (se_user s)) (se_keys s) /\
  (forall r, In r (snd (se_view s)) -> In (PR r) (se_keys s)).
Proof.
  intros ops id s Hn Hf. destruct (srun_SInv ops sinit Hn SInv_init) as [_ Hs].
  destruct (Hs id s (find_sess_in _ _ _ Hf)) as [[A B] _]. split; [exact A | exact B].
Qed.
Print Assumptions C03_waiter_keys_cover_access_sources.

(* ... so that every change of the effective set triggers a reload before the next request is authorized: while its
   user exists, the next request of every open session is answered with exactly what a fresh request (a load in the
   current state) gets, i.e. with the access specification of the current state -- whatever was created, edited,
   soft-deleted, purged or re-created in between *)
Theorem C03_session_request_sees_current_access : forall ops id s ur,
  forallb notified_op ops = true ->
  let ss := srun_now sinit ops in
  find_sess id (ss_sess ss) = Some s ->
  users (ss_st ss) (se_user s) = Some ur ->
  exists chs ros,
    snd (sstep_now ss (SRequest id)) = SView (Some (chs, ros)) /\
    out_equiv (OUser (Some (chs, ros))) (snd (step (ss_st ss) (LoadUser (se_user s)))) /\
    (forall c, In c chs <-> user_spec (ss_st ss) (se_user s) ur c) /\
    (forall r, In r ros <-> roles_spec (docs (ss_st ss)) (se_user s) (u_xro ur) r).
Proof.
  intros ops id s ur Hn ss Hf Eu. pose proof (srun_SInv ops sinit Hn SInv_init) as I. fold (srun_now sinit ops) in I. fold ss in I.
  destruct (session_request_fresh ss id s I Hf ltac:(congruence)) as [chs [ros [E1 E2]]].
  destruct I as [Ib _]. destruct (load_user_correct (ss_st ss) (se_user s) Ib) as [_ Hl]. cbn [step]. rewrite Eu in Hl.
  destruct Hl as [chs0 [ros0 [E0 [Hc Hr]]]]. exists chs, ros. split; [exact E1|]. split; [exact E2|].
  rewrite E0 in E2. cbn [out_equiv] in E2. destruct E2 as [A B]. split; intros x; [rewrite (A x); apply Hc | rewrite (B x); apply Hr].
Qed.
Print Assumptions C03_session_request_sees_current_access.

(* a deleted USER: the deletion makes every open session of that user dirty, and the session's next request FAILS
   (blipHandler.refreshUser returns the reconnect error, a continuous feed ends with its error entry) instead of being
   authorized with the cached user object.  (A BLIP connection stays open after that error and keeps its old user
   object for later requests: refreshUser does not close it -- modelled, not covered by a theorem.) *)
Theorem C03_deleted_user_session_request_fails : forall ops id s,
  forallb notified_op ops = true ->
  let ss := srun_now sinit ops in
  find_sess id (ss_sess ss) = Some s ->
  users (ss_st ss) (se_user s) <> None ->
  let ss' := fst (sstep_now ss (SBase (DelUser (se_user s)))) in
  users (ss_st ss') (se_user s) = None /\
  exists s', find_sess id (ss_sess ss') = Some s' /\ se_user s' = se_user s /\ se_dirty s' = true /\
             snd (sstep_now ss' (SRequest id)) = SErr.
Proof.
  intros ops id s Hn ss Hf Hex. pose proof (srun_SInv ops sinit Hn SInv_init) as I. fold (srun_now sinit ops) in I. fold ss in I.
  exact (user_delete_wakes_session ss id s I Hf Hex).
Qed.
Print Assumptions C03_deleted_user_session_request_fails.

(* non-vacuity: a history without purge in which a user created AFTER the granting document gets a channel
   directly and one through a granted role, and loses both when the document is tombstoned *)
Example C03_nonvacuous :
  let ops := [Put 0 None (1, 5) (BLive (mkV [(PU 0, [1]); (PR 0, [2])] [(0, [0])]));
              SetRole 0 (Some [3]); SetUser 0 None None] in
  purge_ok ops /\
  snd (step (run init ops) (LoadUser 0)) = OUser (Some ([1; 0; 3; 2; 0], [0])) /\
  snd (step (run init (ops ++ [Put 0 (Some (1, 5)) (2, 5) BTomb])) (LoadUser 0)) = OUser (Some ([0], [])).
Proof. cbv zeta. split; [right; reflexivity|]. split; vm_compute; reflexivity. Qed.

(* non-vacuity of the extended theorems: a well-formed history in which user 0 (holding channel 1 by admin grant) has a
   write rejected by requireAccess(2) and the same write accepted once a document grants it channel 2; the grant is
   then revoked and made again: the since value moves from 4 to 7 and the history records [4, 6] *)
Example C03_extended_nonvacuous :
  let ops := [XSetUser 0 (Some [1]) None 1; XSetUser 1 None None 2;
              XPut (Some 0) 0 None (1, 5) (RAccess [2]) (BLive (mkV [(PU 1, [3])] [])) 3;
              XPut None 1 None (1, 6) RNone (BLive (mkV [(PU 0, [2])] [])) 4;
              XPut (Some 0) 0 None (1, 5) (RAccess [2]) (BLive (mkV [(PU 1, [3])] [])) 5;
              XPut None 1 (Some (1, 6)) (2, 6) RNone (BLive (mkV [] [])) 6; XLoadUser 0;
              XPut None 1 (Some (2, 6)) (3, 6) RNone (BLive (mkV [(PU 0, [2])] [])) 7; XLoadUser 0] in
  xwf (xinit true) ops = true /\
  map (fun o => match o with XStatus b => b | _ => true end) (xouts (xinit true) ops) = [true; true; false; true; true; true; true; true; true] /\
  (let g := ud_ch (xu (xrun (xinit true) ops) 0) in since (g_c g) 2 = 7 /\ entries (g_hist g) 2 = [(4, 6)]).
Proof. cbv zeta. split; [vm_compute; reflexivity|]. split; vm_compute; split; reflexivity. Qed.
