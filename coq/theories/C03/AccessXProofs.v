(* C03 -- the extended model (AccessX.v): its base component evolves by the functions of Access.v, and the invariant
   that ties the decorations (sequences, invalidation sequences, histories) to the base state. *)
From SG Require Import Base.Prelude C03.Access C03.AccessSpec C03.AccessProofs C03.AccessTheorems
  C03.Effective C03.EffectiveProofs C03.AccessX C03.AccessXLemmas.
Open Scope N_scope.

(* ================= the base component ================= *)
Lemma fst_load_role_chans st chs r : fst (load_role_chans (st, chs) r) = fst (rebuild_role st r).
Proof.
  unfold load_role_chans. cbn [fst snd]. destruct (rebuild_role st r) as [st1 [rr|]]; [destruct (r_del rr)|]; reflexivity.
Qed.

Lemma xb_fold_roles ro : forall xs chs,
  xb (fold_left x_rebuild_role ro xs) = fst (fold_left load_role_chans ro (xb xs, chs)).
Proof.
  induction ro as [|r ro IH]; intros xs chs; cbn [fold_left]; [reflexivity|].
  destruct (load_role_chans (xb xs, chs) r) as [st1 chs1] eqn:E.
  rewrite (IH (x_rebuild_role xs r) chs1). f_equal. f_equal. f_equal.
  unfold x_rebuild_role. cbn [xb]. rewrite <- (fst_load_role_chans (xb xs) chs r), E. reflexivity.
Qed.

Lemma xb_load_user xs u : xb (x_load_user xs u) = fst (load_user (xb xs) u).
Proof.
  unfold x_load_user, load_user, loaded_roles. destruct (rebuild_user (xb xs) u) as [st1 our] eqn:E. cbn [snd].
  destruct our as [ur|].
  - rewrite (xb_fold_roles _ _ (opt_list (u_ch ur))). unfold x_rebuild_user. cbn [xb]. rewrite E. reflexivity.
  - cbn [fold_left]. unfold x_rebuild_user. cbn [xb]. rewrite E. reflexivity.
Qed.

Lemma fst_load_role st r : fst (load_role st r) = fst (rebuild_role st r).
Proof. unfold load_role. destruct (rebuild_role st r) as [st1 [rr|]]; [destruct (r_del rr)|]; reflexivity. Qed.

Lemma xb_load_role xs r : xb (x_load_role xs r) = fst (load_role (xb xs) r).
Proof. rewrite fst_load_role. reflexivity. Qed.

Lemma users_after_rebuild st u : users (fst (rebuild_user st u)) u = snd (rebuild_user st u).
Proof.
  unfold rebuild_user. destruct (users st u) as [ur|] eqn:E; cbn [fst snd set_users users]; [|exact E].
  unfold upd. rewrite N.eqb_refl. reflexivity.
Qed.

Lemma roles_after_rebuild st r : roles (fst (rebuild_role st r)) r = snd (rebuild_role st r).
Proof.
  unfold rebuild_role. destruct (roles st r) as [rr|] eqn:E; [|exact E].
  destruct (r_del rr); cbn [fst snd set_roles roles]; [exact E|]. unfold upd. rewrite N.eqb_refl. reflexivity.
Qed.

Lemma xb_set_user xs u c r s : xb (x_set_user xs u c r s) = fst (set_user (xb xs) u c r).
Proof.
  unfold x_set_user, x_edit_user, set_user. cbn [xb x_rebuild_user].
  rewrite !users_after_rebuild. destruct (rebuild_user (xb xs) u) as [st1 our] eqn:E. cbn [fst snd].
  destruct our as [ur|]; [reflexivity|].
  assert (st1 = xb xs) as ->.
  { unfold rebuild_user in E. destruct (users (xb xs) u); [discriminate | congruence]. }
  reflexivity.
Qed.

Lemma xb_set_role xs r c s : xb (x_set_role xs r c s) = fst (set_role (xb xs) r c).
Proof.
  unfold x_set_role, x_edit_role, x_edit_role_with, set_role. cbn [xb x_rebuild_role].
  rewrite !roles_after_rebuild. destruct (rebuild_role (xb xs) r) as [st1 orr] eqn:E. cbn [fst snd].
  assert (Hc : compute_chans st1 (PR r) [] = compute_chans (xb xs) (PR r) []).
  { unfold rebuild_role in E. destruct (roles (xb xs) r) as [rr|]; [destruct (r_del rr)|]; inversion E; reflexivity. }
  rewrite Hc. destruct orr as [rr|]; reflexivity.
Qed.

Lemma xb_del_role xs r p s : xb (x_del_role xs r p s) = fst (del_role (xb xs) r p).
Proof.
  unfold x_del_role, x_mark_deleted, del_role. cbn [xb x_rebuild_role].
  rewrite !roles_after_rebuild. destruct (rebuild_role (xb xs) r) as [st1 orr] eqn:E. cbn [fst snd].
  destruct orr as [rr|]; [|cbn [xb x_rebuild_role]; rewrite E; reflexivity].
  destruct (r_del rr); [cbn [xb x_rebuild_role]; rewrite E; reflexivity|]. destruct p; reflexivity.
Qed.

Lemma xb_del_user xs u : xb (x_del_user xs u) = fst (del_user (xb xs) u).
Proof.
  unfold x_del_user, del_user. cbn [xb x_rebuild_user].
  rewrite !users_after_rebuild. destruct (rebuild_user (xb xs) u) as [st1 our] eqn:E. cbn [fst snd].
  destruct our as [ur|]; [reflexivity | cbn [xb x_rebuild_user]; rewrite E; reflexivity].
Qed.

Lemma xb_put xs d parent r q b s : xb (x_put xs d parent r q b s) = fst (put (xb xs) d parent r b).
Proof.
  unfold x_put. destruct b as [v| |]; [| |reflexivity].
  - destruct (existsb (fun l => rev_eqb (l_rev l) r) (d_leaves (docs (xb xs) d))) eqn:Ed.
    + unfold put. rewrite Ed. reflexivity.
    + destruct (same_winner _ _); reflexivity.
  - destruct (existsb (fun l => rev_eqb (l_rev l) r) (d_leaves (docs (xb xs) d))) eqn:Ed.
    + unfold put. rewrite Ed. reflexivity.
    + destruct (same_winner _ _); reflexivity.
Qed.

(* the base component after a write with a user context: a load of the writer, then -- when the sync function
   accepts -- the write, then the reload of the writer when its access changed *)
Lemma xb_put_as xs u d parent r q b s :
  let st1 := fst (load_user (xb xs) u) in
  let res := x_put_as xs u d parent r q b s in
  (snd res = false -> xb (fst res) = st1) /\
  (snd res = true -> xb (fst res) = fst (put st1 d parent r b) \/
                     xb (fst res) = fst (rebuild_user (fst (put st1 d parent r b)) u)).
Proof.
  cbv zeta. unfold x_put_as. rewrite <- (xb_load_user xs u).
  destruct (users (xb (x_load_user xs u)) u) as [ur|]; cbn [fst snd]; [|split; [reflexivity | discriminate]].
  destruct (accepts _ _ _ _ _ _ _ _ _); cbn [fst snd]; [|split; [reflexivity | discriminate]].
  split; [discriminate|]. intros _.
  destruct (reloads _ _ _ _ _ _ _); [right | left].
  - unfold x_rebuild_user. cbn [xb]. rewrite xb_put. reflexivity.
  - apply xb_put.
Qed.

(* ================= grant caches ================= *)
Definition since_eq (a b : tset) : Prop := forall c, since a c = since b c.

Record gc_ok (clock : N) (xl : list N) (cached : option (list N)) (g : gc) : Prop := {
  gk_x : keys (g_x g) = xl;
  gk_xpos : all_pos (g_x g);
  gk_xle : forall e, In e (g_x g) -> snd e <= clock;
  gk_cpos : all_pos (g_c g);
  gk_cle : forall e, In e (g_c g) -> snd e <= clock;
  gk_hle : hist_le (g_hist g) clock;
  gk_ile : g_inv g <= clock;
  gk_valid : forall l, cached = Some l -> keys (g_c g) = l /\ g_inv g = 0;
  (* invalidated: every cached sequence is older than the invalidation (the built-in grant of "!" at 1 may be as old) *)
  gk_invalid : cached = None -> g_inv g <> 0 /\ forall e, In e (g_c g) -> snd e < g_inv g \/ e = (pub, 1)
}.

Lemma gc_ok_mono clock clock' xl cached g : clock <= clock' -> gc_ok clock xl cached g -> gc_ok clock' xl cached g.
Proof.
  intros Hle [H1 H2 H3 H4 H5 H6 H7 H8 H9]. constructor; try assumption.
  - intros e He. specialize (H3 e He). lia.
  - intros e He. specialize (H5 e He). lia.
  - intros e He. destruct (H6 e He). split; lia.
  - lia.
Qed.

Lemma hist_le_mono h n n' : n <= n' -> hist_le h n -> hist_le h n'.
Proof. intros Hle H e He. destruct (H e He). split; lia. Qed.

Lemma inval_gc_ok clock s xl cached g : gc_ok clock xl cached g -> clock < s -> gc_ok s xl None (inval_gc s g).
Proof.
  intros [H1 H2 H3 H4 H5 H6 H7 H8 H9] Hs. unfold inval_gc. destruct (N.eqb_spec (g_inv g) 0) as [Ez|Ez].
  - constructor; cbn [g_x g_c g_inv g_hist]; try assumption.
    + intros e He. specialize (H3 e He). lia.
    + intros e He. specialize (H5 e He). lia.
    + apply (hist_le_mono _ clock); [lia | exact H6].
    + lia.
    + discriminate.
    + intros _. split; [lia|]. intros e He. left. specialize (H5 e He). lia.
  - assert (cached = None) as ->.
    { destruct cached as [l|]; [|reflexivity]. destruct (H8 l eq_refl). contradiction. }
    apply (gc_ok_mono clock); [lia|]. constructor; assumption.
Qed.

Lemma rebuild_gc_ok clock xl g comp l :
  gc_ok clock xl None g -> all_pos comp -> (forall e, In e comp -> snd e <= clock) -> keys comp = l ->
  gc_ok clock xl (Some l) (rebuild_gc g comp).
Proof.
  intros [H1 H2 H3 H4 H5 H6 H7 H8 H9] Pc Lc Kc. constructor; cbn [rebuild_gc g_x g_c g_inv g_hist]; try assumption.
  - apply calc_history_le; assumption.
  - lia.
  - intros l0 E. inversion E. subst. split; reflexivity.
  - discriminate.
Qed.

Lemma edit_gc_ok s new g :
  all_pos (g_x g) -> (forall e, In e (g_x g) -> snd e <= s) -> all_pos (g_c g) ->
  (forall e, In e (g_c g) -> snd e < s \/ e = (pub, 1)) -> hist_le (g_hist g) s -> 0 < s ->
  gc_ok s new None (edit_gc g new s).
Proof.
  intros Px Lx Pc Lc Lh Hs. constructor; cbn [edit_gc g_x g_c g_inv g_hist]; try assumption.
  - apply keys_restamp.
  - apply restamp_pos; assumption.
  - apply restamp_le; [exact Lx | lia].
  - intros e He. destruct (Lc e He) as [H|H]; [lia | subst e; cbn; lia].
  - lia.
  - discriminate.
  - intros _. split; [lia | exact Lc].
Qed.

(* ================= the invariant ================= *)
Record XInv (xs : xstate) : Prop := {
  xi_base : Inv (xb xs);
  (* the timed access maps are the stored access maps, with sequences *)
  xi_dacc : forall d, erase_map (xdacc xs d) = d_acc (docs (xb xs) d);
  xi_drol : forall d, erase_map (xdrol xs d) = d_rol (docs (xb xs) d);
  xi_dpos : forall d, tmap_pos (xdacc xs d) /\ tmap_pos (xdrol xs d);
  xi_dle : forall d, tmap_le (xdacc xs d) (xclock xs) /\ tmap_le (xdrol xs d) (xclock xs);
  xi_users : forall u ur, users (xb xs) u = Some ur ->
    1 <= xclock xs /\
    gc_ok (xclock xs) (u_xch ur) (u_ch ur) (ud_ch (xu xs u)) /\
    gc_ok (xclock xs) (u_xro ur) (u_ro ur) (ud_ro (xu xs u)) /\
    (* a valid cache holds, for every name, the sequence of the earliest live source *)
    (u_ch ur <> None -> since_eq (g_c (ud_ch (xu xs u))) (tcompute_chans xs (PU u) (g_x (ud_ch (xu xs u))))) /\
    (u_ro ur <> None -> since_eq (g_c (ud_ro (xu xs u))) (tcompute_roles xs u (g_x (ud_ro (xu xs u)))));
  xi_roles : forall r rr, roles (xb xs) r = Some rr ->
    1 <= xclock xs /\
    hist_le (g_hist (xr xs r)) (xclock xs) /\
    (r_del rr = false ->
       gc_ok (xclock xs) (r_xch rr) (r_ch rr) (xr xs r) /\
       (r_ch rr <> None -> since_eq (g_c (xr xs r)) (tcompute_chans xs (PR r) (g_x (xr xs r)))))
}.

Lemma XInv_init def : XInv (xinit def).
Proof.
  constructor; cbn; intros; try reflexivity; try discriminate.
  - exact Inv_init.
  - split; intros e [].
  - split; intros e x [].
Qed.

(* ---------- what is computed from the documents ---------- *)
Lemma keys_flat_map {A} (f : A -> tset) l : keys (flat_map f l) = flat_map (fun x => keys (f x)) l.
Proof. induction l as [|x l IH]; [reflexivity|]. cbn [flat_map]. rewrite keys_app, IH. reflexivity. Qed.

Lemma keys_tdoc_chan xs p : XInv xs -> keys (tdoc_chan xs p) = doc_chan_grants (xb xs) p.
Proof.
  intros I. unfold tdoc_chan, doc_chan_grants. rewrite keys_flat_map. apply flat_map_ext. intros d.
  rewrite (keys_tgrants pid_eqb), (xi_dacc xs I d). reflexivity.
Qed.

Lemma keys_tdoc_role xs u : XInv xs -> keys (tdoc_role xs u) = doc_role_grants (xb xs) u.
Proof.
  intros I. unfold tdoc_role, doc_role_grants. rewrite keys_flat_map. apply flat_map_ext. intros d.
  rewrite (keys_tgrants N.eqb), (xi_drol xs I d). reflexivity.
Qed.

Lemma keys_tcompute_chans xs p x : XInv xs -> keys (tcompute_chans xs p x) = compute_chans (xb xs) p (keys x).
Proof.
  intros I. unfold tcompute_chans, compute_chans. rewrite !keys_app, (keys_tdoc_chan xs p I). reflexivity.
Qed.

Lemma keys_tcompute_roles xs u x : XInv xs -> keys (tcompute_roles xs u x) = compute_roles (xb xs) u (keys x).
Proof.
  intros I. unfold tcompute_roles, compute_roles. rewrite !keys_app, (keys_tdoc_role xs u I). reflexivity.
Qed.

Lemma tdoc_chan_pos xs p : XInv xs -> all_pos (tdoc_chan xs p).
Proof. intros I. apply flat_map_pos. intros d _. apply tgrants_pos. apply (xi_dpos xs I d). Qed.

Lemma tdoc_role_pos xs u : XInv xs -> all_pos (tdoc_role xs u).
Proof. intros I. apply flat_map_pos. intros d _. apply tgrants_pos. apply (xi_dpos xs I d). Qed.

Lemma tdoc_chan_le xs p e : XInv xs -> In e (tdoc_chan xs p) -> snd e <= xclock xs.
Proof.
  intros I He. unfold tdoc_chan in He. apply in_flat_map in He. destruct He as [d [_ He]].
  exact (tgrants_le pid_eqb _ p _ (proj1 (xi_dle xs I d)) e He).
Qed.

Lemma tdoc_role_le xs u e : XInv xs -> In e (tdoc_role xs u) -> snd e <= xclock xs.
Proof.
  intros I He. unfold tdoc_role in He. apply in_flat_map in He. destruct He as [d [_ He]].
  exact (tgrants_le N.eqb _ u _ (proj2 (xi_dle xs I d)) e He).
Qed.

Lemma tcompute_chans_pos xs p x : XInv xs -> all_pos x -> all_pos (tcompute_chans xs p x).
Proof.
  intros I Px. unfold tcompute_chans. apply all_pos_app. split; [exact Px|]. apply all_pos_app. split; [apply tdoc_chan_pos; exact I|].
  intros e [<-|[]]. cbn. lia.
Qed.

Lemma tcompute_roles_pos xs u x : XInv xs -> all_pos x -> all_pos (tcompute_roles xs u x).
Proof.
  intros I Px. unfold tcompute_roles. apply all_pos_app. split; [exact Px | apply tdoc_role_pos; exact I].
Qed.

Lemma tcompute_chans_le xs p x n e :
  XInv xs -> xclock xs <= n -> 1 <= n -> (forall y, In y x -> snd y <= n) -> In e (tcompute_chans xs p x) -> snd e <= n.
Proof.
  intros I Hc H1 Hx He. unfold tcompute_chans in He. rewrite !in_app_iff in He.
  destruct He as [He|[He|[<-|[]]]]; [apply Hx; exact He | pose proof (tdoc_chan_le xs p e I He); lia | cbn; lia].
Qed.

Lemma tcompute_roles_le xs u x n e :
  XInv xs -> xclock xs <= n -> (forall y, In y x -> snd y <= n) -> In e (tcompute_roles xs u x) -> snd e <= n.
Proof.
  intros I Hc Hx He. unfold tcompute_roles in He. rewrite in_app_iff in He.
  destruct He as [He|He]; [apply Hx; exact He | pose proof (tdoc_role_le xs u e I He); lia].
Qed.

(* every entry computed from the documents and the admin grants is older than a NEW sequence, except "!" at 1 *)
Lemma tcompute_chans_lt xs p x s e :
  XInv xs -> xclock xs < s -> (forall y, In y x -> snd y < s) -> In e (tcompute_chans xs p x) -> snd e < s \/ e = (pub, 1).
Proof.
  intros I Hc Hx He. unfold tcompute_chans in He. rewrite !in_app_iff in He.
  destruct He as [He|[He|[<-|[]]]]; [left; apply Hx; exact He | left; pose proof (tdoc_chan_le xs p e I He); lia | right; reflexivity].
Qed.

(* the computation reads the documents only *)
Lemma tcompute_chans_frame xs xs' p x :
  ids (xb xs') = ids (xb xs) -> xdacc xs' = xdacc xs -> tcompute_chans xs' p x = tcompute_chans xs p x.
Proof. intros H1 H2. unfold tcompute_chans, tdoc_chan. rewrite H1, H2. reflexivity. Qed.

Lemma tcompute_roles_frame xs xs' u x :
  ids (xb xs') = ids (xb xs) -> xdrol xs' = xdrol xs -> tcompute_roles xs' u x = tcompute_roles xs u x.
Proof. intros H1 H2. unfold tcompute_roles, tdoc_role. rewrite H1, H2. reflexivity. Qed.

(* ================= preservation: getPrincipal ================= *)
Lemma x_rebuild_user_XInv xs u : XInv xs -> XInv (x_rebuild_user xs u).
Proof.
  intros I. pose proof (xi_base xs I) as Ib.
  destruct (rebuild_user (xb xs) u) as [st1 our] eqn:E.
  destruct (rebuild_user_spec _ _ _ _ Ib E) as [I1 [Hd [Hi [Hr [Hu _]]]]].
  assert (Exb : xb (x_rebuild_user xs u) = st1) by (unfold x_rebuild_user; cbn [xb]; rewrite E; reflexivity).
  assert (Fc : forall p x, tcompute_chans (x_rebuild_user xs u) p x = tcompute_chans xs p x).
  { intros. apply tcompute_chans_frame; [rewrite Exb; exact Hi | reflexivity]. }
  assert (Fr : forall p x, tcompute_roles (x_rebuild_user xs u) p x = tcompute_roles xs p x).
  { intros. apply tcompute_roles_frame; [rewrite Exb; exact Hi | reflexivity]. }
  constructor.
  - rewrite Exb. exact I1.
  - intros d. rewrite Exb, Hd. apply (xi_dacc xs I).
  - intros d. rewrite Exb, Hd. apply (xi_drol xs I).
  - apply (xi_dpos xs I).
  - apply (xi_dle xs I).
  - intros u' ur' Eu'. rewrite Exb, Hu in Eu'. cbn [x_rebuild_user xu xclock]. rewrite !Fc, !Fr. unfold upd in *.
    destruct (u' =? u) eqn:Euu; [|exact (xi_users xs I u' ur' Eu')].
    apply N.eqb_eq in Euu. subst u'. subst our. unfold rebuild_user in E.
    destruct (users (xb xs) u) as [ur|] eqn:Eu; [|discriminate]. inversion E as [[E1 E2]]. clear E. clear E1. subst ur'.
    destruct (xi_users xs I u ur Eu) as [H1 [Gc [Gr [Sc Sr]]]].
    unfold user_deco_rebuilt. rewrite Eu. cbn [ud_ch ud_ro u_xch u_ch u_xro u_ro].
    split; [exact H1|]. split; [|split; [|split]].
    + destruct (u_ch ur) as [l|] eqn:El; [exact Gc|].
      apply rebuild_gc_ok; [exact Gc | apply tcompute_chans_pos; [exact I | apply (gk_xpos _ _ _ _ Gc)] | |].
      * intros e He. eapply tcompute_chans_le; [exact I | lia | exact H1 | apply (gk_xle _ _ _ _ Gc) | exact He].
      * rewrite (keys_tcompute_chans xs (PU u) _ I), (gk_x _ _ _ _ Gc). reflexivity.
    + destruct (u_ro ur) as [l|] eqn:El; [exact Gr|].
      apply rebuild_gc_ok; [exact Gr | apply tcompute_roles_pos; [exact I | apply (gk_xpos _ _ _ _ Gr)] | |].
      * intros e He. eapply tcompute_roles_le; [exact I | lia | apply (gk_xle _ _ _ _ Gr) | exact He].
      * rewrite (keys_tcompute_roles xs u _ I), (gk_x _ _ _ _ Gr). reflexivity.
    + intros _. destruct (u_ch ur) as [l|] eqn:El; [apply Sc; discriminate|]. intros c. reflexivity.
    + intros _. destruct (u_ro ur) as [l|] eqn:El; [apply Sr; discriminate|]. intros c. reflexivity.
  - intros r rr Er. rewrite Exb, Hr in Er. cbn [x_rebuild_user xr xclock]. rewrite !Fc. exact (xi_roles xs I r rr Er).
Qed.

Lemma x_rebuild_role_XInv xs r : XInv xs -> XInv (x_rebuild_role xs r).
Proof.
  intros I. pose proof (xi_base xs I) as Ib.
  destruct (rebuild_role (xb xs) r) as [st1 orr] eqn:E.
  destruct (rebuild_role_spec _ _ _ _ Ib E) as [I1 [Hd [Hi [Hu [Hr _]]]]].
  assert (Exb : xb (x_rebuild_role xs r) = st1) by (unfold x_rebuild_role; cbn [xb]; rewrite E; reflexivity).
  assert (Fc : forall p x, tcompute_chans (x_rebuild_role xs r) p x = tcompute_chans xs p x).
  { intros. apply tcompute_chans_frame; [rewrite Exb; exact Hi | reflexivity]. }
  assert (Fr : forall p x, tcompute_roles (x_rebuild_role xs r) p x = tcompute_roles xs p x).
  { intros. apply tcompute_roles_frame; [rewrite Exb; exact Hi | reflexivity]. }
  constructor.
  - rewrite Exb. exact I1.
  - intros d. rewrite Exb, Hd. apply (xi_dacc xs I).
  - intros d. rewrite Exb, Hd. apply (xi_drol xs I).
  - apply (xi_dpos xs I).
  - apply (xi_dle xs I).
  - intros u ur Eu. rewrite Exb, Hu in Eu. cbn [x_rebuild_role xu xclock]. rewrite !Fc, !Fr. exact (xi_users xs I u ur Eu).
  - intros r' rr' Er'. rewrite Exb, Hr in Er'. cbn [x_rebuild_role xr xclock]. rewrite !Fc. unfold upd in *.
    destruct (r' =? r) eqn:Err; [|exact (xi_roles xs I r' rr' Er')].
    apply N.eqb_eq in Err. subst r'. subst orr. unfold rebuild_role in E.
    destruct (roles (xb xs) r) as [rr|] eqn:Er; [|discriminate].
    destruct (xi_roles xs I r rr Er) as [H1 [Hh Hg]].
    unfold role_deco_rebuilt. rewrite Er.
    destruct (r_del rr) eqn:Ed.
    + inversion E as [[E1 E2]]. subst rr'. split; [exact H1|]. split; [exact Hh|]. intros; congruence.
    + inversion E as [[E1 E2]]. clear E. destruct (Hg eq_refl) as [Gc Sc]. cbn [r_del r_xch r_ch].
      split; [exact H1|].
      destruct (r_ch rr) as [l|] eqn:El.
      * split; [exact Hh|]. intros _. split; [exact Gc | intros _; apply Sc; discriminate].
      * assert (G' : gc_ok (xclock xs) (r_xch rr) (Some (compute_chans (xb xs) (PR r) (r_xch rr)))
                          (rebuild_gc (xr xs r) (tcompute_chans xs (PR r) (g_x (xr xs r))))).
        { apply rebuild_gc_ok; [exact Gc | apply tcompute_chans_pos; [exact I | apply (gk_xpos _ _ _ _ Gc)] | |].
          - intros e He. eapply tcompute_chans_le; [exact I | lia | exact H1 | apply (gk_xle _ _ _ _ Gc) | exact He].
          - rewrite (keys_tcompute_chans xs (PR r) _ I), (gk_x _ _ _ _ Gc). reflexivity. }
        split; [apply (gk_hle _ _ _ _ G')|]. intros _. split; [exact G' | intros _ c; reflexivity].
Qed.

Lemma fold_rebuild_role_XInv ro : forall xs, XInv xs -> XInv (fold_left x_rebuild_role ro xs).
Proof.
  induction ro as [|r ro IH]; intros xs I; cbn [fold_left]; [exact I | apply IH, x_rebuild_role_XInv, I].
Qed.

Lemma x_load_user_XInv xs u : XInv xs -> XInv (x_load_user xs u).
Proof. intros I. unfold x_load_user. apply fold_rebuild_role_XInv, x_rebuild_user_XInv, I. Qed.

(* ================= preservation: document write ================= *)
Lemma put_shape st d parent r b :
  b <> BReject -> existsb (fun l => rev_eqb (l_rev l) r) (d_leaves (docs st d)) = false ->
  let dr := docs st d in
  let lv := new_leaves st d parent r b in
  let ids' := if mem d (ids st) then ids st else d :: ids st in
  fst (put st d parent r b) =
  if same_winner (winner (d_leaves dr)) (winner lv)
  then mkS (upd (docs st) d (mkD lv (d_acc dr) (d_rol dr))) ids' (users st) (roles st)
  else mkS (upd (docs st) d (mkD lv (v_acc (wverdict lv)) (v_rol (wverdict lv)))) ids'
           (inval_users (changed_keys pid_eqb (d_acc dr) (v_acc (wverdict lv)))
                        (changed_keys N.eqb (d_rol dr) (v_rol (wverdict lv))) (users st))
           (inval_rolemap (changed_keys pid_eqb (d_acc dr) (v_acc (wverdict lv))) (roles st)).
Proof.
  intros Hb Hd. cbv zeta. unfold put, new_leaves. destruct b as [v| |]; [| |congruence]; rewrite Hd; destruct (same_winner _ _); reflexivity.
Qed.

Lemma erase_map_nil {K} (m : list (K * tset)) : erase_map m = [] -> m = [].
Proof. destruct m; [reflexivity | discriminate]. Qed.

Lemma deco_nil_outside_ids xs d : XInv xs -> ~ In d (ids (xb xs)) -> xdacc xs d = [] /\ xdrol xs d = [].
Proof.
  intros I Hn. pose proof (xi_base xs I) as Ib.
  assert (El : d_leaves (docs (xb xs) d) = []).
  { destruct (d_leaves (docs (xb xs) d)) eqn:E; [reflexivity|]. exfalso. apply Hn. apply (inv_ids _ Ib). rewrite E. discriminate. }
  split; apply erase_map_nil.
  - rewrite (xi_dacc xs I d), (inv_acc _ Ib d), El. reflexivity.
  - rewrite (xi_drol xs I d), (inv_rol _ Ib d), El. reflexivity.
Qed.

Lemma since_flat_map_upd (ids0 : list N) (f f' : N -> tset) d c :
  (forall x, x <> d -> f' x = f x) -> since (f' d) c = since (f d) c -> (~ In d ids0 -> f d = []) ->
  since (flat_map f' (if mem d ids0 then ids0 else d :: ids0)) c = since (flat_map f ids0) c.
Proof.
  intros Hne Hd Hnil.
  assert (Hext : since (flat_map f' ids0) c = since (flat_map f ids0) c).
  { apply since_flat_map_ext. intros x _. destruct (N.eq_dec x d) as [->|Hx]; [exact Hd | rewrite (Hne x Hx); reflexivity]. }
  destruct (mem d ids0) eqn:Em; [exact Hext|].
  cbn [flat_map]. rewrite since_app, Hd, Hnil; [exact Hext|]. intros Hin. apply mem_In in Hin. congruence.
Qed.

Lemma tcompute_chans_since_put xs xs' d p x c :
  XInv xs ->
  ids (xb xs') = (if mem d (ids (xb xs)) then ids (xb xs) else d :: ids (xb xs)) ->
  (forall d0, d0 <> d -> xdacc xs' d0 = xdacc xs d0) ->
  since (tgrants pid_eqb (xdacc xs' d) p) c = since (tgrants pid_eqb (xdacc xs d) p) c ->
  since (tcompute_chans xs' p x) c = since (tcompute_chans xs p x) c.
Proof.
  intros I Hi Hne Hd. unfold tcompute_chans, tdoc_chan. rewrite !since_app, Hi. f_equal. f_equal.
  apply (since_flat_map_upd (ids (xb xs)) (fun d0 => tgrants pid_eqb (xdacc xs d0) p) (fun d0 => tgrants pid_eqb (xdacc xs' d0) p)).
  - intros y Hy. rewrite (Hne y Hy). reflexivity.
  - exact Hd.
  - intros Hn. rewrite (proj1 (deco_nil_outside_ids xs d I Hn)). reflexivity.
Qed.

Lemma tcompute_roles_since_put xs xs' d u x c :
  XInv xs ->
  ids (xb xs') = (if mem d (ids (xb xs)) then ids (xb xs) else d :: ids (xb xs)) ->
  (forall d0, d0 <> d -> xdrol xs' d0 = xdrol xs d0) ->
  since (tgrants N.eqb (xdrol xs' d) u) c = since (tgrants N.eqb (xdrol xs d) u) c ->
  since (tcompute_roles xs' u x) c = since (tcompute_roles xs u x) c.
Proof.
  intros I Hi Hne Hd. unfold tcompute_roles, tdoc_role. rewrite !since_app, Hi. f_equal.
  apply (since_flat_map_upd (ids (xb xs)) (fun d0 => tgrants N.eqb (xdrol xs d0) u) (fun d0 => tgrants N.eqb (xdrol xs' d0) u)).
  - intros y Hy. rewrite (Hne y Hy). reflexivity.
  - exact Hd.
  - intros Hn. rewrite (proj2 (deco_nil_outside_ids xs d I Hn)). reflexivity.
Qed.

Lemma tmap_le_mono {K} (m : list (K * tset)) n n' : n <= n' -> tmap_le m n -> tmap_le m n'.
Proof. intros Hle H e x He Hx. specialize (H e x He Hx). lia. Qed.

Lemma upd_same {A} (f : N -> A) k v : upd f k v k = v.
Proof. unfold upd. rewrite N.eqb_refl. reflexivity. Qed.

Lemma upd_other {A} (f : N -> A) k v x : x <> k -> upd f k v x = f x.
Proof. intros H. unfold upd. destruct (N.eqb_spec x k); [contradiction | reflexivity]. Qed.

Lemma x_put_XInv xs d parent r q b s : XInv xs -> xclock xs < s -> XInv (x_put xs d parent r q b s).
Proof.
  intros I Hs. pose proof (xi_base xs I) as Ib.
  pose proof (put_Inv (xb xs) d parent r b Ib) as Ip.
  unfold x_put.
  assert (Hgen : b <> BReject ->
    XInv (if existsb (fun l => rev_eqb (l_rev l) r) (d_leaves (docs (xb xs) d)) then xs
          else
            let st' := fst (put (xb xs) d parent r b) in
            let lv := new_leaves (xb xs) d parent r b in
            let xreq' := upd (xreq xs) d ((r, match b with BLive _ => q | _ => RNone end) :: xreq xs d) in
            if same_winner (winner (d_leaves (docs (xb xs) d))) (winner lv)
            then mkX st' (xdef xs) s xreq' (xdacc xs) (xdrol xs) (xu xs) (xr xs)
            else
              let v := wverdict lv in
              let ca := changed_keys pid_eqb (d_acc (docs (xb xs) d)) (v_acc v) in
              let cr := changed_keys N.eqb (d_rol (docs (xb xs) d)) (v_rol v) in
              mkX st' (xdef xs) s xreq'
                  (upd (xdacc xs) d (stamp pid_eqb (xdacc xs d) (v_acc v) s))
                  (upd (xdrol xs) d (stamp N.eqb (xdrol xs d) (v_rol v) s))
                  (fun u => let ud := xu xs u in
                            match users (xb xs) u with
                            | Some _ => mkUD (if pmem (PU u) ca then inval_gc s (ud_ch ud) else ud_ch ud)
                                             (if mem u cr then inval_gc s (ud_ro ud) else ud_ro ud)
                            | None => ud
                            end)
                  (fun r0 => match roles (xb xs) r0 with
                             | Some _ => if pmem (PR r0) ca then inval_gc s (xr xs r0) else xr xs r0
                             | None => xr xs r0
                             end))).
  { intros Hb. destruct (existsb _ _) eqn:Ed; [exact I|]. cbv zeta.
    pose proof (put_shape (xb xs) d parent r b Hb Ed) as Hsh. cbv zeta in Hsh.
    set (lv := new_leaves (xb xs) d parent r b) in *.
    set (dr := docs (xb xs) d) in *.
    destruct (same_winner (winner (d_leaves dr)) (winner lv)) eqn:Es.
    - (* the winner is the same: nothing but the revision tree and the clock changes *)
      assert (Fc : forall p x c, since (tcompute_chans (mkX (fst (put (xb xs) d parent r b)) (xdef xs) s
                     (upd (xreq xs) d ((r, match b with BLive _ => q | _ => RNone end) :: xreq xs d)) (xdacc xs) (xdrol xs) (xu xs) (xr xs)) p x) c =
                   since (tcompute_chans xs p x) c).
      { intros p x c. apply (tcompute_chans_since_put xs _ d); [exact I | cbn [xb]; rewrite Hsh; reflexivity | reflexivity | reflexivity]. }
      assert (Fr : forall u x c, since (tcompute_roles (mkX (fst (put (xb xs) d parent r b)) (xdef xs) s
                     (upd (xreq xs) d ((r, match b with BLive _ => q | _ => RNone end) :: xreq xs d)) (xdacc xs) (xdrol xs) (xu xs) (xr xs)) u x) c =
                   since (tcompute_roles xs u x) c).
      { intros u x c. apply (tcompute_roles_since_put xs _ d); [exact I | cbn [xb]; rewrite Hsh; reflexivity | reflexivity | reflexivity]. }
      constructor; cbn [xb xdacc xdrol xclock xu xr].
      + exact Ip.
      + intros d0. rewrite Hsh. cbn [docs]. unfold upd. destruct (d0 =? d) eqn:E0; [apply N.eqb_eq in E0; subst d0; cbn [d_acc]|]; apply (xi_dacc xs I).
      + intros d0. rewrite Hsh. cbn [docs]. unfold upd. destruct (d0 =? d) eqn:E0; [apply N.eqb_eq in E0; subst d0; cbn [d_rol]|]; apply (xi_drol xs I).
      + apply (xi_dpos xs I).
      + intros d0. destruct (xi_dle xs I d0). split; eapply tmap_le_mono; try eassumption; lia.
      + intros u ur Eu. rewrite Hsh in Eu. cbn [users] in Eu. destruct (xi_users xs I u ur Eu) as [H1 [Gc [Gr [Sc Sr]]]].
        split; [lia|]. split; [apply (gc_ok_mono (xclock xs)); [lia | exact Gc]|]. split; [apply (gc_ok_mono (xclock xs)); [lia | exact Gr]|].
        split; intros Hv c; rewrite ?Fc, ?Fr; [apply Sc | apply Sr]; exact Hv.
      + intros r0 rr Er. rewrite Hsh in Er. cbn [roles] in Er. destruct (xi_roles xs I r0 rr Er) as [H1 [Hh Hg]].
        split; [lia|]. split; [apply (hist_le_mono _ (xclock xs)); [lia | exact Hh]|].
        intros Hd0. destruct (Hg Hd0) as [Gc Sc]. split; [apply (gc_ok_mono (xclock xs)); [lia | exact Gc]|].
        intros Hv c. rewrite Fc. apply Sc. exact Hv.
    - (* the winner changed: the access maps are restamped, the changed principals invalidated *)
      set (v := wverdict lv) in *.
      set (ca := changed_keys pid_eqb (d_acc dr) (v_acc v)) in *.
      set (cr := changed_keys N.eqb (d_rol dr) (v_rol v)) in *.
      match goal with |- XInv ?X => set (xs' := X) end.
      assert (Hids : ids (xb xs') = (if mem d (ids (xb xs)) then ids (xb xs) else d :: ids (xb xs))) by (subst xs'; cbn [xb]; rewrite Hsh; reflexivity).
      assert (Fc : forall p x c, ~ In p ca -> since (tcompute_chans xs' p x) c = since (tcompute_chans xs p x) c).
      { intros p x c Hp. apply (tcompute_chans_since_put xs xs' d); [exact I | exact Hids | |].
        - intros d0 Hd0. subst xs'. cbn [xdacc]. apply upd_other. exact Hd0.
        - subst xs'. cbn [xdacc]. rewrite upd_same. apply (stamp_since_same pid_eqb pid_eqb_eq); [apply (xi_dpos xs I)|].
          rewrite (xi_dacc xs I d). apply (unchanged_key pid_eqb pid_eqb_eq). exact Hp. }
      assert (Fr : forall u x c, ~ In u cr -> since (tcompute_roles xs' u x) c = since (tcompute_roles xs u x) c).
      { intros u x c Hp. apply (tcompute_roles_since_put xs xs' d); [exact I | exact Hids | |].
        - intros d0 Hd0. subst xs'. cbn [xdrol]. apply upd_other. exact Hd0.
        - subst xs'. cbn [xdrol]. rewrite upd_same. apply (stamp_since_same N.eqb N.eqb_eq); [apply (xi_dpos xs I)|].
          rewrite (xi_drol xs I d). apply (unchanged_key N.eqb N.eqb_eq). exact Hp. }
      constructor.
      + exact Ip.
      + intros d0. subst xs'. cbn [xb xdacc]. rewrite Hsh. cbn [docs]. unfold upd. destruct (d0 =? d) eqn:E0.
        * cbn [d_acc]. apply erase_stamp.
        * apply (xi_dacc xs I).
      + intros d0. subst xs'. cbn [xb xdrol]. rewrite Hsh. cbn [docs]. unfold upd. destruct (d0 =? d) eqn:E0.
        * cbn [d_rol]. apply erase_stamp.
        * apply (xi_drol xs I).
      + intros d0. subst xs'. cbn [xdacc xdrol]. unfold upd. destruct (d0 =? d) eqn:E0; [|apply (xi_dpos xs I)].
        split; apply stamp_pos; try apply (xi_dpos xs I); lia.
      + intros d0. subst xs'. cbn [xdacc xdrol xclock]. unfold upd. destruct (xi_dle xs I d0) as [L1 L2]. destruct (xi_dle xs I d) as [L3 L4].
        destruct (d0 =? d) eqn:E0.
        * split; apply stamp_le; try lia; eapply tmap_le_mono; try eassumption; lia.
        * split; eapply tmap_le_mono; try eassumption; lia.
      + intros u ur' Eu'. subst xs'. cbn [xb] in Eu'. rewrite Hsh in Eu'. cbn [users] in Eu'. unfold inval_users in Eu'.
        destruct (users (xb xs) u) as [ur|] eqn:Eu; [|discriminate]. inversion Eu' as [E']. clear Eu'.
        destruct (xi_users xs I u ur Eu) as [H1 [Gc [Gr [Sc Sr]]]].
        cbn [xclock xu]. rewrite Eu. cbn [ud_ch ud_ro u_xch u_ch u_xro u_ro].
        split; [lia|]. split; [|split; [|split]].
        * destruct (pmem (PU u) ca); [eapply (inval_gc_ok (xclock xs)); eassumption | apply (gc_ok_mono (xclock xs)); [lia | exact Gc]].
        * destruct (mem u cr); [eapply (inval_gc_ok (xclock xs)); eassumption | apply (gc_ok_mono (xclock xs)); [lia | exact Gr]].
        * destruct (pmem (PU u) ca) eqn:Ep; [intros H; congruence|]. intros Hv c.
          fold ca cr. rewrite Fc; [apply Sc; exact Hv|]. intros Hin. apply pmem_In in Hin. congruence.
        * destruct (mem u cr) eqn:Ep; [intros H; congruence|]. intros Hv c.
          fold ca cr. rewrite Fr; [apply Sr; exact Hv|]. intros Hin. apply mem_In in Hin. congruence.
      + intros r0 rr' Er'. subst xs'. cbn [xb] in Er'. rewrite Hsh in Er'. cbn [roles] in Er'. unfold inval_rolemap in Er'.
        destruct (roles (xb xs) r0) as [rr|] eqn:Er; [|discriminate]. inversion Er' as [E']. clear Er'.
        destruct (xi_roles xs I r0 rr Er) as [H1 [Hh Hg]].
        cbn [xclock xr]. rewrite Er. cbn [r_del r_xch r_ch].
        split; [lia|]. split.
        * destruct (pmem (PR r0) ca); [|apply (hist_le_mono _ (xclock xs)); [lia | exact Hh]].
          unfold inval_gc. destruct (g_inv (xr xs r0) =? 0); cbn [g_hist]; apply (hist_le_mono _ (xclock xs)); try lia; exact Hh.
        * intros Hd0. destruct (Hg Hd0) as [Gc Sc]. split.
          -- destruct (pmem (PR r0) ca); [eapply (inval_gc_ok (xclock xs)); eassumption | apply (gc_ok_mono (xclock xs)); [lia | exact Gc]].
          -- destruct (pmem (PR r0) ca) eqn:Ep; [intros H; congruence|]. intros Hv c.
             fold ca. rewrite Fc; [apply Sc; exact Hv|]. intros Hin. apply pmem_In in Hin. congruence. }
  destruct b as [v| |]; [apply Hgen; discriminate | apply Hgen; discriminate | exact I].
Qed.

(* ================= preservation: edits of a loaded principal ================= *)
Lemma fresh_gc_ok s l comp hist0 :
  all_pos comp -> (forall e, In e comp -> snd e <= s) -> keys comp = l -> hist_le hist0 s ->
  gc_ok s [] (Some l) (mkG [] comp 0 hist0).
Proof.
  intros P L K H. constructor; cbn [g_x g_c g_inv g_hist].
  - reflexivity.
  - apply all_pos_nil.
  - intros e [].
  - exact P.
  - exact L.
  - exact H.
  - lia.
  - intros l0 E. inversion E. subst. split; reflexivity.
  - discriminate.
Qed.

(* one cache under UpdatePrincipal: unchanged, or restamped and invalidated at the new sequence *)
Lemma edit_cache clock1 clock' s xl l g (new : option (list N)) (src : tset -> tset) :
  gc_ok clock1 xl (Some l) g -> clock1 <= clock' -> clock' <= s -> 0 < s ->
  (forall e, In e (g_c g) -> snd e < s \/ e = (pub, 1)) ->
  since_eq (g_c g) (src (g_x g)) ->
  let chg := match new with Some c => negb (set_eqb c xl) | None => false end in
  (chg = true -> clock' = s) ->
  let g' := match new with Some c => if chg then edit_gc g c s else g | None => g end in
  let xl' := match new with Some c => if set_eqb c xl then xl else c | None => xl end in
  let cached' := match new with Some c => if set_eqb c xl then Some l else None | None => Some l end in
  gc_ok clock' xl' cached' g' /\ (cached' <> None -> since_eq (g_c g') (src (g_x g'))).
Proof.
  intros G H1 H2 Hs Hlt Hsrc chg Hchg g' xl' cached'.
  assert (Same : gc_ok clock' xl (Some l) g /\ (Some l <> None -> since_eq (g_c g) (src (g_x g)))).
  { split; [apply (gc_ok_mono clock1); assumption | intros _; exact Hsrc]. }
  destruct new as [c|]; [|exact Same]. subst chg g' xl' cached'. destruct (set_eqb c xl) eqn:E; cbn [negb] in *; [exact Same|].
  rewrite (Hchg eq_refl). split; [|intros H; congruence].
  apply edit_gc_ok; try assumption.
  - apply (gk_xpos _ _ _ _ G).
  - intros e He. pose proof (gk_xle _ _ _ _ G e He). lia.
  - apply (gk_cpos _ _ _ _ G).
  - apply (hist_le_mono _ clock1); [lia | apply (gk_hle _ _ _ _ G)].
Qed.

Lemma x_edit_user_XInv xs u chans roles_ s :
  XInv xs -> xclock xs < s ->
  (forall ur, users (xb xs) u = Some ur -> u_ch ur <> None /\ u_ro ur <> None) ->
  Inv (xb (x_edit_user xs u chans roles_ s)) ->
  XInv (x_edit_user xs u chans roles_ s).
Proof.
  intros I Hs Hvalid Ib'. pose proof (xi_base xs I) as Ib.
  set (xs' := x_edit_user xs u chans roles_ s) in *.
  assert (Hclk : xclock xs <= xclock xs' /\ xclock xs' <= s).
  { subst xs'. unfold x_edit_user. cbn [xclock]. destruct (_ || _); lia. }
  assert (Fc : forall p x, tcompute_chans xs' p x = tcompute_chans xs p x) by (intros; apply tcompute_chans_frame; reflexivity).
  assert (Fr : forall p x, tcompute_roles xs' p x = tcompute_roles xs p x) by (intros; apply tcompute_roles_frame; reflexivity).
  constructor.
  - exact Ib'.
  - apply (xi_dacc xs I).
  - apply (xi_drol xs I).
  - apply (xi_dpos xs I).
  - intros d0. destruct (xi_dle xs I d0). split; eapply tmap_le_mono; try eassumption; apply Hclk.
  - intros u' ur' Eu'. rewrite !Fc, !Fr.
    assert (Exu : xu xs' u' = if u' =? u then xu xs' u else xu xs u').
    { subst xs'. unfold x_edit_user. cbn [xu]. unfold upd. destruct (u' =? u) eqn:E; [rewrite N.eqb_refl|]; reflexivity. }
    assert (Eus : users (xb xs') u' = if u' =? u then users (xb xs') u else users (xb xs) u').
    { subst xs'. unfold x_edit_user. cbn [xb set_users users]. unfold upd. destruct (u' =? u) eqn:E; [rewrite N.eqb_refl|]; reflexivity. }
    rewrite Eus in Eu'. rewrite Exu. destruct (u' =? u) eqn:Euu.
    + apply N.eqb_eq in Euu. subst u'. clear Exu Eus.
      (* the edited user *)
      subst xs'. unfold x_edit_user in *. cbn [xb xu xclock set_users users] in *. rewrite upd_same in Eu'. rewrite upd_same.
      inversion Eu' as [Eur]. clear Eu'.
      set (isnew := match users (xb xs) u with Some _ => false | None => true end) in *.
      set (ur := match users (xb xs) u with Some ur => ur | None => mkU [] (Some (compute_chans (xb xs) (PU u) [])) [] (Some (compute_roles (xb xs) u [])) end) in *.
      set (ud0 := if isnew then mkUD (mkG [] (tcompute_chans xs (PU u) []) 0 []) (mkG [] (tcompute_roles xs u []) 0 []) else xu xs u) in *.
      set (clock1 := if isnew then s else xclock xs).
      assert (Base : 1 <= s /\ clock1 <= s /\
                (exists l, u_ch ur = Some l /\ gc_ok clock1 (u_xch ur) (Some l) (ud_ch ud0)) /\
                (exists l, u_ro ur = Some l /\ gc_ok clock1 (u_xro ur) (Some l) (ud_ro ud0)) /\
                (forall e, In e (g_c (ud_ch ud0)) -> snd e < s \/ e = (pub, 1)) /\
                (forall e, In e (g_c (ud_ro ud0)) -> snd e < s \/ e = (pub, 1)) /\
                since_eq (g_c (ud_ch ud0)) (tcompute_chans xs (PU u) (g_x (ud_ch ud0))) /\
                since_eq (g_c (ud_ro ud0)) (tcompute_roles xs u (g_x (ud_ro ud0))) /\
                (isnew = false -> 1 <= xclock xs)).
      { subst isnew ur ud0 clock1. destruct (users (xb xs) u) as [ur0|] eqn:Eu.
        - destruct (xi_users xs I u ur0 Eu) as [H1 [Gc [Gr [Sc Sr]]]]. destruct (Hvalid ur0 eq_refl) as [V1 V2].
          destruct (u_ch ur0) as [l1|] eqn:E1; [|congruence]. destruct (u_ro ur0) as [l2|] eqn:E2; [|congruence].
          split; [lia|]. split; [lia|]. split; [exists l1; split; [reflexivity | exact Gc]|]. split; [exists l2; split; [reflexivity | exact Gr]|].
          split; [intros e He; left; pose proof (gk_cle _ _ _ _ Gc e He); lia|].
          split; [intros e He; left; pose proof (gk_cle _ _ _ _ Gr e He); lia|].
          split; [apply Sc; discriminate|]. split; [apply Sr; discriminate | intros _; exact H1].
        - cbn [ud_ch ud_ro g_x g_c u_ch u_ro u_xch u_xro].
          split; [lia|]. split; [lia|]. split; [|split; [|split; [|split; [|split; [|split]]]]].
          + eexists. split; [reflexivity|]. apply fresh_gc_ok.
            * apply tcompute_chans_pos; [exact I | apply all_pos_nil].
            * intros e He. apply (tcompute_chans_le xs (PU u) [] s e I); [lia | lia | intros y [] | exact He].
            * rewrite (keys_tcompute_chans xs (PU u) [] I). reflexivity.
            * intros e [].
          + eexists. split; [reflexivity|]. apply fresh_gc_ok.
            * apply tcompute_roles_pos; [exact I | apply all_pos_nil].
            * intros e He. apply (tcompute_roles_le xs u [] s e I); [lia | intros y [] | exact He].
            * rewrite (keys_tcompute_roles xs u [] I). reflexivity.
            * intros e [].
          + intros e He. apply (tcompute_chans_lt xs (PU u) [] s e I Hs); [intros y [] | exact He].
          + intros e He. left. pose proof (tcompute_roles_le xs u [] (xclock xs) e I (N.le_refl _) (fun y (H : In y []) => match H with end) He). lia.
          + intros c. reflexivity.
          + intros c. reflexivity.
          + discriminate. }
      destruct Base as [Hs1 [Hc1 [[l1 [El1 Gc]] [[l2 [El2 Gr]] [Ltc [Ltr [Sc [Sr Hnew]]]]]]]].
      set (clock' := if isnew || match chans with Some c => negb (set_eqb c (u_xch ur)) | None => false end ||
                                match roles_ with Some r => negb (set_eqb r (u_xro ur)) | None => false end then s else xclock xs) in *.
      assert (Hc1' : clock1 <= clock').
      { subst clock1 clock'. destruct isnew; cbn [orb]; [lia|]. destruct (_ || _); lia. }
      pose proof (edit_cache clock1 clock' s (u_xch ur) l1 (ud_ch ud0) chans (tcompute_chans xs (PU u)) Gc Hc1' (proj2 Hclk) ltac:(lia) Ltc Sc) as Ec.
      pose proof (edit_cache clock1 clock' s (u_xro ur) l2 (ud_ro ud0) roles_ (tcompute_roles xs u) Gr Hc1' (proj2 Hclk) ltac:(lia) Ltr Sr) as Er.
      cbv zeta in Ec, Er.
      assert (Hcc : match chans with Some c => negb (set_eqb c (u_xch ur)) | None => false end = true -> clock' = s).
      { intros H. subst clock'. rewrite H, orb_true_r. reflexivity. }
      assert (Hcr : match roles_ with Some r => negb (set_eqb r (u_xro ur)) | None => false end = true -> clock' = s).
      { intros H. subst clock'. rewrite H, !orb_true_r. reflexivity. }
      specialize (Ec Hcc). specialize (Er Hcr). destruct Ec as [Gc' Sc']. destruct Er as [Gr' Sr'].
      split.
      { subst clock'. destruct isnew eqn:En; cbn [orb]; [lia|]. specialize (Hnew eq_refl). destruct (_ || _); lia. }
      try subst ur'. cbn [ud_ch ud_ro].
      (* the fields of the edited record *)
      assert (Ef : let ur1 := match chans with Some c => if set_eqb c (u_xch ur) then ur else mkU c None (u_xro ur) (u_ro ur) | None => ur end in
                   u_xro ur1 = u_xro ur /\ u_ro ur1 = u_ro ur /\
                   u_xch ur1 = match chans with Some c => if set_eqb c (u_xch ur) then u_xch ur else c | None => u_xch ur end /\
                   u_ch ur1 = match chans with Some c => if set_eqb c (u_xch ur) then Some l1 else None | None => Some l1 end).
      { cbv zeta. destruct chans as [c|]; [destruct (set_eqb c (u_xch ur))|]; cbn [u_xch u_ch u_xro u_ro]; auto. }
      cbv zeta in Ef. destruct Ef as [Ef1 [Ef2 [Ef3 Ef4]]].
      set (ur1 := match chans with Some c => if set_eqb c (u_xch ur) then ur else mkU c None (u_xro ur) (u_ro ur) | None => ur end) in *.
      assert (Eg : let ur2 := match roles_ with Some r => if set_eqb r (u_xro ur1) then ur1 else mkU (u_xch ur1) (u_ch ur1) r None | None => ur1 end in
                   u_xch ur2 = u_xch ur1 /\ u_ch ur2 = u_ch ur1 /\
                   u_xro ur2 = match roles_ with Some r => if set_eqb r (u_xro ur) then u_xro ur else r | None => u_xro ur end /\
                   u_ro ur2 = match roles_ with Some r => if set_eqb r (u_xro ur) then Some l2 else None | None => Some l2 end).
      { cbv zeta. rewrite Ef1. destruct roles_ as [r0|]; [destruct (set_eqb r0 (u_xro ur))|]; cbn [u_xch u_ch u_xro u_ro]; rewrite ?Ef1, ?Ef2, ?El2; auto. }
      cbv zeta in Eg. destruct Eg as [Eg1 [Eg2 [Eg3 Eg4]]].
      rewrite Eg1, Eg2, Eg3, Eg4, Ef3, Ef4.
      split; [exact Gc'|]. split; [exact Gr'|]. split; [exact Sc' | exact Sr'].
    + (* another user *)
      destruct (xi_users xs I u' ur' Eu') as [H1 [Gc [Gr [Sc Sr]]]].
      split; [lia|]. split; [apply (gc_ok_mono (xclock xs)); [apply Hclk | exact Gc]|].
      split; [apply (gc_ok_mono (xclock xs)); [apply Hclk | exact Gr]|]. split; assumption.
  - intros r0 rr Er. rewrite !Fc.
    assert (Er' : roles (xb xs) r0 = Some rr) by exact Er.
    assert (Exr : xr xs' r0 = xr xs r0) by reflexivity. rewrite Exr.
    destruct (xi_roles xs I r0 rr Er') as [H1 [Hh Hg]].
    split; [lia|]. split; [apply (hist_le_mono _ (xclock xs)); [apply Hclk | exact Hh]|].
    intros Hd0. destruct (Hg Hd0) as [Gc Sc]. split; [apply (gc_ok_mono (xclock xs)); [apply Hclk | exact Gc] | exact Sc].
Qed.

Lemma valid_after_rebuild_user st u ur :
  users (fst (rebuild_user st u)) u = Some ur -> u_ch ur <> None /\ u_ro ur <> None.
Proof.
  rewrite users_after_rebuild. unfold rebuild_user. destruct (users st u) as [ur0|]; cbn [snd]; [|discriminate].
  intros E. inversion E. cbn [u_ch u_ro]. split; discriminate.
Qed.

Lemma x_set_user_XInv xs u c r s : XInv xs -> xclock xs < s -> XInv (x_set_user xs u c r s).
Proof.
  intros I Hs. unfold x_set_user. apply x_edit_user_XInv.
  - apply x_rebuild_user_XInv. exact I.
  - exact Hs.
  - intros ur. apply valid_after_rebuild_user.
  - fold (x_set_user xs u c r s). rewrite xb_set_user. apply set_user_Inv. apply (xi_base xs I).
Qed.

Lemma x_edit_role_XInv xs r chans s :
  XInv xs -> xclock xs < s ->
  (forall rr, roles (xb xs) r = Some rr -> r_del rr = false -> r_ch rr <> None) ->
  Inv (xb (x_edit_role xs r chans s)) ->
  XInv (x_edit_role xs r chans s).
Proof.
  intros I Hs Hvalid Ib'. pose proof (xi_base xs I) as Ib.
  set (xs' := x_edit_role xs r chans s) in *.
  assert (Hclk : xclock xs <= xclock xs' /\ xclock xs' <= s).
  { subst xs'. unfold x_edit_role, x_edit_role_with. cbn [xclock]. destruct (_ || _); lia. }
  assert (Fc : forall p x, tcompute_chans xs' p x = tcompute_chans xs p x) by (intros; apply tcompute_chans_frame; reflexivity).
  assert (Fr : forall p x, tcompute_roles xs' p x = tcompute_roles xs p x) by (intros; apply tcompute_roles_frame; reflexivity).
  constructor.
  - exact Ib'.
  - apply (xi_dacc xs I).
  - apply (xi_drol xs I).
  - apply (xi_dpos xs I).
  - intros d0. destruct (xi_dle xs I d0). split; eapply tmap_le_mono; try eassumption; apply Hclk.
  - intros u ur Eu. rewrite !Fc, !Fr.
    assert (Eu' : users (xb xs) u = Some ur) by exact Eu.
    assert (Exu : xu xs' u = xu xs u) by reflexivity. rewrite Exu.
    destruct (xi_users xs I u ur Eu') as [H1 [Gc [Gr [Sc Sr]]]].
    split; [lia|]. split; [apply (gc_ok_mono (xclock xs)); [apply Hclk | exact Gc]|].
    split; [apply (gc_ok_mono (xclock xs)); [apply Hclk | exact Gr]|]. split; assumption.
  - intros r' rr' Er'. rewrite !Fc.
    assert (Exr : xr xs' r' = if r' =? r then xr xs' r else xr xs r').
    { subst xs'. unfold x_edit_role, x_edit_role_with. cbn [xr]. unfold upd. destruct (r' =? r) eqn:E; [rewrite N.eqb_refl|]; reflexivity. }
    assert (Ers : roles (xb xs') r' = if r' =? r then roles (xb xs') r else roles (xb xs) r').
    { subst xs'. unfold x_edit_role, x_edit_role_with. cbn [xb set_roles roles]. unfold upd. destruct (r' =? r) eqn:E; [rewrite N.eqb_refl|]; reflexivity. }
    rewrite Ers in Er'. rewrite Exr. destruct (r' =? r) eqn:Err.
    + apply N.eqb_eq in Err. subst r'. clear Exr Ers.
      subst xs'. unfold x_edit_role, x_edit_role_with in *. cbn [xb xr xclock set_roles roles] in *. rewrite upd_same in Er'. rewrite upd_same.
      inversion Er' as [Err]. clear Er'.
      set (live_ := match roles (xb xs) r with Some rr => negb (r_del rr) | None => false end) in *.
      set (kept := match roles (xb xs) r with Some rr => if r_del rr && (xdef xs || recreate_keeps_named_history) then g_hist (xr xs r) else [] | None => [] end) in *.
      set (fresh := mkR false [] (Some (compute_chans (xb xs) (PR r) []))) in *.
      set (rr := match roles (xb xs) r with Some rr => if r_del rr then fresh else rr | None => fresh end) in *.
      set (g0 := if live_ then xr xs r else mkG [] (tcompute_chans xs (PR r) []) 0 kept) in *.
      set (clock1 := if live_ then xclock xs else s).
      assert (Base : 1 <= s /\ clock1 <= s /\ r_del rr = false /\
                (exists l, r_ch rr = Some l /\ gc_ok clock1 (r_xch rr) (Some l) g0) /\
                (forall e, In e (g_c g0) -> snd e < s \/ e = (pub, 1)) /\
                since_eq (g_c g0) (tcompute_chans xs (PR r) (g_x g0)) /\
                (live_ = true -> 1 <= xclock xs)).
      { assert (Hfresh : forall k, hist_le k s ->
                  1 <= s /\ s <= s /\ r_del fresh = false /\
                  (exists l, r_ch fresh = Some l /\ gc_ok s (r_xch fresh) (Some l) (mkG [] (tcompute_chans xs (PR r) []) 0 k)) /\
                  (forall e, In e (g_c (mkG [] (tcompute_chans xs (PR r) []) 0 k)) -> snd e < s \/ e = (pub, 1)) /\
                  since_eq (g_c (mkG [] (tcompute_chans xs (PR r) []) 0 k)) (tcompute_chans xs (PR r) (g_x (mkG [] (tcompute_chans xs (PR r) []) 0 k))) /\
                  (false = true -> 1 <= xclock xs)).
        { intros k Hk. subst fresh. cbn [r_del r_ch r_xch g_c g_x]. split; [lia|]. split; [lia|]. split; [reflexivity|]. split; [|split; [|split]].
          - eexists. split; [reflexivity|]. apply fresh_gc_ok.
            + apply tcompute_chans_pos; [exact I | apply all_pos_nil].
            + intros e He. apply (tcompute_chans_le xs (PR r) [] s e I); [lia | lia | intros y [] | exact He].
            + rewrite (keys_tcompute_chans xs (PR r) [] I). reflexivity.
            + exact Hk.
          - intros e He. apply (tcompute_chans_lt xs (PR r) [] s e I Hs); [intros y [] | exact He].
          - intros c. reflexivity.
          - discriminate. }
        subst live_ kept rr g0 clock1. destruct (roles (xb xs) r) as [rr0|] eqn:Er.
        - destruct (xi_roles xs I r rr0 Er) as [H1 [Hh Hg]]. destruct (r_del rr0) eqn:Ed; cbn [negb andb].
          + apply Hfresh. destruct (xdef xs || recreate_keeps_named_history); [apply (hist_le_mono _ (xclock xs)); [lia | exact Hh] | intros e []].
          + destruct (Hg eq_refl) as [Gc Sc]. pose proof (Hvalid rr0 eq_refl Ed) as V.
            destruct (r_ch rr0) as [l|] eqn:El; [|congruence].
            split; [lia|]. split; [lia|]. split; [exact Ed|]. split; [exists l; split; [reflexivity | exact Gc]|].
            split; [intros e He; left; pose proof (gk_cle _ _ _ _ Gc e He); lia|].
            split; [apply Sc; discriminate | intros _; exact H1].
        - apply Hfresh. intros e []. }
      destruct Base as [Hs1 [Hc1 [Hdel [[l1 [El1 Gc]] [Ltc [Sc Hlive]]]]]].
      set (clock' := if negb live_ || match chans with Some c => negb (set_eqb c (r_xch rr)) | None => false end then s else xclock xs) in *.
      assert (Hc1' : clock1 <= clock').
      { subst clock1 clock'. destruct live_; cbn [negb orb]; [|lia]. destruct chans as [c0|]; [destruct (set_eqb c0 (r_xch rr))|]; cbn [negb]; lia. }
      pose proof (edit_cache clock1 clock' s (r_xch rr) l1 g0 chans (tcompute_chans xs (PR r)) Gc Hc1' (proj2 Hclk) ltac:(lia) Ltc Sc) as Ec.
      cbv zeta in Ec.
      assert (Hcc : match chans with Some c => negb (set_eqb c (r_xch rr)) | None => false end = true -> clock' = s).
      { intros H. subst clock'. rewrite H, orb_true_r. reflexivity. }
      specialize (Ec Hcc). destruct Ec as [Gc' Sc'].
      assert (Ef : let rr1 := match chans with Some c => if set_eqb c (r_xch rr) then rr else mkR false c None | None => rr end in
                   r_del rr1 = false /\
                   r_xch rr1 = match chans with Some c => if set_eqb c (r_xch rr) then r_xch rr else c | None => r_xch rr end /\
                   r_ch rr1 = match chans with Some c => if set_eqb c (r_xch rr) then Some l1 else None | None => Some l1 end).
      { cbv zeta. destruct chans as [c|]; [destruct (set_eqb c (r_xch rr))|]; cbn [r_del r_xch r_ch]; auto. }
      cbv zeta in Ef. destruct Ef as [Ef1 [Ef2 Ef3]].
      split.
      { subst clock'. destruct live_ eqn:En; cbn [negb orb]; [|lia]. specialize (Hlive eq_refl). destruct chans as [c0|]; [destruct (set_eqb c0 (r_xch rr))|]; cbn [negb]; lia. }
      try subst rr'. split; [apply (gk_hle _ _ _ _ Gc')|]. intros _. rewrite Ef2, Ef3. split; [exact Gc' | exact Sc'].
    + destruct (xi_roles xs I r' rr' Er') as [H1 [Hh Hg]].
      split; [lia|]. split; [apply (hist_le_mono _ (xclock xs)); [apply Hclk | exact Hh]|].
      intros Hd0. destruct (Hg Hd0) as [Gc Sc]. split; [apply (gc_ok_mono (xclock xs)); [apply Hclk | exact Gc] | exact Sc].
Qed.

Lemma valid_after_rebuild_role st r rr :
  roles (fst (rebuild_role st r)) r = Some rr -> r_del rr = false -> r_ch rr <> None.
Proof.
  rewrite roles_after_rebuild. unfold rebuild_role. destruct (roles st r) as [rr0|]; [|discriminate].
  destruct (r_del rr0) eqn:Ed; cbn [snd]; intros E; inversion E; subst; [congruence|]. cbn [r_ch]. discriminate.
Qed.

Lemma x_set_role_XInv xs r c s : XInv xs -> xclock xs < s -> XInv (x_set_role xs r c s).
Proof.
  intros I Hs. unfold x_set_role. apply x_edit_role_XInv.
  - apply x_rebuild_role_XInv. exact I.
  - exact Hs.
  - intros rr. apply valid_after_rebuild_role.
  - fold (x_set_role xs r c s). rewrite xb_set_role. apply set_role_Inv. apply (xi_base xs I).
Qed.

Lemma x_mark_deleted_XInv xs r p s :
  XInv xs -> xclock xs < s -> Inv (xb (x_mark_deleted xs r p s)) -> XInv (x_mark_deleted xs r p s).
Proof.
  intros I Hs Ib'. unfold x_mark_deleted in *. destruct (roles (xb xs) r) as [rr|] eqn:Er; [|exact I].
  destruct (r_del rr) eqn:Ed; [exact I|]. destruct (xi_roles xs I r rr Er) as [H1 [Hh Hg]]. destruct (Hg Ed) as [Gc _].
  destruct p.
  - (* purge *)
    constructor; cbn [xb xdacc xdrol xclock xu xr set_roles docs users roles] in *.
    + exact Ib'.
    + apply (xi_dacc xs I).
    + apply (xi_drol xs I).
    + apply (xi_dpos xs I).
    + apply (xi_dle xs I).
    + intros u ur Eu. exact (xi_users xs I u ur Eu).
    + intros r' rr' Er'. unfold upd in *. destruct (r' =? r) eqn:E; [discriminate|]. exact (xi_roles xs I r' rr' Er').
  - (* soft delete: history entries for every current channel, invalidated at s *)
    constructor; cbn [xb xdacc xdrol xclock xu xr set_roles docs users roles] in *.
    + exact Ib'.
    + apply (xi_dacc xs I).
    + apply (xi_drol xs I).
    + apply (xi_dpos xs I).
    + intros d0. destruct (xi_dle xs I d0). split; eapply tmap_le_mono; try eassumption; lia.
    + intros u ur Eu. destruct (xi_users xs I u ur Eu) as [A [B [C [D E]]]].
      split; [lia|]. split; [apply (gc_ok_mono (xclock xs)); [lia | exact B]|]. split; [apply (gc_ok_mono (xclock xs)); [lia | exact C]|]. split; assumption.
    + intros r' rr' Er'. unfold upd in *. destruct (r' =? r) eqn:E.
      * inversion Er'. subst rr'. cbn [r_del g_hist]. split; [lia|]. split; [|intros; congruence].
        apply calc_history_le; [apply (hist_le_mono _ (xclock xs)); [lia | exact Hh] | lia|].
        intros e He. pose proof (gk_cle _ _ _ _ Gc e He). lia.
      * destruct (xi_roles xs I r' rr' Er') as [A [B C]]. split; [lia|]. split; [apply (hist_le_mono _ (xclock xs)); [lia | exact B]|].
        intros Hd0. destruct (C Hd0) as [G S]. split; [apply (gc_ok_mono (xclock xs)); [lia | exact G] | exact S].
Qed.

Lemma x_del_role_XInv xs r p s : XInv xs -> xclock xs < s -> XInv (x_del_role xs r p s).
Proof.
  intros I Hs. unfold x_del_role. apply x_mark_deleted_XInv.
  - apply x_rebuild_role_XInv. exact I.
  - exact Hs.
  - fold (x_del_role xs r p s). rewrite xb_del_role. apply del_role_Inv. apply (xi_base xs I).
Qed.

Lemma x_del_user_XInv xs u : XInv xs -> XInv (x_del_user xs u).
Proof.
  intros I. pose proof (x_rebuild_user_XInv xs u I) as I1.
  assert (Ib' : Inv (xb (x_del_user xs u))) by (rewrite xb_del_user; apply del_user_Inv; apply (xi_base xs I)).
  unfold x_del_user in *. destruct (users (xb (x_rebuild_user xs u)) u) as [ur|] eqn:Eu; [|exact I1].
  constructor; cbn [xb xdacc xdrol xclock xu xr set_users docs users roles] in *.
  - exact Ib'.
  - apply (xi_dacc _ I1).
  - apply (xi_drol _ I1).
  - apply (xi_dpos _ I1).
  - apply (xi_dle _ I1).
  - intros u' ur' Eu'. unfold upd in *. destruct (u' =? u) eqn:E; [discriminate|]. exact (xi_users _ I1 u' ur' Eu').
  - intros r rr Er. exact (xi_roles _ I1 r rr Er).
Qed.

(* ================= every operation preserves the invariant ================= *)
Lemma x_put_as_XInv xs u d parent r q b s : XInv xs -> xclock xs < s -> XInv (fst (x_put_as xs u d parent r q b s)).
Proof.
  intros I Hs. pose proof (x_load_user_XInv xs u I) as I1. unfold x_put_as.
  assert (Hc : xclock (x_load_user xs u) = xclock xs).
  { unfold x_load_user. generalize (loaded_roles (xb xs) u). intros ro.
    assert (H : forall xs0, xclock (fold_left x_rebuild_role ro xs0) = xclock xs0).
    { induction ro as [|r0 ro IH]; intros xs0; cbn [fold_left]; [reflexivity | rewrite IH; reflexivity]. }
    rewrite H. reflexivity. }
  destruct (users (xb (x_load_user xs u)) u) as [ur|]; cbn [fst]; [|exact I1].
  destruct (accepts _ _ _ _ _ _ _ _ _); cbn [fst]; [|exact I1].
  assert (I2 : XInv (x_put (x_load_user xs u) d parent r q b s)) by (apply x_put_XInv; [exact I1 | rewrite Hc; exact Hs]).
  destruct (reloads _ _ _ _ _ _ _); [apply x_rebuild_user_XInv; exact I2 | exact I2].
Qed.

Lemma xstep_XInv xs o :
  XInv xs -> match op_seq o with Some s => xclock xs < s | None => True end -> XInv (fst (xstep xs o)).
Proof.
  intros I Hs. destruct o as [who d parent r q b s|u c r s|r c s|r p s|u|u|r|u|r|d|u univ qs]; cbn [xstep fst op_seq] in *.
  - destruct who as [u|]; cbn [fst]; [apply x_put_as_XInv | apply x_put_XInv]; assumption.
  - apply x_set_user_XInv; assumption.
  - apply x_set_role_XInv; assumption.
  - apply x_del_role_XInv; assumption.
  - apply x_del_user_XInv; assumption.
  - apply x_load_user_XInv; assumption.
  - apply x_rebuild_role_XInv; assumption.
  - exact I.
  - exact I.
  - exact I.
  - apply x_load_user_XInv; assumption.
Qed.

Lemma xrun_XInv ops : forall xs, XInv xs -> xwf xs ops = true -> XInv (xrun xs ops).
Proof.
  induction ops as [|o ops IH]; intros xs I W; cbn [xrun xwf] in *; [exact I|].
  apply andb_true_iff in W. destruct W as [W1 W2]. apply IH; [|exact W2].
  apply xstep_XInv; [exact I|]. destruct (op_seq o); [apply N.ltb_lt; exact W1 | exact Logic.I].
Qed.

Lemma reachable_XInv def ops : xwf (xinit def) ops = true -> XInv (xrun (xinit def) ops).
Proof. apply xrun_XInv, XInv_init. Qed.
