(* C03 -- the invariant of the invalidation protocol and its preservation by every operation. *)
From SG Require Import Base.Prelude C03.Access C03.AccessSpec.
Open Scope N_scope.

(* ---------- sets ---------- *)
Lemma mem_In x l : mem x l = true <-> In x l.
Proof.
  unfold mem. rewrite existsb_exists. split.
  - intros [y [Hy E]]. apply N.eqb_eq in E. subst. exact Hy.
  - intros H. exists x. split; [exact H | apply N.eqb_refl].
Qed.

Lemma subset_incl a b : subset a b = true <-> (forall c, In c a -> In c b).
Proof.
  unfold subset. rewrite forallb_forall. split; intros H c Hc; apply mem_In, H, Hc.
Qed.

Lemma set_eqb_spec a b : set_eqb a b = true <-> (forall c, In c a <-> In c b).
Proof.
  unfold set_eqb. rewrite andb_true_iff, !subset_incl. split.
  - intros [H1 H2] c. split; auto.
  - intros H. split; intros c Hc; apply H; exact Hc.
Qed.

Lemma pid_eqb_eq a b : pid_eqb a b = true <-> a = b.
Proof.
  destruct a, b; cbn [pid_eqb]; try rewrite N.eqb_eq; split; intros H; try discriminate; congruence.
Qed.

Lemma rev_eqb_eq a b : rev_eqb a b = true <-> a = b.
Proof.
  destruct a, b. unfold rev_eqb. cbn [fst snd]. rewrite andb_true_iff, !N.eqb_eq. split.
  - intros [-> ->]. reflexivity.
  - intros E. inversion E. auto.
Qed.

Lemma pmem_In p l : pmem p l = true <-> In p l.
Proof.
  unfold pmem. rewrite existsb_exists. split.
  - intros [y [Hy E]]. apply pid_eqb_eq in E. subst. exact Hy.
  - intros H. exists p. split; [exact H | apply pid_eqb_eq; reflexivity].
Qed.

(* ---------- access maps ---------- *)
Section GrantsFacts.
  Context {K : Type} (eqb : K -> K -> bool) (eqb_eq : forall a b, eqb a b = true <-> a = b).

  Lemma in_grants m k c : In c (grants eqb m k) <-> exists vs, In (k, vs) m /\ In c vs.
  Proof.
    unfold grants. rewrite in_flat_map. split.
    - intros [[k' vs] [He Hc]]. cbn [fst snd] in Hc. destruct (eqb k' k) eqn:E.
      + apply eqb_eq in E. subst. exists vs. auto.
      + destruct Hc.
    - intros [vs [He Hc]]. exists (k, vs). split; [exact He|]. cbn [fst snd].
      replace (eqb k k) with true by (symmetry; apply eqb_eq; reflexivity). exact Hc.
  Qed.

  Lemma grants_key m k c : In c (grants eqb m k) -> In k (map fst m).
  Proof.
    rewrite in_grants. intros [vs [He _]]. apply in_map_iff. exists (k, vs). auto.
  Qed.

  (* updateAccess reports every key whose granted set differs *)
  Lemma unchanged_key old new k :
    ~ In k (changed_keys eqb old new) -> forall c, In c (grants eqb old k) <-> In c (grants eqb new k).
  Proof.
    unfold changed_keys. intros H.
    destruct (set_eqb (grants eqb old k) (grants eqb new k)) eqn:E.
    - apply set_eqb_spec; exact E.
    - assert (Hn : ~ In k (map fst old ++ map fst new)).
      { intros Hin. apply H. apply filter_In. split; [exact Hin|]. cbv beta. rewrite E. reflexivity. }
      intros c. split; intros Hc; exfalso; apply Hn, in_or_app; [left|right]; eapply grants_key; exact Hc.
  Qed.

  (* and only those *)
  Lemma changed_key_differs old new k :
    In k (changed_keys eqb old new) -> ~ (forall c, In c (grants eqb old k) <-> In c (grants eqb new k)).
  Proof.
    unfold changed_keys. intros H Hs. apply filter_In in H. destruct H as [_ H]. cbv beta in H.
    apply set_eqb_spec in Hs. rewrite Hs in H. discriminate.
  Qed.
End GrantsFacts.

(* ---------- winner ---------- *)
Lemma winner_from_in w ls : winner_from w ls = w \/ In (winner_from w ls) ls.
Proof.
  revert w. induction ls as [|l r IH]; intros w; cbn [winner_from].
  - left; reflexivity.
  - destruct (IH (if better l w then l else w)) as [E|H].
    + rewrite E. destruct (better l w); [right; left; reflexivity | left; reflexivity].
    + right. right. exact H.
Qed.

Lemma winner_in ls w : winner ls = Some w -> In w ls.
Proof.
  destruct ls as [|l r]; cbn [winner]; [discriminate|]. intros E. inv E.
  destruct (winner_from_in l r) as [E|H]; [rewrite E; left; reflexivity | right; exact H].
Qed.

Lemma nodup_same_rev ls a b :
  NoDup (map l_rev ls) -> In a ls -> In b ls -> l_rev a = l_rev b -> a = b.
Proof.
  induction ls as [|x r IH]; cbn [map]; intros ND Ha Hb E.
  - destruct Ha.
  - inversion ND as [|? ? Hn ND']; subst. destruct Ha as [Ha|Ha], Hb as [Hb|Hb].
    + congruence.
    + subst. exfalso. apply Hn. rewrite E. apply in_map. exact Hb.
    + subst. exfalso. apply Hn. rewrite <- E. apply in_map. exact Ha.
    + apply IH; assumption.
Qed.

Lemma nodup_map_filter {A B} (f : A -> B) (p : A -> bool) l : NoDup (map f l) -> NoDup (map f (filter p l)).
Proof.
  induction l as [|x r IH]; cbn [map filter]; intros ND; [constructor|].
  inversion ND as [|? ? Hn ND']; subst.
  destruct (p x); cbn [map]; [constructor|]; auto.
  intros Hin. apply Hn. apply in_map_iff in Hin. destruct Hin as [y [E Hy]].
  apply filter_In in Hy. apply in_map_iff. exists y. split; [exact E | apply Hy].
Qed.

Lemma remove_leaf_incl p ls l : In l (remove_leaf p ls) -> In l ls.
Proof.
  destruct p as [p|]; cbn [remove_leaf]; [|auto]. intros H. apply filter_In in H. apply H.
Qed.

Lemma nodup_remove p ls : NoDup (map l_rev ls) -> NoDup (map l_rev (remove_leaf p ls)).
Proof.
  destruct p as [p|]; cbn [remove_leaf]; [|auto]. apply nodup_map_filter.
Qed.

Lemma fresh_rev_not_in r ls :
  existsb (fun l => rev_eqb (l_rev l) r) ls = false -> ~ In r (map l_rev ls).
Proof.
  intros Hf Hin. apply in_map_iff in Hin. destruct Hin as [l [E Hl]].
  assert (existsb (fun l => rev_eqb (l_rev l) r) ls = true); [|congruence].
  apply existsb_exists. exists l. split; [exact Hl|]. apply rev_eqb_eq. exact E.
Qed.

Lemma nodup_new_leaf ls parent r b :
  NoDup (map l_rev ls) -> existsb (fun l => rev_eqb (l_rev l) r) ls = false ->
  NoDup (map l_rev (mkLeaf r b :: remove_leaf parent ls)).
Proof.
  intros ND Hf. cbn [map l_rev]. constructor; [|apply nodup_remove; exact ND].
  intros Hin. apply (fresh_rev_not_in r ls Hf). apply in_map_iff in Hin. destruct Hin as [l [E Hl]].
  apply in_map_iff. exists l. split; [exact E | eapply remove_leaf_incl; exact Hl].
Qed.

(* a write that leaves the winning revision in place leaves the winner's verdict in place *)
Lemma same_winner_verdict ls parent r b :
  NoDup (map l_rev ls) ->
  existsb (fun l => rev_eqb (l_rev l) r) ls = false ->
  same_winner (winner ls) (winner (mkLeaf r b :: remove_leaf parent ls)) = true ->
  wverdict (mkLeaf r b :: remove_leaf parent ls) = wverdict ls.
Proof.
  intros ND Hfresh Hs. unfold wverdict.
  destruct (winner ls) as [w0|] eqn:E0;
    destruct (winner (mkLeaf r b :: remove_leaf parent ls)) as [w1|] eqn:E1;
    cbn [same_winner] in Hs; try discriminate.
  - apply rev_eqb_eq in Hs. apply winner_in in E0. apply winner_in in E1.
    assert (w1 = w0); [|subst; reflexivity].
    destruct E1 as [E1|E1].
    + subst w1. cbn [l_rev] in Hs. exfalso. apply (fresh_rev_not_in r ls Hfresh).
      rewrite <- Hs. apply in_map. exact E0.
    + apply remove_leaf_incl in E1. symmetry in Hs. eapply nodup_same_rev; eauto.
Qed.

(* ---------- the invariant ---------- *)
Definition good_u (ds : N -> drec) (u : N) (ur : urec) : Prop :=
  (forall l, u_ch ur = Some l -> forall c, In c l <-> own_spec ds (PU u) (u_xch ur) c) /\
  (forall l, u_ro ur = Some l -> forall r, In r l <-> roles_spec ds u (u_xro ur) r).
Definition good_r (ds : N -> drec) (r : N) (rr : rrec) : Prop :=
  forall l, r_ch rr = Some l -> forall c, In c l <-> own_spec ds (PR r) (r_xch rr) c.

Record Inv (st : state) : Prop := {
  (* the stored access maps are the verdict of the sync function on the winning revision *)
  inv_acc : forall d, d_acc (docs st d) = v_acc (wverdict (d_leaves (docs st d)));
  inv_rol : forall d, d_rol (docs st d) = v_rol (wverdict (d_leaves (docs st d)));
  inv_nodup : forall d, NoDup (map l_rev (d_leaves (docs st d)));
  inv_ids : forall d, d_leaves (docs st d) <> [] -> In d (ids st);
  (* every computed value is either invalidated or equal to the specification *)
  inv_users : forall u ur, users st u = Some ur -> good_u (docs st) u ur;
  inv_roles : forall r rr, roles st r = Some rr -> good_r (docs st) r rr
}.

Lemma Inv_init : Inv init.
Proof.
  constructor; cbn; intros; try reflexivity; try constructor; try discriminate; congruence.
Qed.

Lemma wverdict_nil : wverdict [] = vempty.
Proof. reflexivity. Qed.

Lemma doc_chan_grants_spec st p c : Inv st -> (In c (doc_chan_grants st p) <-> truth_chan (docs st) p c).
Proof.
  intros I. unfold doc_chan_grants, truth_chan. rewrite in_flat_map. split.
  - intros [d [_ H]]. exists d. rewrite <- (inv_acc st I d). exact H.
  - intros [d H]. exists d. split.
    + apply (inv_ids st I). intros E. rewrite E in H. cbn in H. exact H.
    + rewrite (inv_acc st I d). exact H.
Qed.

Lemma doc_role_grants_spec st u r : Inv st -> (In r (doc_role_grants st u) <-> truth_role (docs st) u r).
Proof.
  intros I. unfold doc_role_grants, truth_role. rewrite in_flat_map. split.
  - intros [d [_ H]]. exists d. rewrite <- (inv_rol st I d). exact H.
  - intros [d H]. exists d. split.
    + apply (inv_ids st I). intros E. rewrite E in H. cbn in H. exact H.
    + rewrite (inv_rol st I d). exact H.
Qed.

Lemma compute_chans_spec st p xch c : Inv st -> (In c (compute_chans st p xch) <-> own_spec (docs st) p xch c).
Proof.
  intros I. unfold compute_chans, own_spec. rewrite !in_app_iff, (doc_chan_grants_spec st p c I). cbn [In].
  split.
  - intros [H|[H|[H|[]]]]; [left; exact H | right; left; exact H | right; right; symmetry; exact H].
  - intros [H|[H|H]]; [left; exact H | right; left; exact H | right; right; left; symmetry; exact H].
Qed.

Lemma compute_roles_spec st u xro r : Inv st -> (In r (compute_roles st u xro) <-> roles_spec (docs st) u xro r).
Proof.
  intros I. unfold compute_roles, roles_spec. rewrite in_app_iff, (doc_role_grants_spec st u r I). reflexivity.
Qed.

(* ---------- frame lemmas: principals ---------- *)
Lemma Inv_upd_user st u our :
  Inv st -> (forall ur, our = Some ur -> good_u (docs st) u ur) -> Inv (set_users st (upd (users st) u our)).
Proof.
  intros I H. constructor; cbn [docs ids users roles set_users].
  - exact (inv_acc st I).
  - exact (inv_rol st I).
  - exact (inv_nodup st I).
  - exact (inv_ids st I).
  - intros u' ur' E. unfold upd in E. destruct (u' =? u) eqn:Eu.
    + apply N.eqb_eq in Eu. subst u'. apply H. exact E.
    + apply (inv_users st I). exact E.
  - exact (inv_roles st I).
Qed.

Lemma Inv_upd_role st r orr :
  Inv st -> (forall rr, orr = Some rr -> good_r (docs st) r rr) -> Inv (set_roles st (upd (roles st) r orr)).
Proof.
  intros I H. constructor; cbn [docs ids users roles set_roles].
  - exact (inv_acc st I).
  - exact (inv_rol st I).
  - exact (inv_nodup st I).
  - exact (inv_ids st I).
  - exact (inv_users st I).
  - intros r' rr' E. unfold upd in E. destruct (r' =? r) eqn:Er.
    + apply N.eqb_eq in Er. subst r'. apply H. exact E.
    + apply (inv_roles st I). exact E.
Qed.

(* getPrincipal on a user: afterwards both computed values are present and equal to the specification *)
Lemma rebuild_user_spec st u st1 our :
  Inv st -> rebuild_user st u = (st1, our) ->
  Inv st1 /\ docs st1 = docs st /\ ids st1 = ids st /\ roles st1 = roles st /\
  (forall u', users st1 u' = upd (users st) u our u') /\
  match our with
  | None => users st u = None
  | Some ur' => exists ur, users st u = Some ur /\ u_xch ur' = u_xch ur /\ u_xro ur' = u_xro ur /\
                           good_u (docs st) u ur' /\
                           (exists l, u_ch ur' = Some l) /\ (exists l, u_ro ur' = Some l)
  end.
Proof.
  intros I. unfold rebuild_user. destruct (users st u) as [ur|] eqn:Eu; intros E; injection E as <- <-.
  - set (ch := match u_ch ur with Some c => c | None => compute_chans st (PU u) (u_xch ur) end).
    set (ro := match u_ro ur with Some r => r | None => compute_roles st u (u_xro ur) end).
    assert (G : good_u (docs st) u (mkU (u_xch ur) (Some ch) (u_xro ur) (Some ro))).
    { destruct (inv_users st I u ur Eu) as [G1 G2]. split; cbn [u_ch u_ro u_xch u_xro]; intros l El; inv El.
      - subst ch. destruct (u_ch ur) as [c0|] eqn:Ec; [apply G1; first [exact Ec | reflexivity] | intros c; apply compute_chans_spec; exact I].
      - subst ro. destruct (u_ro ur) as [r0|] eqn:Er; [apply G2; first [exact Er | reflexivity] | intros r; apply compute_roles_spec; exact I]. }
    split; [|split; [|split; [|split; [|split]]]]; try reflexivity.
    + apply Inv_upd_user; [exact I|]. intros ur0 E0. inv E0. exact G.
    + exists ur. split; [reflexivity|]. split; [reflexivity|]. split; [reflexivity|]. split; [exact G|].
      split; eexists; reflexivity.
  - split; [exact I|]. split; [reflexivity|]. split; [reflexivity|]. split; [reflexivity|]. split; [|reflexivity].
    intros u'. unfold upd. destruct (u' =? u) eqn:E; [apply N.eqb_eq in E; subst; exact Eu | reflexivity].
Qed.

(* GetRoleIncDeleted *)
Lemma rebuild_role_spec st r st1 orr :
  Inv st -> rebuild_role st r = (st1, orr) ->
  Inv st1 /\ docs st1 = docs st /\ ids st1 = ids st /\ users st1 = users st /\
  (forall r', roles st1 r' = upd (roles st) r orr r') /\
  match orr with
  | None => roles st r = None
  | Some rr' => exists rr, roles st r = Some rr /\ r_xch rr' = r_xch rr /\ r_del rr' = r_del rr /\
                           good_r (docs st) r rr' /\ (r_del rr' = false -> exists l, r_ch rr' = Some l)
  end.
Proof.
  intros I. unfold rebuild_role. destruct (roles st r) as [rr|] eqn:Er.
  - destruct (r_del rr) eqn:Ed; intros E; injection E as <- <-.
    + split; [exact I|]. split; [reflexivity|]. split; [reflexivity|]. split; [reflexivity|]. split.
      * intros r'. unfold upd. destruct (r' =? r) eqn:E; [apply N.eqb_eq in E; subst; exact Er | reflexivity].
      * exists rr. split; [reflexivity|]. split; [reflexivity|]. split; [reflexivity|]. split; [exact (inv_roles st I r rr Er)|].
        intros H; congruence.
    + set (ch := match r_ch rr with Some c => c | None => compute_chans st (PR r) (r_xch rr) end).
      assert (G : good_r (docs st) r (mkR false (r_xch rr) (Some ch))).
      { pose proof (inv_roles st I r rr Er) as G1. unfold good_r. cbn [r_ch r_xch]. intros l El. inv El.
        subst ch. destruct (r_ch rr) as [c0|] eqn:Ec; [apply G1; first [exact Ec | reflexivity] | intros c; apply compute_chans_spec; exact I]. }
      split; [|split; [|split; [|split; [|split]]]]; try reflexivity.
      * apply Inv_upd_role; [exact I|]. intros rr0 E0. inv E0. exact G.
      * exists rr. split; [reflexivity|]. split; [reflexivity|]. split; [symmetry; exact Ed|]. split; [exact G|].
        intros _. eexists; reflexivity.
  - intros E; injection E as <- <-. split; [exact I|]. split; [reflexivity|]. split; [reflexivity|]. split; [reflexivity|]. split; [|reflexivity].
    intros r'. unfold upd. destruct (r' =? r) eqn:E; [apply N.eqb_eq in E; subst; exact Er | reflexivity].
Qed.

(* what makes role_grants stable: documents, existence, deletion mark and explicit channels of the roles *)
Definition rcore (o : option rrec) : option (bool * list N) := option_map (fun rr => (r_del rr, r_xch rr)) o.

Lemma role_grants_core st st' r c :
  docs st' = docs st -> rcore (roles st' r) = rcore (roles st r) -> (role_grants st' r c <-> role_grants st r c).
Proof.
  intros Hd Hc. unfold role_grants. rewrite Hd. unfold rcore in Hc.
  split; intros [rr [E [Hdel H]]].
  - rewrite E in Hc. destruct (roles st r) as [rr0|]; cbn [option_map] in Hc; [|discriminate]. inv Hc.
    exists rr0. split; [reflexivity|]. split; [congruence|]. rewrite <- H2. exact H.
  - rewrite E in Hc. destruct (roles st' r) as [rr0|]; cbn [option_map] in Hc; [|discriminate]. inv Hc.
    exists rr0. split; [reflexivity|]. split; [congruence|]. rewrite H2. exact H.
Qed.

Lemma rebuild_role_core st r st1 orr :
  Inv st -> rebuild_role st r = (st1, orr) -> forall r', rcore (roles st1 r') = rcore (roles st r').
Proof.
  intros I E. destruct (rebuild_role_spec st r st1 orr I E) as [_ [_ [_ [_ [Hr Ho]]]]].
  intros r'. rewrite Hr. unfold upd. destruct (r' =? r) eqn:Er; [|reflexivity].
  apply N.eqb_eq in Er. subst r'. destruct orr as [rr'|].
  - destruct Ho as [rr [E1 [E2 [E3 _]]]]. rewrite E1. cbn [rcore option_map]. congruence.
  - rewrite Ho. reflexivity.
Qed.

(* one step of user.GetRoles / InheritedCollectionChannels *)
Lemma load_role_chans_spec st chs r st' chs' :
  Inv st -> load_role_chans (st, chs) r = (st', chs') ->
  Inv st' /\ docs st' = docs st /\ ids st' = ids st /\ users st' = users st /\
  (forall r', rcore (roles st' r') = rcore (roles st r')) /\
  (forall c, In c chs' <-> In c chs \/ role_grants st r c).
Proof.
  intros I. unfold load_role_chans. cbn [fst snd].
  destruct (rebuild_role st r) as [st1 orr] eqn:E.
  pose proof (rebuild_role_core st r st1 orr I E) as Hcore.
  destruct (rebuild_role_spec st r st1 orr I E) as [I1 [Hd [Hi [Hu [Hr Ho]]]]].
  assert (Hnone : forall c, roles st r = None \/ (exists rr, roles st r = Some rr /\ r_del rr = true) -> ~ role_grants st r c).
  { intros c [H|[rr [H1 H2]]] [rr0 [E0 [Hd0 _]]]; congruence. }
  destruct orr as [rr'|].
  - destruct Ho as [rr [E1 [E2 [E3 [G Hl]]]]].
    destruct (r_del rr') eqn:Ed; intros E0; inv E0.
    + repeat (split; [assumption|]). intros c. split; [auto|]. intros [H|H]; [exact H|].
      exfalso. eapply Hnone; [|exact H]. right. exists rr. split; [exact E1 | congruence].
    + repeat (split; [assumption|]). intros c. rewrite in_app_iff.
      destruct (Hl eq_refl) as [l El]. rewrite El. cbn [opt_list].
      assert (In c l <-> role_grants st r c); [|tauto].
      rewrite (G l El c). unfold role_grants. split.
      * intros H. exists rr. split; [exact E1|]. split; [congruence|]. rewrite <- E2. exact H.
      * intros [rr0 [E0 [_ H]]]. rewrite E1 in E0. inv E0. rewrite E2. exact H.
  - intros E0; inv E0. repeat (split; [assumption|]). intros c. split; [auto|]. intros [H|H]; [exact H|].
    exfalso. eapply Hnone; [|exact H]. left. exact Ho.
Qed.

Lemma load_roles_fold ro : forall st chs st' chs',
  Inv st -> fold_left load_role_chans ro (st, chs) = (st', chs') ->
  Inv st' /\ docs st' = docs st /\ ids st' = ids st /\ users st' = users st /\
  (forall r', rcore (roles st' r') = rcore (roles st r')) /\
  (forall c, In c chs' <-> In c chs \/ exists r, In r ro /\ role_grants st r c).
Proof.
  induction ro as [|r ro IH]; intros st chs st' chs' I E; cbn [fold_left] in E.
  - inv E. repeat (split; [first [assumption | reflexivity]|]). intros c. split; [auto|]. intros [H|[r [[] _]]]. exact H.
  - destruct (load_role_chans (st, chs) r) as [st1 chs1] eqn:E1.
    destruct (load_role_chans_spec st chs r st1 chs1 I E1) as [I1 [Hd1 [Hi1 [Hu1 [Hc1 Hs1]]]]].
    destruct (IH st1 chs1 st' chs' I1 E) as [I2 [Hd2 [Hi2 [Hu2 [Hc2 Hs2]]]]].
    split; [exact I2|]. split; [congruence|]. split; [congruence|]. split; [congruence|].
    split; [intros r'; rewrite Hc2; apply Hc1|].
    intros c. rewrite Hs2, Hs1. split.
    + intros [[H|H]|[r0 [Hin H]]]; [left; exact H | right; exists r; split; [left; reflexivity | exact H] |].
      right. exists r0. split; [right; exact Hin|]. apply (role_grants_core st st1 r0 c Hd1 (Hc1 r0)). exact H.
    + intros [H|[r0 [[Hin|Hin] H]]]; [left; left; exact H | subst; left; right; exact H |].
      right. exists r0. split; [exact Hin|]. apply (role_grants_core st st1 r0 c Hd1 (Hc1 r0)). exact H.
Qed.

(* ---------- frame lemmas: documents ---------- *)
Lemma truth_chan_ext ds ds' p c :
  (forall d, wverdict (d_leaves (ds' d)) = wverdict (d_leaves (ds d))) -> (truth_chan ds' p c <-> truth_chan ds p c).
Proof.
  intros H. unfold truth_chan. split; intros [d Hd]; exists d; [rewrite <- H | rewrite H]; exact Hd.
Qed.

Lemma truth_role_ext ds ds' u r :
  (forall d, wverdict (d_leaves (ds' d)) = wverdict (d_leaves (ds d))) -> (truth_role ds' u r <-> truth_role ds u r).
Proof.
  intros H. unfold truth_role. split; intros [d Hd]; exists d; [rewrite <- H | rewrite H]; exact Hd.
Qed.

(* only document d changes, and the set granted to p by d stays the same *)
Lemma truth_chan_upd ds d dr' p c :
  (forall x, In x (grants pid_eqb (v_acc (wverdict (d_leaves (ds d)))) p) <->
             In x (grants pid_eqb (v_acc (wverdict (d_leaves dr'))) p)) ->
  (truth_chan (upd ds d dr') p c <-> truth_chan ds p c).
Proof.
  intros H. unfold truth_chan, upd. split; intros [d0 Hd].
  - destruct (d0 =? d) eqn:E; [exists d; apply H; exact Hd | exists d0; exact Hd].
  - destruct (d0 =? d) eqn:E.
    + apply N.eqb_eq in E. subst d0. exists d. rewrite N.eqb_refl. apply H. exact Hd.
    + exists d0. rewrite E. exact Hd.
Qed.

Lemma truth_role_upd ds d dr' u r :
  (forall x, In x (grants N.eqb (v_rol (wverdict (d_leaves (ds d)))) u) <->
             In x (grants N.eqb (v_rol (wverdict (d_leaves dr'))) u)) ->
  (truth_role (upd ds d dr') u r <-> truth_role ds u r).
Proof.
  intros H. unfold truth_role, upd. split; intros [d0 Hd].
  - destruct (d0 =? d) eqn:E; [exists d; apply H; exact Hd | exists d0; exact Hd].
  - destruct (d0 =? d) eqn:E.
    + apply N.eqb_eq in E. subst d0. exists d. rewrite N.eqb_refl. apply H. exact Hd.
    + exists d0. rewrite E. exact Hd.
Qed.

Lemma own_spec_iff ds ds' p xch :
  (forall c, truth_chan ds' p c <-> truth_chan ds p c) -> forall c, own_spec ds' p xch c <-> own_spec ds p xch c.
Proof. intros H c. unfold own_spec. rewrite H. reflexivity. Qed.

Lemma roles_spec_iff ds ds' u xro :
  (forall r, truth_role ds' u r <-> truth_role ds u r) -> forall r, roles_spec ds' u xro r <-> roles_spec ds u xro r.
Proof. intros H r. unfold roles_spec. rewrite H. reflexivity. Qed.

(* the document part of the invariant after replacing document d *)
Lemma doc_inv_upd st d dr' ids' :
  Inv st ->
  d_acc dr' = v_acc (wverdict (d_leaves dr')) -> d_rol dr' = v_rol (wverdict (d_leaves dr')) ->
  NoDup (map l_rev (d_leaves dr')) ->
  (forall x, In x (ids st) -> In x ids') -> (d_leaves dr' <> [] -> In d ids') ->
  (forall x, d_acc (upd (docs st) d dr' x) = v_acc (wverdict (d_leaves (upd (docs st) d dr' x)))) /\
  (forall x, d_rol (upd (docs st) d dr' x) = v_rol (wverdict (d_leaves (upd (docs st) d dr' x)))) /\
  (forall x, NoDup (map l_rev (d_leaves (upd (docs st) d dr' x)))) /\
  (forall x, d_leaves (upd (docs st) d dr' x) <> [] -> In x ids').
Proof.
  intros I Ha Hr Hn Hi Hd. unfold upd.
  split; [|split; [|split]]; intros x; destruct (x =? d) eqn:E; try assumption.
  - apply (inv_acc st I).
  - apply (inv_rol st I).
  - apply (inv_nodup st I).
  - apply N.eqb_eq in E. subst. exact Hd.
  - intros H. apply Hi. apply (inv_ids st I). exact H.
Qed.

(* a write that does not change what the winner of d grants: nobody needs to be invalidated *)
Lemma Inv_doc_same st d dr' ids' :
  Inv st ->
  wverdict (d_leaves dr') = wverdict (d_leaves (docs st d)) ->
  d_acc dr' = d_acc (docs st d) -> d_rol dr' = d_rol (docs st d) ->
  NoDup (map l_rev (d_leaves dr')) ->
  (forall x, In x (ids st) -> In x ids') -> (d_leaves dr' <> [] -> In d ids') ->
  Inv (mkS (upd (docs st) d dr') ids' (users st) (roles st)).
Proof.
  intros I Hw Ha Hr Hn Hi Hd.
  assert (Hext : forall x, wverdict (d_leaves (upd (docs st) d dr' x)) = wverdict (d_leaves (docs st x))).
  { intros x. unfold upd. destruct (x =? d) eqn:E; [apply N.eqb_eq in E; subst; exact Hw | reflexivity]. }
  destruct (doc_inv_upd st d dr' ids' I) as [H1 [H2 [H3 H4]]]; try assumption.
  { rewrite Ha, Hw. apply (inv_acc st I). }
  { rewrite Hr, Hw. apply (inv_rol st I). }
  constructor; cbn [docs ids users roles]; try assumption.
  - intros u ur E. destruct (inv_users st I u ur E) as [G1 G2]. split; intros l El x.
    + rewrite (G1 l El x). symmetry. apply own_spec_iff. intros c. apply truth_chan_ext. exact Hext.
    + rewrite (G2 l El x). symmetry. apply roles_spec_iff. intros c. apply truth_role_ext. exact Hext.
  - intros r rr E l El x. rewrite (inv_roles st I r rr E l El x). symmetry.
    apply own_spec_iff. intros c. apply truth_chan_ext. exact Hext.
Qed.

(* a write that changes what d grants: exactly the principals reported by updateAccess are invalidated *)
Lemma Inv_doc_change st d dr' ids' :
  Inv st ->
  d_acc dr' = v_acc (wverdict (d_leaves dr')) -> d_rol dr' = v_rol (wverdict (d_leaves dr')) ->
  NoDup (map l_rev (d_leaves dr')) ->
  (forall x, In x (ids st) -> In x ids') -> (d_leaves dr' <> [] -> In d ids') ->
  Inv (mkS (upd (docs st) d dr') ids'
           (inval_users (changed_keys pid_eqb (d_acc (docs st d)) (d_acc dr'))
                        (changed_keys N.eqb (d_rol (docs st d)) (d_rol dr')) (users st))
           (inval_rolemap (changed_keys pid_eqb (d_acc (docs st d)) (d_acc dr')) (roles st))).
Proof.
  intros I Ha Hr Hn Hi Hd.
  destruct (doc_inv_upd st d dr' ids' I) as [H1 [H2 [H3 H4]]]; try assumption.
  assert (Hc : forall p, pmem p (changed_keys pid_eqb (d_acc (docs st d)) (d_acc dr')) = false ->
                forall c, truth_chan (upd (docs st) d dr') p c <-> truth_chan (docs st) p c).
  { intros p Hp c. apply truth_chan_upd. rewrite <- Ha, <- (inv_acc st I d).
    apply (unchanged_key pid_eqb pid_eqb_eq). intros Hin. apply pmem_In in Hin. congruence. }
  assert (Hro : forall u, mem u (changed_keys N.eqb (d_rol (docs st d)) (d_rol dr')) = false ->
                forall r, truth_role (upd (docs st) d dr') u r <-> truth_role (docs st) u r).
  { intros u Hu r. apply truth_role_upd. rewrite <- Hr, <- (inv_rol st I d).
    apply (unchanged_key N.eqb N.eqb_eq). intros Hin. apply mem_In in Hin. congruence. }
  constructor; cbn [docs ids users roles]; try assumption.
  - intros u ur' E. unfold inval_users in E. destruct (users st u) as [ur|] eqn:Eu; [|discriminate]. inv E.
    destruct (inv_users st I u ur Eu) as [G1 G2]. split; cbn [u_ch u_ro u_xch u_xro]; intros l El x.
    + destruct (pmem (PU u) _) eqn:Ep in El; [discriminate|].
      rewrite (G1 l El x). symmetry. apply own_spec_iff. apply Hc. exact Ep.
    + destruct (mem u _) eqn:Em in El; [discriminate|].
      rewrite (G2 l El x). symmetry. apply roles_spec_iff. apply Hro. exact Em.
  - intros r rr' E. unfold inval_rolemap in E. destruct (roles st r) as [rr|] eqn:Er; [|discriminate]. inv E.
    unfold good_r. cbn [r_ch r_xch]. intros l El x.
    destruct (pmem (PR r) _) eqn:Ep in El; [discriminate|].
    rewrite (inv_roles st I r rr Er l El x). symmetry. apply own_spec_iff. apply Hc. exact Ep.
Qed.
