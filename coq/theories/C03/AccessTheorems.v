(* C03 -- every operation preserves the invariant; consequences for what a load returns. *)
From SG Require Import Base.Prelude C03.Access C03.AccessSpec C03.AccessProofs.
Open Scope N_scope.

Definition op_ok (o : op) : Prop := purge_invalidates = true \/ is_purge o = false.

Lemma ids_add_incl d l x : In x l -> In x (if mem d l then l else d :: l).
Proof. destruct (mem d l); [auto | intros H; right; exact H]. Qed.

Lemma ids_add_in d l : In d (if mem d l then l else d :: l).
Proof. destruct (mem d l) eqn:E; [apply mem_In; exact E | left; reflexivity]. Qed.

Lemma put_Inv st d parent r b : Inv st -> Inv (fst (put st d parent r b)).
Proof.
  intros I. unfold put.
  assert (Hgen : forall ob,
    Inv (fst (if existsb (fun l => rev_eqb (l_rev l) r) (d_leaves (docs st d)) then (st, OStatus true)
         else
           let lf := mkLeaf r ob in
           let lv := lf :: remove_leaf parent (d_leaves (docs st d)) in
           let ids' := if mem d (ids st) then ids st else d :: ids st in
           if same_winner (winner (d_leaves (docs st d))) (winner lv)
           then (mkS (upd (docs st) d (mkD lv (d_acc (docs st d)) (d_rol (docs st d)))) ids' (users st) (roles st), OStatus true)
           else
             let v := wverdict lv in
             let ca := changed_keys pid_eqb (d_acc (docs st d)) (v_acc v) in
             let cr := changed_keys N.eqb (d_rol (docs st d)) (v_rol v) in
             (mkS (upd (docs st) d (mkD lv (v_acc v) (v_rol v))) ids'
                  (inval_users ca cr (users st)) (inval_rolemap ca (roles st)), OStatus true)))).
  { intros ob. destruct (existsb _ _) eqn:Ef; [exact I|]. cbv zeta.
    pose proof (nodup_new_leaf (d_leaves (docs st d)) parent r ob (inv_nodup st I d) Ef) as ND.
    destruct (same_winner _ _) eqn:Es; cbn [fst].
    - apply Inv_doc_same; cbn [d_leaves d_acc d_rol]; try reflexivity; try assumption.
      + apply same_winner_verdict; [exact (inv_nodup st I d) | exact Ef | exact Es].
      + intros x. apply ids_add_incl.
      + intros _. apply ids_add_in.
    - apply (Inv_doc_change st d (mkD (mkLeaf r ob :: remove_leaf parent (d_leaves (docs st d)))
                 (v_acc (wverdict (mkLeaf r ob :: remove_leaf parent (d_leaves (docs st d)))))
                 (v_rol (wverdict (mkLeaf r ob :: remove_leaf parent (d_leaves (docs st d))))))
               (if mem d (ids st) then ids st else d :: ids st) I);
        cbn [d_leaves d_acc d_rol]; try reflexivity; try assumption.
      + intros x. apply ids_add_incl.
      + intros _. apply ids_add_in. }
  destruct b as [v| |]; [apply Hgen | apply Hgen | exact I].
Qed.

Lemma purge_Inv st d : Inv st -> op_ok (Purge d) -> Inv (fst (purge st d)).
Proof.
  intros I H. unfold purge. destruct (d_leaves (docs st d)) as [|l0 ls0] eqn:El; [exact I|].
  unfold op_ok in H. cbn [is_purge] in H. revert H.
  destruct purge_invalidates; intros [H|H]; try discriminate. cbn [fst].
  apply (Inv_doc_change st d dempty (ids st) I); cbn [dempty d_leaves d_acc d_rol]; try reflexivity.
  - constructor.
  - auto.
  - intros H0. exfalso. apply H0. reflexivity.
Qed.

Lemma good_u_set_ch ds u ur c : good_u ds u ur -> good_u ds u (mkU c None (u_xro ur) (u_ro ur)).
Proof.
  intros [G1 G2]. split; cbn [u_ch u_ro u_xch u_xro]; [intros l El; discriminate | exact G2].
Qed.

Lemma good_u_set_ro ds u ur r : good_u ds u ur -> good_u ds u (mkU (u_xch ur) (u_ch ur) r None).
Proof.
  intros [G1 G2]. split; cbn [u_ch u_ro u_xch u_xro]; [exact G1 | intros l El; discriminate].
Qed.

Lemma good_u_fresh st u : Inv st ->
  good_u (docs st) u (mkU [] (Some (compute_chans st (PU u) [])) [] (Some (compute_roles st u []))).
Proof.
  intros I. split; cbn [u_ch u_ro u_xch u_xro]; intros l El; inv El; intros x;
    [apply compute_chans_spec | apply compute_roles_spec]; exact I.
Qed.

Lemma good_r_fresh st r : Inv st -> good_r (docs st) r (mkR false [] (Some (compute_chans st (PR r) []))).
Proof.
  intros I. unfold good_r. cbn [r_ch r_xch]. intros l El; inv El. intros x. apply compute_chans_spec; exact I.
Qed.

Lemma set_user_Inv st u chans ros : Inv st -> Inv (fst (set_user st u chans ros)).
Proof.
  intros I. unfold set_user. destruct (rebuild_user st u) as [st1 our] eqn:E.
  destruct (rebuild_user_spec st u st1 our I E) as [I1 [Hd [_ [_ [_ Ho]]]]]. cbn [fst].
  apply Inv_upd_user; [exact I1|]. intros ur2 E2. inv E2. rewrite Hd.
  set (ur := match our with Some ur => ur | None => _ end).
  assert (G : good_u (docs st) u ur).
  { subst ur. destruct our as [ur'|]; [destruct Ho as [ur0 [_ [_ [_ [G _]]]]]; exact G | apply good_u_fresh; exact I]. }
  set (ur1 := match chans with Some c => _ | None => ur end).
  assert (G1 : good_u (docs st) u ur1).
  { subst ur1. destruct chans as [c|]; [|exact G]. destruct (set_eqb c (u_xch ur)); [exact G | apply good_u_set_ch; exact G]. }
  destruct ros as [r|]; [|exact G1]. destruct (set_eqb r (u_xro ur1)); [exact G1 | apply good_u_set_ro; exact G1].
Qed.

Lemma set_role_Inv st r chans : Inv st -> Inv (fst (set_role st r chans)).
Proof.
  intros I. unfold set_role. destruct (rebuild_role st r) as [st1 orr] eqn:E.
  destruct (rebuild_role_spec st r st1 orr I E) as [I1 [Hd [_ [_ [_ Ho]]]]]. cbn [fst].
  apply Inv_upd_role; [exact I1|]. intros rr2 E2. inv E2. rewrite Hd.
  set (rr := match orr with Some rr => _ | None => _ end).
  assert (G : good_r (docs st) r rr).
  { subst rr. destruct orr as [rr'|]; [|apply good_r_fresh; exact I].
    destruct (r_del rr'); [apply good_r_fresh; exact I|]. destruct Ho as [rr0 [_ [_ [_ [G _]]]]]. exact G. }
  destruct chans as [c|]; [|exact G]. destruct (set_eqb c (r_xch rr)); [exact G|].
  unfold good_r. cbn [r_ch]. intros l El; discriminate.
Qed.

Lemma del_role_Inv st r p : Inv st -> Inv (fst (del_role st r p)).
Proof.
  intros I. unfold del_role. destruct (rebuild_role st r) as [st1 orr] eqn:E.
  destruct (rebuild_role_spec st r st1 orr I E) as [I1 _].
  destruct orr as [rr|]; [|exact I1]. destruct (r_del rr); [exact I1|]. destruct p; cbn [fst].
  - apply Inv_upd_role; [exact I1|]. intros rr0 E0; discriminate.
  - apply Inv_upd_role; [exact I1|]. intros rr0 E0. inv E0. unfold good_r. cbn [r_ch]. intros l El; discriminate.
Qed.

Lemma del_user_Inv st u : Inv st -> Inv (fst (del_user st u)).
Proof.
  intros I. unfold del_user. destruct (rebuild_user st u) as [st1 our] eqn:E.
  destruct (rebuild_user_spec st u st1 our I E) as [I1 _].
  destruct our as [ur|]; [|exact I1]. cbn [fst]. apply Inv_upd_user; [exact I1|]. intros ur0 E0; discriminate.
Qed.

Lemma load_role_Inv st r : Inv st -> Inv (fst (load_role st r)).
Proof.
  intros I. unfold load_role. destruct (rebuild_role st r) as [st1 orr] eqn:E.
  destruct (rebuild_role_spec st r st1 orr I E) as [I1 _].
  destruct orr as [rr|]; [|exact I1]. destruct (r_del rr); exact I1.
Qed.

(* the load of a user: what it returns, in terms of the state before the load *)
Lemma load_user_correct st u :
  Inv st ->
  Inv (fst (load_user st u)) /\
  match users st u with
  | None => snd (load_user st u) = OUser None
  | Some ur => exists chs ros, snd (load_user st u) = OUser (Some (chs, ros)) /\
                 (forall c, In c chs <-> user_spec st u ur c) /\
                 (forall r, In r ros <-> roles_spec (docs st) u (u_xro ur) r)
  end.
Proof.
  intros I. unfold load_user. destruct (rebuild_user st u) as [st1 our] eqn:E.
  destruct (rebuild_user_spec st u st1 our I E) as [I1 [Hd [Hi [Hr [Hu Ho]]]]].
  destruct our as [ur'|].
  - destruct Ho as [ur [Eu [Ex [Exr [[G1 G2] [[l1 El1] [l2 El2]]]]]]]. rewrite Eu.
    destruct (fold_left load_role_chans (opt_list (u_ro ur')) (st1, opt_list (u_ch ur'))) as [st2 chs] eqn:Ef.
    destruct (load_roles_fold _ _ _ _ _ I1 Ef) as [I2 [_ [_ [_ [_ Hs]]]]]. cbn [fst snd].
    split; [exact I2|]. exists chs, (opt_list (u_ro ur')). split; [reflexivity|].
    rewrite El1, El2 in *. cbn [opt_list] in *.
    assert (Hrg : forall r c, role_grants st1 r c <-> role_grants st r c).
    { intros r c. unfold role_grants. rewrite Hd, Hr. reflexivity. }
    split.
    + intros c. rewrite Hs. unfold user_spec. rewrite (G1 l1 eq_refl c), Ex.
      split; (intros [H|[r [Hin H]]]; [left; exact H | right; exists r]).
      * split; [rewrite <- Exr; apply (G2 l2 eq_refl); exact Hin | apply Hrg; exact H].
      * split; [apply (G2 l2 eq_refl); rewrite Exr; exact Hin | apply Hrg; exact H].
    + intros r. rewrite (G2 l2 eq_refl r), Exr. reflexivity.
  - rewrite Ho. cbn [fst snd]. split; [exact I1 | reflexivity].
Qed.

Lemma load_role_correct st r :
  Inv st ->
  match roles st r with
  | None => snd (load_role st r) = ORole None
  | Some rr => if r_del rr then snd (load_role st r) = ORole None
               else exists chs, snd (load_role st r) = ORole (Some chs) /\
                                (forall c, In c chs <-> own_spec (docs st) (PR r) (r_xch rr) c)
  end.
Proof.
  intros I. unfold load_role. destruct (rebuild_role st r) as [st1 orr] eqn:E.
  destruct (rebuild_role_spec st r st1 orr I E) as [_ [_ [_ [_ [_ Ho]]]]].
  destruct orr as [rr'|].
  - destruct Ho as [rr [Er [Ex [Ed [G Hl]]]]]. rewrite Er, <- Ed.
    destruct (r_del rr') eqn:Edel; cbn [snd]; [reflexivity|].
    destruct (Hl eq_refl) as [l El]. rewrite El. cbn [opt_list]. exists l. split; [reflexivity|].
    intros c. rewrite (G l El c), Ex. reflexivity.
  - rewrite Ho. reflexivity.
Qed.

(* ---------- a load raced by an admin edit ---------- *)
Lemma set_eqb_refl x : set_eqb x x = true.
Proof. apply set_eqb_spec. intros c; reflexivity. Qed.

Lemma nlist_eqb_eq (a b : list N) : list_eqb N.eqb a b = true <-> a = b.
Proof. apply list_eqb_eq. intros x y. apply N.eqb_eq. Qed.

Lemma onlist_eqb_eq (a b : option (list N)) : option_eqb (list_eqb N.eqb) a b = true -> a = b.
Proof.
  destruct a, b; cbn [option_eqb]; intros H; try discriminate; [apply nlist_eqb_eq in H; congruence | reflexivity].
Qed.

Lemma urec_eqb_true a b : urec_eqb a b = true -> a = b.
Proof.
  unfold urec_eqb. rewrite !andb_true_iff. intros [[[H1 H2] H3] H4].
  apply nlist_eqb_eq in H1, H3. apply onlist_eqb_eq in H2, H4. destruct a, b. cbn in *. congruence.
Qed.

Lemma rrec_eqb_true a b : rrec_eqb a b = true -> a = b.
Proof.
  unfold rrec_eqb. rewrite !andb_true_iff. intros [[H1 H2] H3].
  apply eqb_prop in H1. apply nlist_eqb_eq in H2. apply onlist_eqb_eq in H3. destruct a, b. cbn in *. congruence.
Qed.

(* the edit always leaves a document different from the invalidated one that was read *)
Lemma edit_differs ur ur0 c r :
  u_xch ur = u_xch ur0 -> u_xro ur = u_xro ur0 ->
  (exists a, u_ch ur = Some a) -> (exists b, u_ro ur = Some b) -> user_needs_rebuild ur0 = true ->
  let ur1 := match c with
             | Some c => if set_eqb c (u_xch ur) then ur else mkU c None (u_xro ur) (u_ro ur)
             | None => ur
             end in
  let ur2 := match r with
             | Some r => if set_eqb r (u_xro ur1) then ur1 else mkU (u_xch ur1) (u_ch ur1) r None
             | None => ur1
             end in
  ur2 <> ur0.
Proof.
  intros Hx Hr [a Ha] [b Hb] Hn ur1 ur2 Heq. subst ur2 ur1. unfold user_needs_rebuild in Hn.
  destruct c as [c|]; [destruct (set_eqb c (u_xch ur)) eqn:Ec|];
    (destruct r as [r|]; [match type of Heq with context[set_eqb r ?x] => destruct (set_eqb r x) eqn:Er end|]);
    subst ur0; cbn [u_xch u_ch u_xro u_ro] in *;
    try (rewrite Ha, Hb in Hn; discriminate);
    try (rewrite Hr, set_eqb_refl in Er; discriminate);
    try (rewrite Hx, set_eqb_refl in Ec; discriminate).
Qed.

Lemma set_user_differs st u c r ur0 :
  users st u = Some ur0 -> user_needs_rebuild ur0 = true -> users (fst (set_user st u c r)) u <> Some ur0.
Proof.
  intros E0 Hn. unfold set_user, rebuild_user. rewrite E0.
  set (ur := mkU (u_xch ur0) _ (u_xro ur0) _).
  pose proof (edit_differs ur ur0 c r eq_refl eq_refl (ex_intro _ _ eq_refl) (ex_intro _ _ eq_refl) Hn) as H.
  cbv zeta in H. cbn [fst users set_users]. unfold upd. rewrite N.eqb_refl.
  intros Heq. injection Heq as Heq. exact (H Heq).
Qed.

Lemma set_role_differs st r c rr0 :
  roles st r = Some rr0 -> role_needs_rebuild rr0 = true -> roles (fst (set_role st r c)) r <> Some rr0.
Proof.
  intros E0 Hn. unfold role_needs_rebuild in Hn. apply andb_true_iff in Hn. destruct Hn as [Hd Hn].
  apply negb_true_iff in Hd. unfold set_role, rebuild_role. rewrite E0, Hd. cbn [fst roles set_roles r_del].
  unfold upd. rewrite N.eqb_refl. intros Heq. injection Heq as Heq. revert Heq.
  assert (Hnone : r_ch rr0 = None) by (destruct (r_ch rr0); [discriminate | reflexivity]).
  destruct c as [c|]; [destruct (set_eqb c _) eqn:Ec|]; cbn [r_xch] in *; intros Heq.
  - apply (f_equal r_ch) in Heq. cbn [r_ch] in Heq. congruence.
  - apply (f_equal r_xch) in Heq. cbn [r_xch] in Heq. rewrite <- Heq, set_eqb_refl in Ec. discriminate.
  - apply (f_equal r_ch) in Heq. cbn [r_ch] in Heq. congruence.
Qed.

(* the raced load is exactly the sequential "edit, then load": same answer, same persisted state *)
Lemma load_user_race_eq st u c r ur0 :
  users st u = Some ur0 -> user_needs_rebuild ur0 = true ->
  load_user_race st u c r = load_user (fst (set_user st u c r)) u.
Proof.
  intros E0 Hn. unfold load_user_race. rewrite E0, Hn. cbv zeta.
  destruct (option_eqb urec_eqb (users (fst (set_user st u c r)) u) (Some ur0)) eqn:E; [|reflexivity].
  exfalso. apply (set_user_differs st u c r ur0 E0 Hn).
  destruct (users (fst (set_user st u c r)) u) as [x|]; cbn [option_eqb] in E; [|discriminate].
  apply urec_eqb_true in E. congruence.
Qed.

Lemma load_role_race_eq st r c rr0 :
  roles st r = Some rr0 -> role_needs_rebuild rr0 = true ->
  load_role_race st r c = load_role (fst (set_role st r c)) r.
Proof.
  intros E0 Hn. unfold load_role_race. rewrite E0, Hn. cbv zeta.
  destruct (option_eqb rrec_eqb (roles (fst (set_role st r c)) r) (Some rr0)) eqn:E; [|reflexivity].
  exfalso. apply (set_role_differs st r c rr0 E0 Hn).
  destruct (roles (fst (set_role st r c)) r) as [x|]; cbn [option_eqb] in E; [|discriminate].
  apply rrec_eqb_true in E. congruence.
Qed.

Lemma load_user_race_Inv st u c r : Inv st -> Inv (fst (load_user_race st u c r)).
Proof.
  intros I. destruct (users st u) as [ur0|] eqn:E0.
  - destruct (user_needs_rebuild ur0) eqn:Hn.
    + rewrite (load_user_race_eq st u c r ur0 E0 Hn). apply load_user_correct. apply set_user_Inv. exact I.
    + unfold load_user_race. rewrite E0, Hn. cbn [fst]. apply set_user_Inv. apply load_user_correct. exact I.
  - unfold load_user_race. rewrite E0. cbn [fst]. apply set_user_Inv. exact I.
Qed.

Lemma load_role_race_Inv st r c : Inv st -> Inv (fst (load_role_race st r c)).
Proof.
  intros I. destruct (roles st r) as [rr0|] eqn:E0.
  - destruct (role_needs_rebuild rr0) eqn:Hn.
    + rewrite (load_role_race_eq st r c rr0 E0 Hn). apply load_role_Inv. apply set_role_Inv. exact I.
    + unfold load_role_race. rewrite E0, Hn. cbn [fst]. apply set_role_Inv. apply load_role_Inv. exact I.
  - unfold load_role_race. rewrite E0. cbn [fst]. apply set_role_Inv. exact I.
Qed.

Lemma step_Inv st o : Inv st -> op_ok o -> Inv (fst (step st o)).
Proof.
  intros I H. destruct o; cbn [step].
  - apply put_Inv; exact I.
  - apply purge_Inv; assumption.
  - apply set_user_Inv; exact I.
  - apply set_role_Inv; exact I.
  - apply del_role_Inv; exact I.
  - apply del_user_Inv; exact I.
  - apply load_user_correct; exact I.
  - apply load_role_Inv; exact I.
  - apply load_user_race_Inv; exact I.
  - apply load_role_race_Inv; exact I.
Qed.

Lemma purge_ok_cons o ops : purge_ok (o :: ops) -> op_ok o /\ purge_ok ops.
Proof.
  unfold purge_ok, op_ok. intros [H|H]; [auto|]. cbn [forallb] in H. apply andb_true_iff in H.
  destruct H as [H1 H2]. apply negb_true_iff in H1. auto.
Qed.

Lemma run_Inv ops : forall st, Inv st -> purge_ok ops -> Inv (run st ops).
Proof.
  induction ops as [|o ops IH]; intros st I H; cbn [run]; [exact I|].
  apply purge_ok_cons in H. destruct H as [H1 H2]. apply IH; [apply step_Inv; assumption | exact H2].
Qed.

Lemma reachable_Inv ops : purge_ok ops -> Inv (run init ops).
Proof. apply run_Inv. exact Inv_init. Qed.

(* ---------- observational consequences ---------- *)
Definition out_equiv (a b : out) : Prop :=
  match a, b with
  | OStatus x, OStatus y => x = y
  | OUser None, OUser None => True
  | OUser (Some (c, r)), OUser (Some (c', r')) => (forall x, In x c <-> In x c') /\ (forall x, In x r <-> In x r')
  | ORole None, ORole None => True
  | ORole (Some c), ORole (Some c') => forall x, In x c <-> In x c'
  | _, _ => False
  end.

Lemma role_grants_truth s1 s2 r c :
  (forall d, wverdict (d_leaves (docs s1 d)) = wverdict (d_leaves (docs s2 d))) ->
  rcore (roles s1 r) = rcore (roles s2 r) -> (role_grants s1 r c <-> role_grants s2 r c).
Proof.
  intros Hd Hc. unfold role_grants. unfold rcore in Hc.
  assert (Ho : forall xch, own_spec (docs s1) (PR r) xch c <-> own_spec (docs s2) (PR r) xch c).
  { intros xch. apply own_spec_iff. intros x. apply truth_chan_ext. exact Hd. }
  split; intros [rr [E [Hdel H]]].
  - rewrite E in Hc. destruct (roles s2 r) as [rr0|]; cbn [option_map] in Hc; [|discriminate]. inv Hc.
    exists rr0. split; [reflexivity|]. split; [congruence|]. rewrite <- H2. apply Ho. exact H.
  - rewrite E in Hc. destruct (roles s1 r) as [rr0|]; cbn [option_map] in Hc; [|discriminate]. inv Hc.
    exists rr0. split; [reflexivity|]. split; [congruence|]. rewrite H2. apply Ho. exact H.
Qed.

Lemma user_spec_truth s1 s2 u ur1 ur2 c :
  same_truth s1 s2 -> u_xch ur1 = u_xch ur2 -> u_xro ur1 = u_xro ur2 ->
  (user_spec s1 u ur1 c <-> user_spec s2 u ur2 c).
Proof.
  intros [Hd [_ Hr]] Ex Er. unfold user_spec. rewrite Ex, Er.
  assert (Ho : own_spec (docs s1) (PU u) (u_xch ur2) c <-> own_spec (docs s2) (PU u) (u_xch ur2) c).
  { apply own_spec_iff. intros x. apply truth_chan_ext. exact Hd. }
  assert (Hrs : forall r, roles_spec (docs s1) u (u_xro ur2) r <-> roles_spec (docs s2) u (u_xro ur2) r).
  { apply roles_spec_iff. intros x. apply truth_role_ext. exact Hd. }
  rewrite Ho. split; (intros [H|[r [H1 H2]]]; [left; exact H | right; exists r]).
  - split; [apply Hrs; exact H1 | apply (role_grants_truth s1 s2 r c Hd (Hr r)); exact H2].
  - split; [apply Hrs; exact H1 | apply (role_grants_truth s1 s2 r c Hd (Hr r)); exact H2].
Qed.

(* two states with the same ground truth answer every user load alike, whatever the histories that built them *)
Lemma same_truth_loads s1 s2 u :
  Inv s1 -> Inv s2 -> same_truth s1 s2 -> out_equiv (snd (load_user s1 u)) (snd (load_user s2 u)).
Proof.
  intros I1 I2 T. destruct (load_user_correct s1 u I1) as [_ H1]. destruct (load_user_correct s2 u I2) as [_ H2].
  pose proof T as [Hd [Hu Hr]]. specialize (Hu u).
  destruct (users s1 u) as [ur1|]; destruct (users s2 u) as [ur2|]; cbn [option_map] in Hu; try discriminate.
  - inv Hu. destruct H1 as [c1 [r1 [E1 [Hc1 Hr1]]]]. destruct H2 as [c2 [r2 [E2 [Hc2 Hr2]]]].
    rewrite E1, E2. cbn [out_equiv]. split; intros x.
    + rewrite Hc1, Hc2. apply user_spec_truth; assumption.
    + rewrite Hr1, Hr2, H3. apply roles_spec_iff. intros y. apply truth_role_ext. exact Hd.
  - rewrite H1, H2. exact Logic.I.
Qed.

(* the state obtained by forgetting document d altogether *)
Definition without_doc (st : state) (d : N) : state :=
  mkS (upd (docs st) d dempty) (ids st) (users st) (roles st).

Lemma without_tombstoned st d :
  wverdict (d_leaves (docs st d)) = vempty -> same_truth st (without_doc st d).
Proof.
  intros H. split; [|split; reflexivity]. intros x. cbn [without_doc docs]. unfold upd.
  destruct (x =? d) eqn:E; [|reflexivity]. apply N.eqb_eq in E. subst. rewrite H. reflexivity.
Qed.

Lemma tombstone_winner_grants_nothing ls w : winner ls = Some w -> l_body w = None -> wverdict ls = vempty.
Proof. intros E H. unfold wverdict, eff_verdict. rewrite E, H. reflexivity. Qed.

Lemma same_truth_refl st : same_truth st st.
Proof. split; [|split]; reflexivity. Qed.

(* a write after which the winning revision of d is the one it was before changes nobody's ground truth *)
Lemma put_same_winner_truth st d parent r b :
  Inv st ->
  same_winner (winner (d_leaves (docs st d))) (winner (d_leaves (docs (fst (put st d parent r b)) d))) = true ->
  same_truth (fst (put st d parent r b)) st.
Proof.
  intros I. unfold put.
  assert (Hgen : forall ob,
    let res := (if existsb (fun l => rev_eqb (l_rev l) r) (d_leaves (docs st d)) then (st, OStatus true)
         else
           let lf := mkLeaf r ob in
           let lv := lf :: remove_leaf parent (d_leaves (docs st d)) in
           let ids' := if mem d (ids st) then ids st else d :: ids st in
           if same_winner (winner (d_leaves (docs st d))) (winner lv)
           then (mkS (upd (docs st) d (mkD lv (d_acc (docs st d)) (d_rol (docs st d)))) ids' (users st) (roles st), OStatus true)
           else
             let v := wverdict lv in
             let ca := changed_keys pid_eqb (d_acc (docs st d)) (v_acc v) in
             let cr := changed_keys N.eqb (d_rol (docs st d)) (v_rol v) in
             (mkS (upd (docs st) d (mkD lv (v_acc v) (v_rol v))) ids'
                  (inval_users ca cr (users st)) (inval_rolemap ca (roles st)), OStatus true)) in
    same_winner (winner (d_leaves (docs st d))) (winner (d_leaves (docs (fst res) d))) = true ->
    same_truth (fst res) st).
  { intros ob. cbv zeta. destruct (existsb _ _) eqn:Ef; [intros _; apply same_truth_refl|].
    destruct (same_winner (winner (d_leaves (docs st d))) (winner (mkLeaf r ob :: remove_leaf parent (d_leaves (docs st d))))) eqn:Es;
      cbn [fst docs]; intros H.
    - split; [|split; reflexivity]. intros x. cbn [docs]. unfold upd. destruct (x =? d) eqn:E; [|reflexivity].
      apply N.eqb_eq in E. subst x. cbn [d_leaves].
      apply same_winner_verdict; [exact (inv_nodup st I d) | exact Ef | exact Es].
    - unfold upd in H. rewrite N.eqb_refl in H. cbn [d_leaves] in H. congruence. }
  destruct b as [v| |]; [apply Hgen | apply Hgen | intros _; apply same_truth_refl].
Qed.
