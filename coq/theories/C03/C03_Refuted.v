(* C03 -- statements the faithful model of the UNCHANGED code violates (genuine defect, not part of the
   property obligations).

   db/crud.go Purge removes a granting document without MarkPrincipalsChanged: the grantee keeps the channels
   (and roles) the document conferred until some unrelated invalidation.  Witness: create user 0; document 0
   grants channel 1 to user 0; load; purge document 0; the next load still returns channel 1 although no
   document grants it.  Reproduced on the real code by the harness (monitor access_spec, signature
   purge-stale-grant). *)
From SG Require Import Base.Prelude C03.Access C03.AccessSpec C03.Effective C03.AccessX C03.Session.
Open Scope N_scope.

Definition purge_witness : list op :=
  [SetUser 0 None None; Put 0 None (1, 5) (BLive (mkV [(PU 0, [1])] [])); LoadUser 0; Purge 0].

Theorem C03_access_spec_with_purge_refuted :
  exists ops u ur chs ros,
    users (run init ops) u = Some ur /\
    snd (step (run init ops) (LoadUser u)) = OUser (Some (chs, ros)) /\
    ~ (forall c, In c chs <-> user_spec (run init ops) u ur c).
Proof.
  exists purge_witness, 0, (mkU [] (Some [1; 0]) [] (Some [])), [1; 0], [].
  split; [vm_compute; reflexivity|]. split; [vm_compute; reflexivity|].
  intros H. assert (Hin : In 1 [1; 0]) by (left; reflexivity). apply H in Hin.
  assert (Hd : forall d, wverdict (d_leaves (docs (run init purge_witness) d)) = vempty).
  { intros d. cbn. unfold upd. destruct (d =? 0); reflexivity. }
  destruct Hin as [[Hx|[[d Ht]|Hp]]|[r [[Hx|[d Ht]] _]]].
  - destruct Hx.
  - rewrite Hd in Ht. destruct Ht.
  - discriminate.
  - destruct Hx.
  - rewrite Hd in Ht. destruct Ht.
Qed.
Print Assumptions C03_access_spec_with_purge_refuted.

(* ---------- the access API does not agree with ONE effective set in two corners (Effective.v is faithful) ---------- *)

(* (a) REPAIRED in /repo by a58a51d; the statement below is about the code BEFORE the repair ([authorize_any_with true]),
   the model of the current code is [authorize_any] = [authorize_any_with false] (C03_authorize_any_agrees).
   AuthorizeAnyCollectionChannel of the EMPTY channel set (a document that is in no channel) in the DEFAULT
   collection ignored a "*" held through a role: auth/role.go authorizeAnyChannel tested princ.Channels() (the user's
   own channels) where the named-collection code also asks every role.  Witness: role 0 has admin channel "*", user 0
   has admin role 0: "*" is in the effective set, CanSeeCollectionChannel is true for every channel, a named collection
   authorizes the empty set, the old default-collection code does not.  Reproduced on the real code with a58a51d
   reverted (monitor effective_set, signature authorize-any-empty-set-ignores-role-star). *)
Definition role_star_witness : list xop := [XSetRole 0 (Some [star]) 1; XSetUser 0 None (Some [0]) 2; XLoadUser 0].

Theorem C03_authorize_any_agrees_refuted :
  exists def ops u,
    xwf (xinit def) ops = true /\
    let v := view_of (xrun (xinit def) ops) u in
    In star (effective_set v) /\ can_see v 1 = true /\
    authorize_any_with true false v [] = true /\ authorize_any_with true true v [] = false /\
    authorize_any true v [] = true.
Proof.
  exists true, role_star_witness, 0. split; [vm_compute; reflexivity|]. cbv zeta.
  split; [vm_compute; right; left; reflexivity|]. repeat split; vm_compute; reflexivity.
Qed.
Print Assumptions C03_authorize_any_agrees_refuted.

(* (b) the since value FilterToAvailableCollectionChannels reports for a channel held through a role is the ROLE's since
   value (canSeeChannelSince), not max(role's since value, sequence at which the user got the role) as in
   InheritedCollectionChannels: a channel filter on the changes feed sees the channel as granted earlier than the
   all-channels feed does.  Witness: role 0 gets channel 1 at sequence 1, user 0 gets role 0 at sequence 4. *)
Definition late_role_witness : list xop :=
  [XSetRole 0 (Some [1]) 1; XSetUser 0 None None 2; XSetUser 1 None None 3; XSetUser 0 None (Some [0]) 4; XLoadUser 0].

Theorem C03_filter_since_is_not_inherited_since :
  exists def ops u c,
    xwf (xinit def) ops = true /\
    let v := view_of (xrun (xinit def) ops) u in
    since (fst (filter_available v [c])) c = 1 /\ since (inherited v) c = 4.
Proof.
  exists true, late_role_witness, 0, 1. split; [vm_compute; reflexivity|]. cbv zeta. split; vm_compute; reflexivity.
Qed.
Print Assumptions C03_filter_since_is_not_inherited_since.

(* ---------- long-lived sessions: before e7d0448 the DELETION of a principal document was not notified ---------- *)
(* REPAIRED in /repo by e7d0448; the statement below is about the code BEFORE the repair ([sstep false] / [srun false]),
   the model of the current code is [sstep_now] = [sstep true] (C03_session_request_sees_current_access,
   C03_deleted_user_session_request_fails).
   db/change_listener.go changeListener.ProcessFeedEvent returned before notifyKey when the feed event was not a
   mutation, so an open BLIP connection / continuous feed was not told that a role was PURGED (DeleteRole purge:
   datastore.Delete) or that its user was DELETED: its next requests were authorized with the user object cached before.
   Witnesses: role 0 has channel 2, user 0 holds role 0, a session is opened, role 0 is purged -- the session still sees
   channel 2 where a fresh request does not; user 0 is deleted -- its session still answers.  Reproduced on the real code
   with e7d0448 reverted (monitor waiter_keys_cover_access_sources, signature session-stale-after-unnotified-delete).
   With the repair the same histories answer with the fresh access / fail (second part of each witness). *)
Definition purged_role_witness : list sop :=
  [SBase (SetRole 0 (Some [2])); SBase (SetUser 0 None (Some [0])); SOpen 0 0 false; SBase (DelRole 0 true)].
Definition deleted_user_witness : list sop :=
  [SBase (SetUser 0 (Some [1]) None); SOpen 0 0 false; SBase (DelUser 0)].

Theorem C03_session_request_sees_current_access_with_deletions_refuted :
  (exists ops id chs ros,
     snd (sstep false (srun false sinit ops) (SRequest id)) = SView (Some (chs, ros)) /\ In 2 chs /\
     snd (load_user (ss_st (srun false sinit ops)) 0) = OUser (Some ([0], [0])) /\
     snd (sstep_now (srun_now sinit ops) (SRequest id)) = SView (Some ([0], [0]))) /\
  (exists ops id v,
     snd (sstep false (srun false sinit ops) (SRequest id)) = SView (Some v) /\
     snd (load_user (ss_st (srun false sinit ops)) 0) = OUser None /\
     snd (sstep_now (srun_now sinit ops) (SRequest id)) = SErr).
Proof.
  split.
  - exists purged_role_witness, 0, [0; 2; 0], [0]. split; [vm_compute; reflexivity|]. split; [right; left; reflexivity|].
    split; vm_compute; reflexivity.
  - exists deleted_user_witness, 0, ([1; 0], []). repeat split; vm_compute; reflexivity.
Qed.
Print Assumptions C03_session_request_sees_current_access_with_deletions_refuted.

(* ---------- before 3cadf88 a re-created role lost its channel history in a NAMED collection ---------- *)
(* REPAIRED in /repo by 3cadf88 (found by C13); about the code BEFORE the repair ([x_edit_role_with false]); the model of
   the current code is [x_edit_role] = [x_edit_role_with true] (C03_role_history_survives_delete_and_recreate).
   auth.NewRole / NewRoleNoChannels carried over only the default collection's channel history of a soft-deleted role:
   in a named collection (xinit false) role 0 with channel 2 is soft-deleted at sequence 2 -- the history records
   [1, 2] for channel 2 -- and re-created: the old constructors start with an empty history, the repaired ones keep it. *)
Definition recreate_witness : list xop := [XSetRole 0 (Some [2]) 1; XDelRole 0 false 2].

Theorem C03_recreated_role_lost_named_history_before_3cadf88 :
  let xs := xrun (xinit false) recreate_witness in
  entries (g_hist (xr xs 0)) 2 = [(1, 2)] /\
  entries (g_hist (xr (x_edit_role_with false (x_rebuild_role xs 0) 0 None 3) 0)) 2 = [] /\
  entries (g_hist (xr (fst (xstep xs (XSetRole 0 None 3))) 0)) 2 = [(1, 2)].
Proof. cbv zeta. repeat split; vm_compute; reflexivity. Qed.
Print Assumptions C03_recreated_role_lost_named_history_before_3cadf88.
