(* C03 -- statements the faithful model of the UNCHANGED code violates (genuine defect, not part of the
   property obligations).

   db/crud.go Purge removes a granting document without MarkPrincipalsChanged: the grantee keeps the channels
   (and roles) the document conferred until some unrelated invalidation.  Witness: create user 0; document 0
   grants channel 1 to user 0; load; purge document 0; the next load still returns channel 1 although no
   document grants it.  Reproduced on the real code by the harness (monitor access_spec, signature
   purge-stale-grant). *)
From SG Require Import Base.Prelude C03.Access C03.AccessSpec.
Open Scope N_scope.

Definition purge_witness : list op :=
  [SetUser 0 None None; Put 0 None (1, 5) (BLive (mkV [(PU 0, [1])] [])); LoadUser 0; Purge 0].

Theorem C03_access_spec_with_purge_refuted :
  exists ops u ur chs ros,
    users (run init ops) u = Some ur /\
    snd (step (run init ops) (LoadUser u)) = OUser (Some (chs, ros)) /\
    ~ (forall c, In c chs <-> user_spec (run init ops) u ur c).
Proof.
  exists purge_witness, 0, (mkU [] (Some [1; 0]) [] (Some [])), [1; 0], [].
  split; [vm_compute; reflexivity|]. split; [vm_compute; reflexivity|].
  intros H. assert (Hin : In 1 [1; 0]) by (left; reflexivity). apply H in Hin.
  assert (Hd : forall d, wverdict (d_leaves (docs (run init purge_witness) d)) = vempty).
  { intros d. cbn. unfold upd. destruct (d =? 0); reflexivity. }
  destruct Hin as [[Hx|[[d Ht]|Hp]]|[r [[Hx|[d Ht]] _]]].
  - destruct Hx.
  - rewrite Hd in Ht. destruct Ht.
  - discriminate.
  - destruct Hx.
  - rewrite Hd in Ht. destruct Ht.
Qed.
Print Assumptions C03_access_spec_with_purge_refuted.
