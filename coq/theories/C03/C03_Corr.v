(* C03 correspondence: histories executed on a real database + Authenticator by the Go harness
   (harness/db/verif_c03_test.go) are re-run here on the model with vm_compute and the observables compared
   (channel and role sets as sets). *)
From SG Require Export Base.Prelude Base.Bytes C03.Access C03.Effective C03.AccessX C03.Session.
Open Scope N_scope.

Definition out_eqb (a b : out) : bool :=
  match a, b with
  | OStatus x, OStatus y => Bool.eqb x y
  | OUser None, OUser None => true
  | OUser (Some (c, r)), OUser (Some (c', r')) => set_eqb c c' && set_eqb r r'
  | ORole None, ORole None => true
  | ORole (Some c), ORole (Some c') => set_eqb c c'
  | _, _ => false
  end.

(* ---- extended histories (AccessX.v): sequences, histories, user-context writes, the access API ----
   TimedSets are compared as maps (same names, same sequence for every name), histories name by name (the entries
   of a name in order), channel-name lists as sets. *)
Definition tset_eqb (a b : tset) : bool :=
  set_eqb (keys a) (keys b) && forallb (fun c => since a c =? since b c) (keys a).
Definition pair_eqb (a b : N * N) : bool := (fst a =? fst b) && (snd a =? snd b).
Definition hist_eqb (a b : hist) : bool :=
  forallb (fun c => list_eqb pair_eqb (entries a c) (entries b c)) (map fst a ++ map fst b).
Definition gc_eqb (a b : gc) : bool :=
  tset_eqb (g_x a) (g_x b) && tset_eqb (g_c a) (g_c b) && (g_inv a =? g_inv b) && hist_eqb (g_hist a) (g_hist b).
Definition ask_eqb (a b : bool * (tset * list N)) : bool :=
  Bool.eqb (fst a) (fst b) && tset_eqb (fst (snd a)) (fst (snd b)) && set_eqb (snd (snd a)) (snd (snd b)).

(* timed access maps: the same TimedSet for every key *)
Definition tmap_eqb {K} (eqb : K -> K -> bool) (a b : list (K * tset)) : bool :=
  forallb (fun k => tset_eqb (tgrants eqb a k) (tgrants eqb b k)) (map fst a ++ map fst b).

Definition xout_eqb (a b : xout) : bool :=
  match a, b with
  | XStatus x, XStatus y => Bool.eqb x y
  | XUser None, XUser None => true
  | XUser (Some (i, ro, ch, h, rh)), XUser (Some (i', ro', ch', h', rh')) =>
    tset_eqb i i' && tset_eqb ro ro' && tset_eqb ch ch' && hist_eqb h h' && hist_eqb rh rh'
  | XRole None, XRole None => true
  | XRole (Some (ch, h)), XRole (Some (ch', h')) => tset_eqb ch ch' && hist_eqb h h'
  | XPeekU None, XPeekU None => true
  | XPeekU (Some (c, r)), XPeekU (Some (c', r')) => gc_eqb c c' && gc_eqb r r'
  | XPeekR None, XPeekR None => true
  | XPeekR (Some (d, g)), XPeekR (Some (d', g')) => Bool.eqb d d' && gc_eqb g g'
  | XDoc a r, XDoc a' r' => tmap_eqb pid_eqb a a' && tmap_eqb N.eqb r r'
  | XQuery None, XQuery None => true
  | XQuery (Some (cs, qs)), XQuery (Some (cs', qs')) => list_eqb Bool.eqb cs cs' && list_eqb ask_eqb qs qs'
  | _, _ => false
  end.

(* long-lived sessions (Session.v): what the session's user object grants after each of its requests *)
Definition sout_eqb (a b : sout) : bool :=
  match a, b with
  | SO x, SO y => out_eqb x y
  | SView None, SView None => true
  | SView (Some (c, r)), SView (Some (c', r')) => set_eqb c c' && set_eqb r r'
  | SErr, SErr => true
  | SClosed, SClosed => true
  | _, _ => false
  end.

Inductive case :=
| Case (ops : list op) (observed : list out)
| SCase (ops : list sop) (observed : list sout)
(* a history on the extended model: the collection is the default one?, the operations with the sequences the
   implementation allocated, the observables; the sequences must satisfy the hypothesis of the theorems (xwf) *)
| XCase (def : bool) (ops : list xop) (observed : list xout).

Definition check (c : case) : bool :=
  match c with
  | Case ops observed => list_eqb out_eqb (outs init ops) observed
  | SCase ops observed => list_eqb sout_eqb (souts_now sinit ops) observed
  | XCase def ops observed => xwf (xinit def) ops && list_eqb xout_eqb (xouts (xinit def) ops) observed
  end.

Definition mismatches (cs : list case) : list N := failing check cs.
