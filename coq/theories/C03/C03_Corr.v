(* C03 correspondence: histories executed on a real database + Authenticator by the Go harness
   (harness/db/verif_c03_test.go) are re-run here on the model with vm_compute and the observables compared
   (channel and role sets as sets). *)
From SG Require Export Base.Prelude Base.Bytes C03.Access.
Open Scope N_scope.

Definition out_eqb (a b : out) : bool :=
  match a, b with
  | OStatus x, OStatus y => Bool.eqb x y
  | OUser None, OUser None => true
  | OUser (Some (c, r)), OUser (Some (c', r')) => set_eqb c c' && set_eqb r r'
  | ORole None, ORole None => true
  | ORole (Some c), ORole (Some c') => set_eqb c c'
  | _, _ => false
  end.

Inductive case :=
| Case (ops : list op) (observed : list out).

Definition check (c : case) : bool :=
  match c with
  | Case ops observed => list_eqb out_eqb (outs init ops) observed
  end.

Definition mismatches (cs : list case) : list N := failing check cs.
