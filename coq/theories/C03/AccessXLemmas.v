(* C03 -- lemmas about the timed access maps, restamping and the grant history (AccessX.v). *)
From SG Require Import Base.Prelude C03.Access C03.AccessSpec C03.AccessProofs C03.Effective C03.EffectiveProofs C03.AccessX.
Open Scope N_scope.

(* ---------- restamp (TimedSet.UpdateAtSequence) ---------- *)
Lemma keys_restamp old new s : keys (restamp old new s) = new.
Proof. unfold keys, restamp. rewrite map_map. cbn [fst]. apply map_id. Qed.

Lemma nmin0_idem a : nmin0 a a = a.
Proof. unfold nmin0. destruct (N.eqb_spec a 0); cbv iota; lia. Qed.

(* the sequence of a name after the update: kept when the name was there, the new sequence otherwise *)
Lemma since_restamp old new s c :
  since (restamp old new s) c = if mem c new then (if since old c =? 0 then s else since old c) else 0.
Proof.
  induction new as [|x new IH]; [reflexivity|].
  cbn [restamp map since fst snd]. fold (restamp old new s). rewrite IH. unfold mem. cbn [existsb].
  fold (mem c new). rewrite (N.eqb_sym c x). destruct (N.eqb_spec x c) as [->|Hx]; cbn [orb]; [|reflexivity].
  destruct (mem c new); [apply nmin0_idem | apply nmin0_0_r].
Qed.

Lemma restamp_pos old new s : all_pos old -> 0 < s -> all_pos (restamp old new s).
Proof.
  intros P Hs e He. unfold restamp in He. apply in_map_iff in He. destruct He as [x [<- _]]. cbn [snd].
  destruct (N.eqb_spec (since old x) 0); lia.
Qed.

Lemma since_le t n c : (forall e, In e t -> snd e <= n) -> since t c <= n.
Proof.
  intros H. induction t as [|e t IH]; cbn [since]; [lia|].
  assert (He : snd e <= n) by (apply H; left; reflexivity).
  assert (Ht : since t c <= n) by (apply IH; intros x Hx; apply H; right; exact Hx).
  destruct (fst e =? c); [|exact Ht].
  destruct (nmin0_cases (snd e) (since t c)) as [[_ ->]|[[_ ->]|[_ [_ ->]]]]; lia.
Qed.

Lemma restamp_le old new s n : (forall e, In e old -> snd e <= n) -> s <= n -> forall e, In e (restamp old new s) -> snd e <= n.
Proof.
  intros H Hs e He. unfold restamp in He. apply in_map_iff in He. destruct He as [x [<- _]]. cbn [snd].
  pose proof (since_le old n x H). destruct (N.eqb_spec (since old x) 0); lia.
Qed.

(* every sequence in a restamped set is an old one of the same name, or the new sequence *)
Lemma restamp_entry old new s e :
  In e (restamp old new s) -> (since old (fst e) <> 0 /\ snd e = since old (fst e)) \/ (since old (fst e) = 0 /\ snd e = s).
Proof.
  intros He. unfold restamp in He. apply in_map_iff in He. destruct He as [x [<- _]]. cbn [fst snd].
  destruct (N.eqb_spec (since old x) 0); [right | left]; split; auto.
Qed.

(* ---------- timed access maps ---------- *)
Definition erase_map {K} (m : list (K * tset)) : list (K * list N) := map (fun e => (fst e, keys (snd e))) m.
Definition tmap_pos {K} (m : list (K * tset)) : Prop := forall e, In e m -> all_pos (snd e).
Definition tmap_le {K} (m : list (K * tset)) (n : N) : Prop := forall e x, In e m -> In x (snd e) -> snd x <= n.

Section TMap.
  Context {K : Type} (eqb : K -> K -> bool) (eqb_eq : forall a b, eqb a b = true <-> a = b).

  Lemma keys_tgrants (m : list (K * tset)) k : keys (tgrants eqb m k) = grants eqb (erase_map m) k.
  Proof.
    unfold tgrants, grants, erase_map, tset in *. induction m as [|e m IH]; [reflexivity|].
    cbn [flat_map map fst snd]. rewrite keys_app, IH. destruct (eqb (fst e) k); reflexivity.
  Qed.

  Lemma tgrants_pos (m : list (K * tset)) k : tmap_pos m -> all_pos (tgrants eqb m k).
  Proof.
    intros P x Hx. unfold tgrants in Hx. apply in_flat_map in Hx. destruct Hx as [e [He Hx]].
    destruct (eqb (fst e) k); [exact (P e He x Hx) | destruct Hx].
  Qed.

  Lemma tgrants_le (m : list (K * tset)) k n : tmap_le m n -> forall x, In x (tgrants eqb m k) -> snd x <= n.
  Proof.
    intros P x Hx. unfold tgrants in Hx. apply in_flat_map in Hx. destruct Hx as [e [He Hx]].
    destruct (eqb (fst e) k); [exact (P e x He Hx) | destruct Hx].
  Qed.

  Lemma erase_stamp old (new : list (K * list N)) s : erase_map (stamp eqb old new s) = new.
  Proof.
    unfold erase_map, stamp. rewrite map_map. cbn [fst snd].
    induction new as [|e new IH]; [reflexivity|]. cbn [map]. rewrite keys_restamp, IH. destruct e; reflexivity.
  Qed.

  (* the entries of key k after updateAccess: the new granted set of k, restamped against the old entries of k *)
  Lemma since_tgrants_stamp old (new : list (K * list N)) s k c :
    since (tgrants eqb (stamp eqb old new s) k) c =
    if mem c (grants eqb new k) then (if since (tgrants eqb old k) c =? 0 then s else since (tgrants eqb old k) c) else 0.
  Proof.
    unfold tgrants at 1. unfold stamp, grants.
    induction new as [|e new IH]; [reflexivity|].
    cbn [map flat_map fst snd]. rewrite since_app, IH. clear IH.
    destruct (eqb (fst e) k) eqn:Ek.
    - apply eqb_eq in Ek. rewrite Ek, since_restamp. unfold mem. rewrite existsb_app. fold (mem c (snd e)).
      destruct (mem c (snd e)); cbn [orb].
      + destruct (existsb (N.eqb c) _); [apply nmin0_idem | apply nmin0_0_r].
      + apply nmin0_0_l.
    - cbn [since app]. apply nmin0_0_l.
  Qed.

  Lemma stamp_pos old (new : list (K * list N)) s : tmap_pos old -> 0 < s -> tmap_pos (stamp eqb old new s).
  Proof.
    intros P Hs e He. unfold stamp in He. apply in_map_iff in He. destruct He as [x [<- _]]. cbn [snd].
    apply restamp_pos; [apply tgrants_pos; exact P | exact Hs].
  Qed.

  Lemma stamp_le old (new : list (K * list N)) s n : tmap_le old n -> s <= n -> tmap_le (stamp eqb old new s) n.
  Proof.
    intros P Hs e y He Hy. unfold stamp in He. apply in_map_iff in He. destruct He as [x [<- _]]. cbn [snd] in Hy.
    eapply restamp_le; [|exact Hs|exact Hy]. apply tgrants_le. exact P.
  Qed.

  (* a key whose granted set is the same before and after keeps every sequence *)
  Lemma stamp_since_same old (new : list (K * list N)) s k c :
    tmap_pos old ->
    (forall x, In x (grants eqb (erase_map old) k) <-> In x (grants eqb new k)) ->
    since (tgrants eqb (stamp eqb old new s) k) c = since (tgrants eqb old k) c.
  Proof.
    intros P H. rewrite since_tgrants_stamp.
    pose proof (tgrants_pos old k P) as Pk.
    destruct (mem c (grants eqb new k)) eqn:Em.
    - apply mem_In in Em. apply H in Em. rewrite <- keys_tgrants in Em.
      apply (since_pos_iff _ _ Pk) in Em. destruct (N.eqb_spec (since (tgrants eqb old k) c) 0); [contradiction | reflexivity].
    - symmetry. apply (since_zero_iff _ _ Pk). rewrite keys_tgrants. intros Hin. apply H in Hin. apply mem_In in Hin. congruence.
  Qed.
End TMap.

Lemma since_flat_map_ext {A} (f g : A -> tset) l c :
  (forall x, In x l -> since (f x) c = since (g x) c) -> since (flat_map f l) c = since (flat_map g l) c.
Proof.
  induction l as [|x l IH]; intros H; cbn [flat_map]; [reflexivity|].
  rewrite !since_app, (H x (or_introl eq_refl)), IH; [reflexivity|]. intros y Hy. apply H. right. exact Hy.
Qed.

Lemma flat_map_pos {A} (f : A -> tset) l : (forall x, In x l -> all_pos (f x)) -> all_pos (flat_map f l).
Proof.
  intros H e He. apply in_flat_map in He. destruct He as [x [Hx He]]. exact (H x Hx e He).
Qed.

(* ---------- calculateHistory ---------- *)
Definition hist_le (h : hist) (n : N) : Prop := forall e, In e h -> fst (snd e) <= n /\ snd (snd e) <= n.

Lemma set_first_start_in h c s e :
  In e (set_first_start h c s) -> In e h \/ (fst e = c /\ fst (snd e) = s /\ exists e0, In e0 h /\ fst e0 = c /\ snd (snd e0) = snd (snd e)).
Proof.
  induction h as [|x h IH]; cbn [set_first_start]; [intros []|].
  destruct (N.eqb_spec (fst x) c) as [Ex|Ex].
  - intros [<-|H]; [|left; right; exact H]. right. cbn [fst snd]. split; [exact Ex|]. split; [reflexivity|].
    exists x. split; [left; reflexivity|]. split; [exact Ex | reflexivity].
  - intros [<-|H]; [left; left; reflexivity|]. destruct (IH H) as [H1|[H1 [H2 [e0 [H3 H4]]]]]; [left; right; exact H1|].
    right. split; [exact H1|]. split; [exact H2|]. exists e0. split; [right; exact H3 | exact H4].
Qed.

Lemma compact1_in h c e :
  In e (compact1 h c) -> In e h \/ (fst e = c /\ exists e0 e1, In e0 h /\ In e1 h /\ fst (snd e) = fst (snd e0) /\ snd (snd e) = snd (snd e1)).
Proof.
  induction h as [|x h IH]; cbn [compact1]; [intros []|].
  destruct (N.eqb_spec (fst x) c) as [Ex|Ex].
  - intros H. apply set_first_start_in in H. destruct H as [H|[H1 [H2 [e0 [H3 [_ H4]]]]]]; [left; right; exact H|].
    right. split; [exact H1|]. exists x, e0. split; [left; reflexivity|]. split; [right; exact H3|]. split; [exact H2 | symmetry; exact H4].
  - intros [<-|H]; [left; left; reflexivity|]. destruct (IH H) as [H1|[H1 [e0 [e1 [H2 [H3 H4]]]]]]; [left; right; exact H1|].
    right. split; [exact H1|]. exists e0, e1. split; [right; exact H2|]. split; [right; exact H3 | exact H4].
Qed.

Lemma compact1_le h c n : hist_le h n -> hist_le (compact1 h c) n.
Proof.
  intros H e He. apply compact1_in in He. destruct He as [He|[_ [e0 [e1 [H0 [H1 [E0 E1]]]]]]]; [exact (H e He)|].
  rewrite E0, E1. split; [apply (H e0 H0) | apply (H e1 H1)].
Qed.

Lemma add_hist_le h c s e n : hist_le h n -> s <= n -> e <= n -> hist_le (add_hist h c s e) n.
Proof.
  intros H Hs He. unfold add_hist.
  assert (H1 : hist_le (h ++ [(c, (s, e))]) n).
  { intros x Hx. apply in_app_iff in Hx. destruct Hx as [Hx|[<-|[]]]; [exact (H x Hx) | cbn; split; assumption]. }
  destruct (Nat.ltb _ _); [apply compact1_le; exact H1 | exact H1].
Qed.

Lemma calc_history_le inv old new h n :
  hist_le h n -> inv <= n -> (forall e, In e old -> snd e <= n) -> hist_le (calc_history inv old new h) n.
Proof.
  intros H Hi Ho. unfold calc_history. generalize (dedup (keys old)) as l. intros l. revert h H.
  induction l as [|c l IH]; intros h H; cbn [fold_left]; [exact H|].
  apply IH. destruct (has new c); [exact H|]. apply add_hist_le; [exact H | apply since_le; exact Ho | exact Hi].
Qed.

(* entries of one name *)
Lemma entries_app h1 h2 c : entries (h1 ++ h2) c = entries h1 c ++ entries h2 c.
Proof. unfold entries. rewrite filter_app, map_app. reflexivity. Qed.

Lemma entries_set_first_start_other h c s c' : c' <> c -> entries (set_first_start h c s) c' = entries h c'.
Proof.
  intros Hne. induction h as [|x h IH]; [reflexivity|]. cbn [set_first_start].
  destruct (N.eqb_spec (fst x) c) as [Ex|Ex].
  - unfold entries. cbn [filter fst]. destruct (N.eqb_spec (fst x) c'); [congruence | reflexivity].
  - unfold entries in *. cbn [filter]. destruct (fst x =? c'); cbn [map]; rewrite IH; reflexivity.
Qed.

Lemma entries_compact1_other h c c' : c' <> c -> entries (compact1 h c) c' = entries h c'.
Proof.
  intros Hne. induction h as [|x h IH]; [reflexivity|]. cbn [compact1].
  destruct (N.eqb_spec (fst x) c) as [Ex|Ex].
  - rewrite (entries_set_first_start_other _ _ _ _ Hne). unfold entries. cbn [filter].
    destruct (N.eqb_spec (fst x) c'); [congruence | reflexivity].
  - unfold entries in *. cbn [filter]. destruct (fst x =? c'); cbn [map]; rewrite IH; reflexivity.
Qed.

Lemma entries_add_hist_other h c s e c' : c' <> c -> entries (add_hist h c s e) c' = entries h c'.
Proof.
  intros Hne. unfold add_hist.
  assert (E : entries (h ++ [(c, (s, e))]) c' = entries h c').
  { rewrite entries_app. unfold entries at 2. cbn [filter fst]. destruct (N.eqb_spec c c'); [congruence|]. apply app_nil_r. }
  destruct (Nat.ltb _ _); [rewrite (entries_compact1_other _ _ _ Hne)|]; exact E.
Qed.

(* the entries of c after compaction: the first two merged into (start of the first, end of the second) *)
Lemma entries_set_first_start h c s :
  entries (set_first_start h c s) c = match entries h c with [] => [] | p :: r => (s, snd p) :: r end.
Proof.
  induction h as [|x h IH]; [reflexivity|]. cbn [set_first_start].
  destruct (N.eqb_spec (fst x) c) as [Ex|Ex].
  - unfold entries. cbn [filter fst]. rewrite Ex, N.eqb_refl. reflexivity.
  - unfold entries in *. cbn [filter]. destruct (N.eqb_spec (fst x) c); [contradiction | exact IH].
Qed.

Lemma entries_compact1 h c :
  entries (compact1 h c) c = match entries h c with
                             | p0 :: p1 :: r => (fst p0, snd p1) :: r
                             | _ => []
                             end.
Proof.
  induction h as [|x h IH]; [reflexivity|]. cbn [compact1].
  destruct (N.eqb_spec (fst x) c) as [Ex|Ex].
  - rewrite entries_set_first_start. unfold entries at 2. cbn [filter]. rewrite Ex, N.eqb_refl. cbn [map].
    fold (entries h c). destruct (entries h c); reflexivity.
  - unfold entries in *. cbn [filter]. destruct (N.eqb_spec (fst x) c); [contradiction | exact IH].
Qed.

Lemma last_cons2 {A} (a b : A) l d : last (a :: b :: l) d = last (b :: l) d.
Proof. reflexivity. Qed.

(* the interval recorded last for c by add_hist is the one just added (compaction merges the two OLDEST entries) *)
Lemma last_entries_add_hist h c s e d : last (entries (add_hist h c s e) c) d = (s, e).
Proof.
  unfold add_hist.
  assert (E : entries (h ++ [(c, (s, e))]) c = entries h c ++ [(s, e)]).
  { rewrite entries_app. unfold entries at 2. cbn [filter fst]. rewrite N.eqb_refl. reflexivity. }
  destruct (Nat.ltb max_entries (length (entries (h ++ [(c, (s, e))]) c))) eqn:El.
  - rewrite entries_compact1, E. rewrite E, app_length in El. cbn [length] in El. apply Nat.ltb_lt in El. unfold max_entries in El.
    destruct (entries h c) as [|p0 [|p1 r]]; cbn [length app] in *; try lia.
    change ((fst p0, snd p1) :: r ++ [(s, e)]) with (((fst p0, snd p1) :: r) ++ [(s, e)]). apply last_last.
  - rewrite E. apply last_last.
Qed.

Lemma mem_dedup x l : In x (dedup l) <-> In x l.
Proof.
  induction l as [|y l IH]; cbn [dedup]; [tauto|].
  destruct (mem y l) eqn:E.
  - rewrite IH. apply mem_In in E. cbn [In]. split; [auto | intros [<-|H]; assumption].
  - cbn [In]. rewrite IH. tauto.
Qed.

Lemma dedup_nodup l : NoDup (dedup l).
Proof.
  induction l as [|y l IH]; cbn [dedup]; [constructor|].
  destruct (mem y l) eqn:E; [exact IH|]. constructor; [|exact IH].
  rewrite mem_dedup. intros H. apply mem_In in H. congruence.
Qed.

(* calculateHistory: a name that was granted (in the invalidated set) and is gone from the new set gets the
   interval (its since value, the invalidation sequence) as its LAST entry; other names keep their entries *)
Lemma calc_history_spec inv old new h c d :
  (In c (keys old) -> has new c = false -> last (entries (calc_history inv old new h) c) d = (since old c, inv)) /\
  ((~ In c (keys old) \/ has new c = true) -> entries (calc_history inv old new h) c = entries h c).
Proof.
  unfold calc_history. pose proof (dedup_nodup (keys old)) as Hnd. rewrite <- (mem_dedup c (keys old)).
  generalize dependent h. induction (dedup (keys old)) as [|x l IH]; intros h; cbn [fold_left].
  - split; [intros [] | reflexivity].
  - inversion Hnd as [|? ? Hx Hl]; subst. specialize (IH Hl).
    assert (Hkeep : forall h0, ~ In c l -> entries (fold_left (fun h c0 => if has new c0 then h else add_hist h c0 (since old c0) inv) l h0) c = entries h0 c).
    { intros h0 Hn. apply (proj2 (IH h0)). left. exact Hn. }
    split.
    + intros [->|Hin] Hnew.
      * rewrite Hnew. rewrite (Hkeep _ Hx). apply last_entries_add_hist.
      * apply (proj1 (IH _)); assumption.
    + intros Hc. destruct (N.eq_dec x c) as [->|Hne].
      * destruct Hc as [Hc|Hc]; [exfalso; apply Hc; left; reflexivity|]. rewrite Hc. rewrite (Hkeep _ Hx). reflexivity.
      * assert (E1 : entries (if has new x then h else add_hist h x (since old x) inv) c = entries h c).
        { destruct (has new x); [reflexivity | apply entries_add_hist_other; congruence]. }
        rewrite <- E1. apply (proj2 (IH _)). destruct Hc as [Hc|Hc]; [left; intros H; apply Hc; right; exact H | right; exact Hc].
Qed.
