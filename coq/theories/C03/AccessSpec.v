(* C03 -- the specification the property text gives for a principal's access, stated on the GROUND TRUTH of a
   state: the explicit (admin) sets, the verdict of the sync function on the current winning revision of every
   document (a tombstone grants nothing), the public channel, and the roles that exist and are not deleted.
   Nothing here mentions the stored access maps, the computed values or the invalidation marks. *)
From SG Require Import Base.Prelude C03.Access.
Open Scope N_scope.

(* channel c is granted to access key p by the winning live revision of some document *)
Definition truth_chan (ds : N -> drec) (p : pid) (c : N) : Prop :=
  exists d, In c (grants pid_eqb (v_acc (wverdict (d_leaves (ds d)))) p).
(* role r is granted to user u by the winning live revision of some document *)
Definition truth_role (ds : N -> drec) (u r : N) : Prop :=
  exists d, In r (grants N.eqb (v_rol (wverdict (d_leaves (ds d)))) u).

(* a principal's own channels: admin-assigned, granted by documents, public *)
Definition own_spec (ds : N -> drec) (p : pid) (xch : list N) (c : N) : Prop :=
  In c xch \/ truth_chan ds p c \/ c = pub.
(* the roles a user holds: admin-assigned or granted by documents *)
Definition roles_spec (ds : N -> drec) (u : N) (xro : list N) (r : N) : Prop :=
  In r xro \/ truth_role ds u r.

(* what an existing, not deleted role r contributes *)
Definition role_grants (st : state) (r c : N) : Prop :=
  exists rr, roles st r = Some rr /\ r_del rr = false /\ own_spec (docs st) (PR r) (r_xch rr) c.

(* a user's accessible channels *)
Definition user_spec (st : state) (u : N) (ur : urec) (c : N) : Prop :=
  own_spec (docs st) (PU u) (u_xch ur) c \/
  exists r, roles_spec (docs st) u (u_xro ur) r /\ role_grants st r c.

(* the ground truth two states must share for their users to have the same access *)
Definition same_truth (s1 s2 : state) : Prop :=
  (forall d, wverdict (d_leaves (docs s1 d)) = wverdict (d_leaves (docs s2 d))) /\
  (forall u, option_map (fun ur => (u_xch ur, u_xro ur)) (users s1 u) =
             option_map (fun ur => (u_xch ur, u_xro ur)) (users s2 u)) /\
  (forall r, option_map (fun rr => (r_del rr, r_xch rr)) (roles s1 r) =
             option_map (fun rr => (r_del rr, r_xch rr)) (roles s2 r)).
