(* C03 -- long-lived sessions: the keys a session listens on cover every principal document its effective access
   depends on, hence the session's next request is authorized with what a fresh request would get. *)
From SG Require Import Base.Prelude C03.Access C03.AccessSpec C03.AccessProofs C03.AccessTheorems
  C03.Effective C03.AccessX C03.AccessXProofs C03.AccessXTheorems C03.Session.
Open Scope N_scope.

(* a role whose record needs no rebuild: missing, deleted, or with a valid cache *)
Definition role_settled (st : state) (r : N) : Prop :=
  match roles st r with None => True | Some rr => r_del rr = true \/ r_ch rr <> None end.

(* a session that is not dirty: the user and the roles it names are as the last reload left them (all caches valid),
   and the cached object is the specification of the CURRENT state *)
Definition clean_ok (st : state) (s : sess) : Prop :=
  exists ur lch lro,
    users st (se_user s) = Some ur /\ u_ch ur = Some lch /\ u_ro ur = Some lro /\
    (forall r, In r lro -> role_settled st r) /\
    (forall c, In c (fst (se_view s)) <-> user_spec st (se_user s) ur c) /\
    (forall r, In r (snd (se_view s)) <-> In r lro).

(* waiter_keys_cover_access_sources: the user's key and the key of every role of the cached user object *)
Definition covers (s : sess) : Prop :=
  In (PU (se_user s)) (se_keys s) /\ forall r, In r (snd (se_view s)) -> In (PR r) (se_keys s).

(* (a session whose user is gone and that is not dirty is a BLIP connection whose last reload failed) *)
Definition sess_ok (st : state) (s : sess) : Prop :=
  covers s /\ (se_dirty s = false -> users st (se_user s) <> None -> clean_ok st s).

Definition SInv (ss : sstate) : Prop :=
  Inv (ss_st ss) /\ forall id s, In (id, s) (ss_sess ss) -> sess_ok (ss_st ss) s.

(* ---------- stability of a clean session ---------- *)
(* with deletions notified, a key that was not notified names a principal whose record is unchanged *)
Lemma changed_doc_user st st' u :
  changed_doc true st st' (PU u) = false -> users st' u = users st u.
Proof.
  cbn [changed_doc andb]. destruct (users st' u) as [ur'|] eqn:E'.
  - destruct (users st u) as [ur|] eqn:E; cbn [option_eqb]; [|discriminate].
    intros H. apply negb_false_iff in H. apply urec_eqb_true in H. congruence.
  - destruct (users st u); [discriminate | reflexivity].
Qed.

Lemma changed_doc_role st st' r :
  changed_doc true st st' (PR r) = false -> roles st' r = roles st r.
Proof.
  cbn [changed_doc andb]. destruct (roles st' r) as [rr'|] eqn:E'.
  - destruct (roles st r) as [rr|] eqn:E; cbn [option_eqb]; [|discriminate].
    intros H. apply negb_false_iff in H. apply rrec_eqb_true in H. congruence.
  - destruct (roles st r); [discriminate | reflexivity].
Qed.

Lemma user_spec_stable st st' u ur lch lro c :
  Inv st -> Inv st' -> users st u = Some ur -> users st' u = Some ur -> u_ch ur = Some lch -> u_ro ur = Some lro ->
  (forall r, In r lro -> role_settled st r /\ roles st' r = roles st r) ->
  (user_spec st' u ur c <-> user_spec st u ur c).
Proof.
  intros I I' E E' Hc Hr Hro. destruct (inv_users st I u ur E) as [G1 G2]. destruct (inv_users st' I' u ur E') as [G1' G2'].
  unfold user_spec. rewrite <- (G1 lch Hc c), <- (G1' lch Hc c).
  assert (Hrg : forall r, In r lro -> (role_grants st' r c <-> role_grants st r c)).
  { intros r Hin. destruct (Hro r Hin) as [Hs Heq]. unfold role_grants. rewrite Heq. unfold role_settled in Hs.
    destruct (roles st r) as [rr|] eqn:Er; [|split; intros [x [Hx _]]; discriminate].
    destruct Hs as [Hd|Hv].
    - split; intros [x [Hx [Hd' _]]]; inversion Hx; subst; congruence.
    - destruct (r_ch rr) as [l|] eqn:El; [|congruence].
      pose proof Heq as Er'.
      pose proof (inv_roles st I r rr Er l El c) as A. pose proof (inv_roles st' I' r rr Er' l El c) as B.
      split; intros [x [Hx [Hd' H]]]; inversion Hx; subst x; exists rr; (split; [reflexivity|]); (split; [exact Hd'|]); tauto. }
  split; (intros [H|[r [H1 H2]]]; [left; exact H | right; exists r]).
  - apply (G2' lro Hr) in H1. split; [apply (G2 lro Hr); exact H1 | apply (Hrg r H1); exact H2].
  - apply (G2 lro Hr) in H1. split; [apply (G2' lro Hr); exact H1 | apply (Hrg r H1); exact H2].
Qed.

Lemma clean_stable st st' s :
  Inv st -> Inv st' -> covers s -> clean_ok st s ->
  existsb (changed_doc true st st') (se_keys s) = false -> clean_ok st' s.
Proof.
  intros I I' [Cu Cr] [ur [lch [lro [E [Hc [Hr [Hs [Hv Hro]]]]]]]] Hn.
  assert (Hk : forall p, In p (se_keys s) -> changed_doc true st st' p = false).
  { intros p Hp. destruct (changed_doc true st st' p) eqn:Ep; [|reflexivity].
    assert (existsb (changed_doc true st st') (se_keys s) = true) by (apply existsb_exists; exists p; split; assumption). congruence. }
  assert (E' : users st' (se_user s) = Some ur) by (rewrite (changed_doc_user st st' _ (Hk _ Cu)); exact E).
  assert (Hroles : forall r, In r lro -> role_settled st r /\ roles st' r = roles st r).
  { intros r Hin. split; [apply Hs; exact Hin|]. apply (changed_doc_role st st' r). apply Hk, Cr, Hro. exact Hin. }
  exists ur, lch, lro. repeat (split; [assumption|]). split; [|split; [|exact Hro]].
  - intros r Hin. destruct (Hroles r Hin) as [A B]. unfold role_settled in *. rewrite B. exact A.
  - intros c. rewrite (Hv c). symmetry. apply (user_spec_stable st st' _ ur lch lro c); assumption.
Qed.

(* an un-notified user key also means: the user exists now iff it existed before *)
Lemma unchanged_user_exists st st' s :
  covers s -> existsb (changed_doc true st st') (se_keys s) = false -> users st' (se_user s) = users st (se_user s).
Proof.
  intros [Cu _] Hn. apply changed_doc_user. destruct (changed_doc true st st' (PU (se_user s))) eqn:E; [|reflexivity].
  assert (existsb (changed_doc true st st') (se_keys s) = true) by (apply existsb_exists; eexists; split; eassumption). congruence.
Qed.

(* ---------- a load leaves the user and the roles it names settled ---------- *)
Lemma rebuild_role_settles st r r' :
  r' = r \/ role_settled st r' -> role_settled (fst (rebuild_role st r)) r'.
Proof.
  unfold role_settled, rebuild_role. destruct (roles st r) as [rr|] eqn:Er.
  - destruct (r_del rr) eqn:Ed; cbn [fst].
    + intros [->|H]; [rewrite Er; left; exact Ed | exact H].
    + cbn [set_roles roles]. unfold upd. destruct (r' =? r) eqn:E.
      * intros _. right. cbn [r_ch]. discriminate.
      * intros [->|H]; [rewrite N.eqb_refl in E; discriminate | exact H].
  - cbn [fst]. intros [->|H]; [rewrite Er; exact Logic.I | exact H].
Qed.

Lemma fold_roles_settle ro : forall st chs r',
  In r' ro \/ role_settled st r' -> role_settled (fst (fold_left load_role_chans ro (st, chs))) r'.
Proof.
  induction ro as [|r ro IH]; intros st chs r' H; cbn [fold_left].
  - destruct H as [[]|H]. exact H.
  - destruct (load_role_chans (st, chs) r) as [st1 chs1] eqn:E.
    assert (E1 : st1 = fst (rebuild_role st r)) by (rewrite <- (fst_load_role_chans st chs r), E; reflexivity).
    apply IH. destruct H as [[->|H]|H]; [right | left; exact H | right]; rewrite E1; apply rebuild_role_settles; auto.
Qed.

(* what a successful load establishes *)
Lemma load_user_clean st u chs ros feed keys :
  Inv st -> snd (load_user st u) = OUser (Some (chs, ros)) ->
  clean_ok (fst (load_user st u)) (mkSe u feed keys false (chs, ros)).
Proof.
  intros I Ho. pose proof (load_user_correct st u I) as [I' Hc]. pose proof (load_user_same_truth st u I) as T.
  destruct (users st u) as [ur|] eqn:Eu; [|rewrite Hc in Ho; discriminate].
  destruct Hc as [chs0 [ros0 [E0 [Hch Hro]]]]. rewrite E0 in Ho. inversion Ho. subst chs0 ros0. clear Ho.
  (* the post-state *)
  unfold load_user in *. destruct (rebuild_user st u) as [st1 our] eqn:Er.
  destruct (rebuild_user_spec st u st1 our I Er) as [I1 [_ [_ [_ [Hu Hour]]]]].
  destruct our as [ur'|]; [|rewrite Hour in Eu; discriminate].
  destruct Hour as [ur0 [Eu0 [Ex [Exr [_ [[lch Elch] [lro Elro]]]]]]]. rewrite Eu in Eu0. inversion Eu0. subst ur0.
  destruct (fold_left load_role_chans (opt_list (u_ro ur')) (st1, opt_list (u_ch ur'))) as [st2 chs2] eqn:Ef.
  cbn [fst snd] in *. inversion E0. subst chs ros. clear E0.
  destruct (load_roles_fold _ _ _ _ _ I1 Ef) as [_ [_ [_ [Hu2 _]]]].
  assert (Eu2 : users st2 u = Some ur') by (rewrite Hu2, Hu, upd_same; reflexivity).
  exists ur', lch, lro. cbn [se_user se_view fst snd]. split; [exact Eu2|]. split; [exact Elch|]. split; [exact Elro|].
  split; [|split].
  - intros r Hin. pose proof (fold_roles_settle (opt_list (u_ro ur')) st1 (opt_list (u_ch ur')) r) as H. rewrite Ef in H. cbn [fst] in H.
    apply H. left. rewrite Elro. exact Hin.
  - intros c. rewrite (Hch c). symmetry. apply (user_spec_truth st2 st u ur' ur c T); assumption.
  - intros r. rewrite Elro. reflexivity.
Qed.

(* ---------- the keys after a reload cover the new user object ---------- *)
Lemma keys_of_covers u ros p : p = PU u \/ (exists r, In r ros /\ p = PR r) -> In p (keys_of u ros).
Proof.
  unfold keys_of. intros [->|[r [H ->]]]; [left; reflexivity | right; apply in_map; exact H].
Qed.

Lemma refresh_keys_covers old u ros :
  In (PU u) old -> In (PU u) (refresh_keys old u ros) /\ forall r, In r ros -> In (PR r) (refresh_keys old u ros).
Proof.
  intros H. unfold refresh_keys. destruct (Nat.eqb (length old) 1 && _) eqn:E.
  - apply andb_true_iff in E. destruct E as [_ E]. destruct ros; [|discriminate]. split; [exact H | intros r []].
  - split; [apply keys_of_covers; left; reflexivity | intros r Hr; apply keys_of_covers; right; exists r; auto].
Qed.

(* ---------- every operation preserves the invariant ---------- *)
Lemma mark_ok st st' s :
  Inv st -> Inv st' -> sess_ok st s -> sess_ok st' (mark true st st' s).
Proof.
  intros I I' [C Hc]. split; [exact C|].
  cbn [mark se_dirty se_user]. intros Hd Hex. apply orb_false_iff in Hd. destruct Hd as [Hd Hn].
  apply (clean_stable st st' s I I' C); [|exact Hn]. apply (Hc Hd). rewrite <- (unchanged_user_exists st st' s C Hn). exact Hex.
Qed.

Lemma mark_all_ok st st' l :
  Inv st -> Inv st' -> (forall id s, In (id, s) l -> sess_ok st s) ->
  forall id s, In (id, s) (mark_all true st st' l) -> sess_ok st' s.
Proof.
  intros I I' H id s Hin. unfold mark_all in Hin. apply in_map_iff in Hin. destruct Hin as [[id0 s0] [E Hin]].
  inversion E. subst. cbn [snd]. apply mark_ok; try assumption. eapply H. exact Hin.
Qed.

Lemma drop_sess_in id l id0 s : In (id0, s) (drop_sess id l) -> In (id0, s) l.
Proof. unfold drop_sess. intros H. apply filter_In in H. apply H. Qed.

Lemma find_sess_in id l s : find_sess id l = Some s -> In (id, s) l.
Proof.
  induction l as [|e l IH]; cbn [find_sess]; [discriminate|]. destruct (N.eqb_spec (fst e) id) as [E|E].
  - intros H. inversion H. left. destruct e. cbn in *. subst. reflexivity.
  - intros H. right. apply IH. exact H.
Qed.

Lemma load_missing_user st u : users st u = None -> fst (load_user st u) = st /\ snd (load_user st u) = OUser None.
Proof. intros E. unfold load_user, rebuild_user. rewrite E. split; reflexivity. Qed.

Lemma load_output_shape st u : Inv st ->
  match users st u with
  | Some _ => exists chs ros, snd (load_user st u) = OUser (Some (chs, ros))
  | None => snd (load_user st u) = OUser None
  end.
Proof.
  intros I. destruct (load_user_correct st u I) as [_ H]. destruct (users st u); [|exact H].
  destruct H as [chs [ros [E _]]]. exists chs, ros. exact E.
Qed.

Lemma sstep_SInv ss o : notified_op o = true -> SInv ss -> SInv (fst (sstep true ss o)).
Proof.
  intros Hn [I Hs]. destruct o as [bo|id u feed|id]; cbn [sstep].
  - (* somebody else's operation *)
    assert (I' : Inv (fst (step (ss_st ss) bo))).
    { apply step_Inv; [exact I|]. right. destruct bo; cbn in *; try reflexivity; discriminate. }
    cbn [fst ss_st ss_sess]. split; [exact I'|]. apply mark_all_ok; assumption.
  - (* open *)
    unfold s_open. pose proof (load_user_correct (ss_st ss) u I) as [I' _].
    assert (Ho : forall id0 s, In (id0, s) (mark_all true (ss_st ss) (fst (load_user (ss_st ss) u)) (drop_sess id (ss_sess ss))) ->
                               sess_ok (fst (load_user (ss_st ss) u)) s).
    { apply mark_all_ok; try assumption. intros id0 s H. apply (Hs id0). apply drop_sess_in in H. exact H. }
    destruct (snd (load_user (ss_st ss) u)) as [ok|[[chs ros]|]|orr] eqn:Eo; cbn [fst ss_st ss_sess]; try (split; [exact I' | exact Ho]).
    split; [exact I'|]. intros id0 s [E|H]; [|apply (Ho id0); exact H]. inversion E. subst id0 s. clear E.
    pose proof (load_user_clean (ss_st ss) u chs ros feed (keys_of u ros) I Eo) as C.
    split; [|intros _ _; exact C].
    split; cbn [se_user se_keys se_view snd]; [apply keys_of_covers; left; reflexivity | intros r Hr; apply keys_of_covers; right; exists r; auto].
  - (* request *)
    unfold s_request. destruct (find_sess id (ss_sess ss)) as [s|] eqn:Ef; [|split; assumption].
    destruct (se_dirty s) eqn:Ed; [|split; assumption].
    pose proof (find_sess_in _ _ _ Ef) as Hin. destruct (Hs id s Hin) as [[Cu Cr] _].
    pose proof (load_user_correct (ss_st ss) (se_user s) I) as [I' _].
    assert (Ho : forall id0 s0, In (id0, s0) (mark_all true (ss_st ss) (fst (load_user (ss_st ss) (se_user s))) (drop_sess id (ss_sess ss))) ->
                                sess_ok (fst (load_user (ss_st ss) (se_user s))) s0).
    { apply mark_all_ok; try assumption. intros id0 s0 H. apply (Hs id0). apply drop_sess_in in H. exact H. }
    pose proof (load_output_shape (ss_st ss) (se_user s) I) as Sh.
    destruct (users (ss_st ss) (se_user s)) as [ur|] eqn:Eu.
    + destruct Sh as [chs [ros Eo]]. rewrite Eo. cbn [fst ss_st ss_sess]. split; [exact I'|].
      intros id0 s0 [E|H]; [|apply (Ho id0); exact H]. inversion E. subst id0 s0. clear E.
      match goal with |- sess_ok _ (mkSe _ _ ?k _ _) => set (keys' := k) end.
      pose proof (load_user_clean (ss_st ss) (se_user s) chs ros (se_feed s) keys' I Eo) as C.
      split; [|intros _ _; exact C].
      subst keys'. cbn [covers se_user se_keys se_view snd].
      destruct (se_feed s).
      * destruct (set_eqb (snd (se_view s)) ros) eqn:Es; [|apply refresh_keys_covers; exact Cu].
        split; [exact Cu|]. intros r Hr. apply Cr. apply (proj1 (set_eqb_spec _ _) Es). exact Hr.
      * apply refresh_keys_covers. exact Cu.
    + (* the user is gone: the feed terminates, the BLIP request fails and the connection keeps its user object *)
      rewrite Sh. destruct (load_missing_user _ _ Eu) as [Est _].
      destruct (se_feed s); cbn [fst ss_st ss_sess]; (split; [exact I'|]); [exact Ho|].
      intros id0 s0 [E|H]; [|apply (Ho id0); exact H]. inversion E. subst id0 s0. clear E.
      split; [split; assumption|]. cbn [se_dirty se_user]. intros _ Hex. exfalso. apply Hex. rewrite Est. exact Eu.
Qed.

Lemma srun_SInv ops : forall ss, forallb notified_op ops = true -> SInv ss -> SInv (srun true ss ops).
Proof.
  induction ops as [|o ops IH]; intros ss Hn I; cbn [srun forallb] in *; [exact I|].
  apply andb_true_iff in Hn. destruct Hn as [H1 H2]. apply IH; [exact H2 | apply sstep_SInv; assumption].
Qed.

Lemma SInv_init : SInv sinit.
Proof. split; [exact Inv_init | intros id s []]. Qed.

(* the next request of an open session whose user exists is answered with what a fresh request (a load in the current
   state) gets *)
Lemma session_request_fresh ss id s :
  SInv ss -> find_sess id (ss_sess ss) = Some s -> users (ss_st ss) (se_user s) <> None ->
  exists chs ros, snd (sstep true ss (SRequest id)) = SView (Some (chs, ros)) /\
                  out_equiv (OUser (Some (chs, ros))) (snd (load_user (ss_st ss) (se_user s))).
Proof.
  intros [I Hs] Ef Hex. pose proof (find_sess_in _ _ _ Ef) as Hin. destruct (Hs id s Hin) as [_ Hc].
  pose proof (load_user_correct (ss_st ss) (se_user s) I) as [_ Hl].
  destruct (users (ss_st ss) (se_user s)) as [ur|] eqn:Eu; [|congruence].
  destruct Hl as [chs0 [ros0 [E0 [Hch Hro]]]].
  cbn [sstep]. unfold s_request. rewrite Ef. destruct (se_dirty s) eqn:Ed.
  - rewrite E0. exists chs0, ros0. split; [reflexivity|]. cbn [out_equiv]. split; intros x; reflexivity.
  - destruct (Hc eq_refl ltac:(congruence)) as [ur1 [lch [lro [E1 [_ [Elro [_ [Hv Hr]]]]]]]]. rewrite Eu in E1. inversion E1. subst ur1.
    destruct (se_view s) as [chs ros] eqn:Ev. cbn [fst snd] in *. exists chs, ros. split; [reflexivity|]. rewrite E0. cbn [out_equiv]. split; intros x.
    + rewrite (Hv x), (Hch x). reflexivity.
    + rewrite (Hr x), (Hro x). destruct (inv_users _ I _ ur Eu) as [_ G2]. apply (G2 lro Elro).
Qed.

(* a session whose user was deleted: when it is dirty its next request FAILS (the reconnect error of refreshUser /
   the terminating entry of the feed) instead of being authorized with the cached user *)
Lemma session_request_deleted_user ss id s :
  find_sess id (ss_sess ss) = Some s -> users (ss_st ss) (se_user s) = None -> se_dirty s = true ->
  snd (sstep true ss (SRequest id)) = SErr.
Proof.
  intros Ef Eu Ed. cbn [sstep]. unfold s_request. rewrite Ef, Ed. destruct (load_missing_user _ _ Eu) as [_ Eo]. rewrite Eo.
  destruct (se_feed s); reflexivity.
Qed.

(* ... and the deletion of its user makes every open session of that user dirty *)
Lemma find_sess_mark_all id st st' l :
  find_sess id (mark_all true st st' l) = option_map (mark true st st') (find_sess id l).
Proof.
  induction l as [|e l IH]; [reflexivity|]. cbn [mark_all map find_sess fst snd]. destruct (fst e =? id); [reflexivity | exact IH].
Qed.

Lemma user_delete_wakes_session ss id s :
  SInv ss -> find_sess id (ss_sess ss) = Some s -> users (ss_st ss) (se_user s) <> None ->
  let ss' := fst (sstep true ss (SBase (DelUser (se_user s)))) in
  users (ss_st ss') (se_user s) = None /\
  exists s', find_sess id (ss_sess ss') = Some s' /\ se_user s' = se_user s /\ se_dirty s' = true /\
             snd (sstep true ss' (SRequest id)) = SErr.
Proof.
  intros [I Hs] Ef Hex ss'. pose proof (find_sess_in _ _ _ Ef) as Hin. destruct (Hs id s Hin) as [[Cu _] _].
  assert (Eu' : users (ss_st ss') (se_user s) = None).
  { subst ss'. cbn [sstep fst ss_st step]. unfold del_user.
    destruct (rebuild_user (ss_st ss) (se_user s)) as [st1 our] eqn:Er.
    pose proof (users_after_rebuild (ss_st ss) (se_user s)) as Ua. rewrite Er in Ua. cbn [fst snd] in Ua.
    destruct our as [ur|]; cbn [fst set_users users]; [apply upd_same|].
    exfalso. apply Hex. unfold rebuild_user in Er. destruct (users (ss_st ss) (se_user s)); [discriminate | reflexivity]. }
  split; [exact Eu'|].
  assert (Ef' : find_sess id (ss_sess ss') = Some (mark true (ss_st ss) (ss_st ss') s)).
  { subst ss'. cbn [sstep fst ss_sess ss_st]. rewrite find_sess_mark_all, Ef. reflexivity. }
  exists (mark true (ss_st ss) (ss_st ss') s). split; [exact Ef'|]. split; [reflexivity|].
  assert (Ed : se_dirty (mark true (ss_st ss) (ss_st ss') s) = true).
  { cbn [mark se_dirty]. apply orb_true_iff. right. apply existsb_exists. exists (PU (se_user s)). split; [exact Cu|].
    cbn [changed_doc andb]. rewrite Eu'. destruct (users (ss_st ss) (se_user s)); [reflexivity | congruence]. }
  split; [exact Ed|]. apply (session_request_deleted_user ss' id _ Ef'); [exact Eu' | exact Ed].
Qed.
