(* C03 -- long-lived sessions: the keys a session listens on cover every principal document its effective access
   depends on, hence the session's next request is authorized with what a fresh request would get. *)
From SG Require Import Base.Prelude C03.Access C03.AccessSpec C03.AccessProofs C03.AccessTheorems
  C03.Effective C03.AccessX C03.AccessXProofs C03.AccessXTheorems C03.Session.
Open Scope N_scope.

(* a role whose record needs no rebuild: missing, deleted, or with a valid cache *)
Definition role_settled (st : state) (r : N) : Prop :=
  match roles st r with None => True | Some rr => r_del rr = true \/ r_ch rr <> None end.

(* a session that is not dirty: the user and the roles it names are as the last reload left them (all caches valid),
   and the cached object is the specification of the CURRENT state *)
Definition clean_ok (st : state) (s : sess) : Prop :=
  exists ur lch lro,
    users st (se_user s) = Some ur /\ u_ch ur = Some lch /\ u_ro ur = Some lro /\
    (forall r, In r lro -> role_settled st r) /\
    (forall c, In c (fst (se_view s)) <-> user_spec st (se_user s) ur c) /\
    (forall r, In r (snd (se_view s)) <-> In r lro).

(* waiter_keys_cover_access_sources: the user's key and the key of every role of the cached user object *)
Definition covers (s : sess) : Prop :=
  In (PU (se_user s)) (se_keys s) /\ forall r, In r (snd (se_view s)) -> In (PR r) (se_keys s).

Definition sess_ok (st : state) (s : sess) : Prop :=
  covers s /\ users st (se_user s) <> None /\ (se_dirty s = false -> clean_ok st s).

Definition SInv (ss : sstate) : Prop :=
  Inv (ss_st ss) /\ forall id s, In (id, s) (ss_sess ss) -> sess_ok (ss_st ss) s.

(* no principal document is deleted between the two states *)
Definition keeps (st st' : state) : Prop :=
  (forall u, users st u <> None -> users st' u <> None) /\ (forall r, roles st r <> None -> roles st' r <> None).

(* ---------- stability of a clean session ---------- *)
Lemma changed_doc_user st st' u ur :
  keeps st st' -> users st u = Some ur -> changed_doc st st' (PU u) = false -> users st' u = Some ur.
Proof.
  intros [K _] E H. cbn [changed_doc] in H. destruct (users st' u) as [ur'|] eqn:E'.
  - rewrite E in H. cbn [option_eqb] in H. apply negb_false_iff in H. apply urec_eqb_true in H. congruence.
  - exfalso. apply (K u); [congruence | exact E'].
Qed.

Lemma changed_doc_role st st' r :
  keeps st st' -> changed_doc st st' (PR r) = false -> roles st' r = roles st r.
Proof.
  intros [_ K] H. cbn [changed_doc] in H. destruct (roles st' r) as [rr'|] eqn:E'.
  - destruct (roles st r) as [rr|] eqn:E; cbn [option_eqb] in H; [|discriminate].
    apply negb_false_iff in H. apply rrec_eqb_true in H. congruence.
  - destruct (roles st r) eqn:E; [|reflexivity]. exfalso. apply (K r); [congruence | exact E'].
Qed.

Lemma user_spec_stable st st' u ur lch lro c :
  Inv st -> Inv st' -> users st u = Some ur -> users st' u = Some ur -> u_ch ur = Some lch -> u_ro ur = Some lro ->
  (forall r, In r lro -> role_settled st r /\ roles st' r = roles st r) ->
  (user_spec st' u ur c <-> user_spec st u ur c).
Proof.
  intros I I' E E' Hc Hr Hro. destruct (inv_users st I u ur E) as [G1 G2]. destruct (inv_users st' I' u ur E') as [G1' G2'].
  unfold user_spec. rewrite <- (G1 lch Hc c), <- (G1' lch Hc c).
  assert (Hrg : forall r, In r lro -> (role_grants st' r c <-> role_grants st r c)).
  { intros r Hin. destruct (Hro r Hin) as [Hs Heq]. unfold role_grants. rewrite Heq. unfold role_settled in Hs.
    destruct (roles st r) as [rr|] eqn:Er; [|split; intros [x [Hx _]]; discriminate].
    destruct Hs as [Hd|Hv].
    - split; intros [x [Hx [Hd' _]]]; inversion Hx; subst; congruence.
    - destruct (r_ch rr) as [l|] eqn:El; [|congruence].
      pose proof Heq as Er'.
      pose proof (inv_roles st I r rr Er l El c) as A. pose proof (inv_roles st' I' r rr Er' l El c) as B.
      split; intros [x [Hx [Hd' H]]]; inversion Hx; subst x; exists rr; (split; [reflexivity|]); (split; [exact Hd'|]); tauto. }
  split; (intros [H|[r [H1 H2]]]; [left; exact H | right; exists r]).
  - apply (G2' lro Hr) in H1. split; [apply (G2 lro Hr); exact H1 | apply (Hrg r H1); exact H2].
  - apply (G2 lro Hr) in H1. split; [apply (G2' lro Hr); exact H1 | apply (Hrg r H1); exact H2].
Qed.

Lemma clean_stable st st' s :
  Inv st -> Inv st' -> keeps st st' -> covers s -> clean_ok st s ->
  existsb (changed_doc st st') (se_keys s) = false -> clean_ok st' s.
Proof.
  intros I I' K [Cu Cr] [ur [lch [lro [E [Hc [Hr [Hs [Hv Hro]]]]]]]] Hn.
  assert (Hk : forall p, In p (se_keys s) -> changed_doc st st' p = false).
  { intros p Hp. destruct (changed_doc st st' p) eqn:Ep; [|reflexivity].
    assert (existsb (changed_doc st st') (se_keys s) = true) by (apply existsb_exists; exists p; split; assumption). congruence. }
  pose proof (changed_doc_user st st' _ ur K E (Hk _ Cu)) as E'.
  assert (Hroles : forall r, In r lro -> role_settled st r /\ roles st' r = roles st r).
  { intros r Hin. split; [apply Hs; exact Hin|]. apply (changed_doc_role st st' r K). apply Hk, Cr, Hro. exact Hin. }
  exists ur, lch, lro. repeat (split; [assumption|]). split; [|split; [|exact Hro]].
  - intros r Hin. destruct (Hroles r Hin) as [A B]. unfold role_settled in *. rewrite B. exact A.
  - intros c. rewrite (Hv c). symmetry. apply (user_spec_stable st st' _ ur lch lro c); assumption.
Qed.

(* ---------- a load leaves the user and the roles it names settled ---------- *)
Lemma rebuild_role_settles st r r' :
  r' = r \/ role_settled st r' -> role_settled (fst (rebuild_role st r)) r'.
Proof.
  unfold role_settled, rebuild_role. destruct (roles st r) as [rr|] eqn:Er.
  - destruct (r_del rr) eqn:Ed; cbn [fst].
    + intros [->|H]; [rewrite Er; left; exact Ed | exact H].
    + cbn [set_roles roles]. unfold upd. destruct (r' =? r) eqn:E.
      * intros _. right. cbn [r_ch]. discriminate.
      * intros [->|H]; [rewrite N.eqb_refl in E; discriminate | exact H].
  - cbn [fst]. intros [->|H]; [rewrite Er; exact Logic.I | exact H].
Qed.

Lemma fold_roles_settle ro : forall st chs r',
  In r' ro \/ role_settled st r' -> role_settled (fst (fold_left load_role_chans ro (st, chs))) r'.
Proof.
  induction ro as [|r ro IH]; intros st chs r' H; cbn [fold_left].
  - destruct H as [[]|H]. exact H.
  - destruct (load_role_chans (st, chs) r) as [st1 chs1] eqn:E.
    assert (E1 : st1 = fst (rebuild_role st r)) by (rewrite <- (fst_load_role_chans st chs r), E; reflexivity).
    apply IH. destruct H as [[->|H]|H]; [right | left; exact H | right]; rewrite E1; apply rebuild_role_settles; auto.
Qed.

Lemma keeps_refl st : keeps st st.
Proof. split; auto. Qed.

Lemma keeps_trans a b c : keeps a b -> keeps b c -> keeps a c.
Proof. intros [A1 A2] [B1 B2]. split; auto. Qed.

Lemma keeps_rebuild_role st r : keeps st (fst (rebuild_role st r)).
Proof.
  unfold rebuild_role. destruct (roles st r) as [rr|] eqn:Er; [|apply keeps_refl]. destruct (r_del rr); [apply keeps_refl|].
  split; cbn [fst set_roles users roles]; [auto|]. intros r0 H. unfold upd. destruct (r0 =? r); [discriminate | exact H].
Qed.

Lemma keeps_rebuild_user st u : keeps st (fst (rebuild_user st u)).
Proof.
  unfold rebuild_user. destruct (users st u) as [ur|] eqn:Eu; [|apply keeps_refl].
  split; cbn [fst set_users users roles]; [|auto]. intros u0 H. unfold upd. destruct (u0 =? u); [discriminate | exact H].
Qed.

Lemma keeps_fold_roles ro : forall st chs, keeps st (fst (fold_left load_role_chans ro (st, chs))).
Proof.
  induction ro as [|r ro IH]; intros st chs; cbn [fold_left]; [apply keeps_refl|].
  destruct (load_role_chans (st, chs) r) as [st1 chs1] eqn:E.
  assert (E1 : st1 = fst (rebuild_role st r)) by (rewrite <- (fst_load_role_chans st chs r), E; reflexivity).
  apply (keeps_trans st st1); [rewrite E1; apply keeps_rebuild_role | apply IH].
Qed.

Lemma keeps_load_user st u : keeps st (fst (load_user st u)).
Proof.
  unfold load_user. destruct (rebuild_user st u) as [st1 our] eqn:E.
  assert (E1 : st1 = fst (rebuild_user st u)) by (rewrite E; reflexivity).
  destruct our as [ur|]; cbn [fst]; [|rewrite E1; apply keeps_rebuild_user].
  apply (keeps_trans st st1); [rewrite E1; apply keeps_rebuild_user | apply keeps_fold_roles].
Qed.

(* what a successful load establishes *)
Lemma load_user_clean st u chs ros feed keys :
  Inv st -> snd (load_user st u) = OUser (Some (chs, ros)) ->
  clean_ok (fst (load_user st u)) (mkSe u feed keys false (chs, ros)).
Proof.
  intros I Ho. pose proof (load_user_correct st u I) as [I' Hc]. pose proof (load_user_same_truth st u I) as T.
  destruct (users st u) as [ur|] eqn:Eu; [|rewrite Hc in Ho; discriminate].
  destruct Hc as [chs0 [ros0 [E0 [Hch Hro]]]]. rewrite E0 in Ho. inversion Ho. subst chs0 ros0. clear Ho.
  (* the post-state *)
  unfold load_user in *. destruct (rebuild_user st u) as [st1 our] eqn:Er.
  destruct (rebuild_user_spec st u st1 our I Er) as [I1 [_ [_ [_ [Hu Hour]]]]].
  destruct our as [ur'|]; [|rewrite Hour in Eu; discriminate].
  destruct Hour as [ur0 [Eu0 [Ex [Exr [_ [[lch Elch] [lro Elro]]]]]]]. rewrite Eu in Eu0. inversion Eu0. subst ur0.
  destruct (fold_left load_role_chans (opt_list (u_ro ur')) (st1, opt_list (u_ch ur'))) as [st2 chs2] eqn:Ef.
  cbn [fst snd] in *. inversion E0. subst chs ros. clear E0.
  destruct (load_roles_fold _ _ _ _ _ I1 Ef) as [_ [_ [_ [Hu2 _]]]].
  assert (Eu2 : users st2 u = Some ur') by (rewrite Hu2, Hu, upd_same; reflexivity).
  exists ur', lch, lro. cbn [se_user se_view fst snd]. split; [exact Eu2|]. split; [exact Elch|]. split; [exact Elro|].
  split; [|split].
  - intros r Hin. pose proof (fold_roles_settle (opt_list (u_ro ur')) st1 (opt_list (u_ch ur')) r) as H. rewrite Ef in H. cbn [fst] in H.
    apply H. left. rewrite Elro. exact Hin.
  - intros c. rewrite (Hch c). symmetry. apply (user_spec_truth st2 st u ur' ur c T); assumption.
  - intros r. rewrite Elro. reflexivity.
Qed.

(* ---------- the keys after a reload cover the new user object ---------- *)
Lemma keys_of_covers u ros p : p = PU u \/ (exists r, In r ros /\ p = PR r) -> In p (keys_of u ros).
Proof.
  unfold keys_of. intros [->|[r [H ->]]]; [left; reflexivity | right; apply in_map; exact H].
Qed.

Lemma refresh_keys_covers old u ros :
  In (PU u) old -> In (PU u) (refresh_keys old u ros) /\ forall r, In r ros -> In (PR r) (refresh_keys old u ros).
Proof.
  intros H. unfold refresh_keys. destruct (Nat.eqb (length old) 1 && _) eqn:E.
  - apply andb_true_iff in E. destruct E as [_ E]. destruct ros; [|discriminate]. split; [exact H | intros r []].
  - split; [apply keys_of_covers; left; reflexivity | intros r Hr; apply keys_of_covers; right; exists r; auto].
Qed.

(* ---------- every operation preserves the invariant ---------- *)
Lemma mark_ok st st' s :
  Inv st -> Inv st' -> keeps st st' -> sess_ok st s -> sess_ok st' (mark st st' s).
Proof.
  intros I I' K [C [Hu Hc]]. split; [exact C|]. split; [apply (proj1 K); exact Hu|].
  cbn [mark se_dirty]. intros Hd. apply orb_false_iff in Hd. destruct Hd as [Hd Hn].
  pose proof (clean_stable st st' s I I' K C (Hc Hd) Hn) as H. exact H.
Qed.

Lemma mark_all_ok st st' l :
  Inv st -> Inv st' -> keeps st st' -> (forall id s, In (id, s) l -> sess_ok st s) ->
  forall id s, In (id, s) (mark_all st st' l) -> sess_ok st' s.
Proof.
  intros I I' K H id s Hin. unfold mark_all in Hin. apply in_map_iff in Hin. destruct Hin as [[id0 s0] [E Hin]].
  inversion E. subst. cbn [snd]. apply mark_ok; try assumption. eapply H. exact Hin.
Qed.

Lemma drop_sess_in id l id0 s : In (id0, s) (drop_sess id l) -> In (id0, s) l.
Proof. unfold drop_sess. intros H. apply filter_In in H. apply H. Qed.

Lemma find_sess_in id l s : find_sess id l = Some s -> In (id, s) l.
Proof.
  induction l as [|e l IH]; cbn [find_sess]; [discriminate|]. destruct (N.eqb_spec (fst e) id) as [E|E].
  - intros H. inversion H. left. destruct e. cbn in *. subst. reflexivity.
  - intros H. right. apply IH. exact H.
Qed.

Lemma keeps_step st o : notified_op (SBase o) = true -> Inv st -> keeps st (fst (step st o)).
Proof.
  intros Hn I. destruct o as [d parent r b|d|u c r|r c|r p|u|u|r|u c r|r c]; cbn [notified_op] in Hn; try discriminate; cbn [step].
  - (* put *)
    unfold put. destruct b as [v| |]; try apply keeps_refl;
      (destruct (existsb _ _); [apply keeps_refl|]; cbv zeta; destruct (same_winner _ _); cbn [fst]; split; cbn [users roles]; auto;
       [intros u0 H; unfold inval_users; destruct (users st u0); [discriminate | congruence] |
        intros r0 H; unfold inval_rolemap; destruct (roles st r0); [discriminate | congruence]]).
  - (* set user *)
    unfold set_user. destruct (rebuild_user st u) as [st1 our] eqn:E.
    assert (E1 : st1 = fst (rebuild_user st u)) by (rewrite E; reflexivity). cbn [fst].
    apply (keeps_trans st st1); [rewrite E1; apply keeps_rebuild_user|]. split; cbn [set_users users roles]; [|auto].
    intros u0 H. unfold upd. destruct (u0 =? u); [discriminate | exact H].
  - (* set role *)
    unfold set_role. destruct (rebuild_role st r) as [st1 orr] eqn:E.
    assert (E1 : st1 = fst (rebuild_role st r)) by (rewrite E; reflexivity). cbn [fst].
    apply (keeps_trans st st1); [rewrite E1; apply keeps_rebuild_role|]. split; cbn [set_roles users roles]; [auto|].
    intros r0 H. unfold upd. destruct (r0 =? r); [discriminate | exact H].
  - (* soft delete of a role *)
    destruct p; [discriminate|]. unfold del_role. destruct (rebuild_role st r) as [st1 orr] eqn:E.
    assert (E1 : st1 = fst (rebuild_role st r)) by (rewrite E; reflexivity).
    destruct orr as [rr|]; [|cbn [fst]; rewrite E1; apply keeps_rebuild_role].
    destruct (r_del rr); cbn [fst]; [rewrite E1; apply keeps_rebuild_role|].
    apply (keeps_trans st st1); [rewrite E1; apply keeps_rebuild_role|]. split; cbn [set_roles users roles]; [auto|].
    intros r0 H. unfold upd. destruct (r0 =? r); [discriminate | exact H].
  - apply keeps_load_user.
  - rewrite fst_load_role. apply keeps_rebuild_role.
Qed.

Lemma sstep_SInv ss o : notified_op o = true -> SInv ss -> SInv (fst (sstep ss o)).
Proof.
  intros Hn [I Hs]. destruct o as [bo|id u feed|id]; cbn [sstep].
  - (* somebody else's operation *)
    assert (I' : Inv (fst (step (ss_st ss) bo))).
    { apply step_Inv; [exact I|]. right. destruct bo; cbn in *; try reflexivity; discriminate. }
    cbn [fst ss_st ss_sess]. split; [exact I'|].
    apply mark_all_ok; [exact I | exact I' | apply keeps_step; assumption | exact Hs].
  - (* open *)
    unfold s_open. pose proof (load_user_correct (ss_st ss) u I) as [I' _].
    pose proof (keeps_load_user (ss_st ss) u) as K.
    assert (Ho : forall id0 s, In (id0, s) (mark_all (ss_st ss) (fst (load_user (ss_st ss) u)) (drop_sess id (ss_sess ss))) ->
                               sess_ok (fst (load_user (ss_st ss) u)) s).
    { apply mark_all_ok; try assumption. intros id0 s H. apply (Hs id0). apply drop_sess_in in H. exact H. }
    destruct (snd (load_user (ss_st ss) u)) as [ok|[[chs ros]|]|orr] eqn:Eo; cbn [fst ss_st ss_sess]; try (split; [exact I' | exact Ho]).
    split; [exact I'|]. intros id0 s [E|H]; [|apply (Ho id0); exact H]. inversion E. subst id0 s. clear E.
    pose proof (load_user_clean (ss_st ss) u chs ros feed (keys_of u ros) I Eo) as C.
    split; [|split; [|intros _; exact C]].
    + split; cbn [se_user se_keys se_view snd]; [apply keys_of_covers; left; reflexivity | intros r Hr; apply keys_of_covers; right; exists r; auto].
    + destruct C as [ur [lch0 [lro0 [E _]]]]. cbn [se_user ss_st] in *. congruence.
  - (* request *)
    unfold s_request. destruct (find_sess id (ss_sess ss)) as [s|] eqn:Ef; [|split; assumption].
    destruct (se_dirty s) eqn:Ed; [|split; assumption].
    pose proof (find_sess_in _ _ _ Ef) as Hin. destruct (Hs id s Hin) as [[Cu Cr] [Hex _]].
    pose proof (load_user_correct (ss_st ss) (se_user s) I) as [I' _].
    pose proof (keeps_load_user (ss_st ss) (se_user s)) as K.
    assert (Ho : forall id0 s0, In (id0, s0) (mark_all (ss_st ss) (fst (load_user (ss_st ss) (se_user s))) (drop_sess id (ss_sess ss))) ->
                                sess_ok (fst (load_user (ss_st ss) (se_user s))) s0).
    { apply mark_all_ok; try assumption. intros id0 s0 H. apply (Hs id0). apply drop_sess_in in H. exact H. }
    destruct (snd (load_user (ss_st ss) (se_user s))) as [ok|[[chs ros]|]|orr] eqn:Eo.
    + destruct (se_feed s); cbn [fst ss_st ss_sess]; split; try exact I'; try exact Ho.
      intros id0 s0 [E|H]; [|apply (Ho id0); exact H]. inversion E. subst. split; [split; assumption|].
      split; [apply (proj1 K); exact Hex | discriminate || (cbn [se_dirty]; intros _)].
      exfalso. pose proof (load_user_correct (ss_st ss) (se_user s) I) as [_ Hc].
      destruct (users (ss_st ss) (se_user s)); [destruct Hc as [? [? [Hc _]]]; congruence | congruence].
    + cbn [fst ss_st ss_sess]. split; [exact I'|]. intros id0 s0 [E|H]; [|apply (Ho id0); exact H]. inversion E. subst id0 s0. clear E.
      match goal with |- sess_ok _ (mkSe _ _ ?k _ _) => set (keys' := k) end.
      pose proof (load_user_clean (ss_st ss) (se_user s) chs ros (se_feed s) keys' I Eo) as C.
      split; [|split; [|intros _; exact C]].
      * subst keys'. cbn [covers se_user se_keys se_view snd].
        destruct (se_feed s).
        -- destruct (set_eqb (snd (se_view s)) ros) eqn:Es; [|apply refresh_keys_covers; exact Cu].
           split; [exact Cu|]. intros r Hr. apply Cr. apply (proj1 (set_eqb_spec _ _) Es). exact Hr.
        -- apply refresh_keys_covers. exact Cu.
      * destruct C as [ur [lch0 [lro0 [E _]]]]. cbn [se_user ss_st] in *. congruence.
    + exfalso. pose proof (load_user_correct (ss_st ss) (se_user s) I) as [_ Hc].
      destruct (users (ss_st ss) (se_user s)); [destruct Hc as [? [? [Hc _]]]; congruence | congruence].
    + exfalso. pose proof (load_user_correct (ss_st ss) (se_user s) I) as [_ Hc].
      destruct (users (ss_st ss) (se_user s)); [destruct Hc as [? [? [Hc _]]]; congruence | congruence].
Qed.

Lemma srun_SInv ops : forall ss, forallb notified_op ops = true -> SInv ss -> SInv (srun ss ops).
Proof.
  induction ops as [|o ops IH]; intros ss Hn I; cbn [srun forallb] in *; [exact I|].
  apply andb_true_iff in Hn. destruct Hn as [H1 H2]. apply IH; [exact H2 | apply sstep_SInv; assumption].
Qed.

Lemma SInv_init : SInv sinit.
Proof. split; [exact Inv_init | intros id s []]. Qed.

(* the next request of an open session is answered with what a fresh request (a load in the current state) gets *)
Lemma session_request_fresh ss id s :
  SInv ss -> find_sess id (ss_sess ss) = Some s ->
  exists chs ros, snd (sstep ss (SRequest id)) = SView (Some (chs, ros)) /\
                  out_equiv (OUser (Some (chs, ros))) (snd (load_user (ss_st ss) (se_user s))).
Proof.
  intros [I Hs] Ef. pose proof (find_sess_in _ _ _ Ef) as Hin. destruct (Hs id s Hin) as [_ [Hex Hc]].
  pose proof (load_user_correct (ss_st ss) (se_user s) I) as [_ Hl].
  destruct (users (ss_st ss) (se_user s)) as [ur|] eqn:Eu; [|congruence].
  destruct Hl as [chs0 [ros0 [E0 [Hch Hro]]]].
  cbn [sstep]. unfold s_request. rewrite Ef. destruct (se_dirty s) eqn:Ed.
  - rewrite E0. exists chs0, ros0. split; [reflexivity|]. cbn [out_equiv]. split; intros x; reflexivity.
  - destruct (Hc eq_refl) as [ur1 [lch [lro [E1 [_ [Elro [_ [Hv Hr]]]]]]]]. rewrite Eu in E1. inversion E1. subst ur1.
    destruct (se_view s) as [chs ros] eqn:Ev. cbn [fst snd] in *. exists chs, ros. split; [reflexivity|]. rewrite E0. cbn [out_equiv]. split; intros x.
    + rewrite (Hv x), (Hch x). reflexivity.
    + rewrite (Hr x), (Hro x). destruct (inv_users _ I _ ur Eu) as [_ G2]. apply (G2 lro Elro).
Qed.
