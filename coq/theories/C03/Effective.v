(* C03 -- the channel-access API a request actually uses, on a LOADED user object.

   What is modelled (code as it is now in /repo):
     channels/timed_set.go  TimedSet (name -> sequence), AddChannel (keep the smaller positive sequence), Add,
                            AddAtSequence (sequences below the role's grant sequence are raised to it)   [since, inherited]
     auth/collection_access.go CollectionAccess.CanSeeChannel, auth/role.go canSeeChannel / canSeeChannelSince  [can_see_own, since_own]
     auth/user.go / auth/user_collection_access.go
        CanSeeCollectionChannel / canSeeChannel                     [can_see]
        canSeeCollectionChannelSince / canSeeChannelSince           [can_see_since]
        InheritedCollectionChannels / inheritedChannels             [inherited]
        FilterToAvailableCollectionChannels                         [filter_available]
        expandCollectionWildCardChannel / expandWildCardChannel     [expand_wildcard]
        AuthorizeAnyCollectionChannel  (default collection: auth/role.go authorizeAnyChannel on the USER;
                                        named collection: the user's CollectionAccess, then every role)   [authorize_any;
                                        authorize_any_with true = the default-collection code before a58a51d]

   A TimedSet is a list of (name, sequence) pairs that may mention a name several times: the Go map that results from
   Add / AddChannel holds, for every name, the smallest positive sequence ([since]); its key set is [keys].
   Names are numbers; channel 0 is the public channel "!", channel [star] is the wildcard / all-channels channel "*". *)
From SG Require Import Base.Prelude C03.Access.
Open Scope N_scope.

Definition tset := list (N * N).
Definition star : N := 99.

Definition keys (t : tset) : list N := map fst t.
Definition has (t : tset) (c : N) : bool := mem c (keys t).

(* the smaller of two sequences, 0 meaning "absent" *)
Definition nmin0 (a b : N) : N := if a =? 0 then b else if b =? 0 then a else N.min a b.

(* TimedSet[c].Sequence after the entries were merged with AddChannel: the smallest positive sequence, 0 if absent *)
Fixpoint since (t : tset) (c : N) : N :=
  match t with
  | [] => 0
  | e :: r => if fst e =? c then nmin0 (snd e) (since r c) else since r c
  end.

(* the sequences of the entries for c: the "grant sources" merged into since *)
Definition seqs_of (t : tset) (c : N) : list N := map snd (filter (fun e => fst e =? c) t).

Definition all_pos (t : tset) : Prop := forall e, In e t -> 0 < snd e.

(* what GetRoles returns: the existing, not deleted roles of the user, each with the sequence at which the user
   got the role (user.RoleNames()[role]) and the role's channels *)
Record vrole := mkVR { vr_name : N; vr_since : N; vr_ch : tset }.
Record uview := mkUV { uv_own : tset; uv_roles : list vrole }.

(* CollectionAccess.CanSeeChannel / roleImpl.canSeeChannel *)
Definition can_see_own (t : tset) (c : N) : bool := has t c || has t star.
(* userImpl.CanSeeCollectionChannel / canSeeChannel *)
Definition can_see (v : uview) (c : N) : bool :=
  can_see_own (uv_own v) c || existsb (fun r => can_see_own (vr_ch r) c) (uv_roles v).

(* roleImpl.canSeeCollectionChannelSince: the channel's sequence, else the star channel's *)
Definition since_own (t : tset) (c : N) : N := let s := since t c in if s =? 0 then since t star else s.
(* userImpl.canSeeCollectionChannelSince: the smallest positive one among the user and the roles.  NOTE: the
   sequence at which the user got the role is NOT taken into account here (it is in [inherited]). *)
Definition can_see_since (v : uview) (c : N) : N :=
  fold_left (fun m r => nmin0 m (since_own (vr_ch r) c)) (uv_roles v) (since_own (uv_own v) c).

(* InheritedCollectionChannels: the user's own channels, then every role's channels AddAtSequence(role since) *)
Definition raise (at_ : N) (t : tset) : tset := map (fun e => (fst e, N.max (snd e) at_)) t.
Definition inherited (v : uview) : tset :=
  uv_own v ++ flat_map (fun r => raise (vr_since r) (vr_ch r)) (uv_roles v).

(* FilterToAvailableCollectionChannels: (filtered with since values, removed) *)
Definition filter_available (v : uview) (cs : list N) : tset * list N :=
  if mem star cs then (inherited v, [])
  else (flat_map (fun c => let s := can_see_since v c in if s =? 0 then [] else [(c, s)]) cs,
        filter (fun c => can_see_since v c =? 0) cs).

(* expandCollectionWildCardChannel *)
Definition expand_wildcard (v : uview) (cs : list N) : list N :=
  if mem star cs then keys (inherited v) else cs.

(* AuthorizeAnyCollectionChannel: true = authorized *)
Definition any_own (t : tset) (cs : list N) : bool :=
  match cs with [] => has t star | _ => existsb (can_see_own t) cs end.
(* own_only = true: the default-collection code before the repair a58a51d, where the empty set (a document in no
   channel) was authorized by the user's OWN "*" only (princ.Channels()); false: the code as it is now
   (princ.canSeeChannel("*"), which also asks the roles) *)
Definition authorize_any_with (own_only : bool) (is_default : bool) (v : uview) (cs : list N) : bool :=
  if is_default
  then match cs with
       | [] => if own_only then has (uv_own v) star else can_see v star
       | _ => existsb (can_see v) cs
       end
  else any_own (uv_own v) cs || existsb (fun r => any_own (vr_ch r) cs) (uv_roles v).
Definition default_empty_own_only : bool := false.
Definition authorize_any : bool -> uview -> list N -> bool := authorize_any_with default_empty_own_only.

(* THE effective set: every channel name the user holds, directly or through an existing role *)
Definition effective_set (v : uview) : list N :=
  keys (uv_own v) ++ flat_map (fun r => keys (vr_ch r)) (uv_roles v).

Definition view_pos (v : uview) : Prop :=
  all_pos (uv_own v) /\ forall r, In r (uv_roles v) -> all_pos (vr_ch r).
