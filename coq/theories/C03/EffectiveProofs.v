(* C03 -- the access API of a loaded user object agrees with ONE effective set (proofs about Effective.v). *)
From SG Require Import Base.Prelude C03.Access C03.AccessProofs C03.Effective.
Open Scope N_scope.

Lemma has_In t c : has t c = true <-> In c (keys t).
Proof. unfold has. apply mem_In. Qed.

Lemma has_false t c : has t c = false <-> ~ In c (keys t).
Proof. rewrite <- has_In. destruct (has t c); split; congruence. Qed.

Lemma nmin0_0_l b : nmin0 0 b = b.
Proof. reflexivity. Qed.

Lemma nmin0_0_r a : nmin0 a 0 = a.
Proof. unfold nmin0. destruct (a =? 0) eqn:E; [apply N.eqb_eq in E; auto | reflexivity]. Qed.

Lemma nmin0_eq0 a b : nmin0 a b = 0 <-> a = 0 /\ b = 0.
Proof. unfold nmin0. destruct (N.eqb_spec a 0); destruct (N.eqb_spec b 0); cbv iota; lia. Qed.

Lemma nmin0_cases a b : (a = 0 /\ nmin0 a b = b) \/ (b = 0 /\ nmin0 a b = a) \/ (a <> 0 /\ b <> 0 /\ nmin0 a b = N.min a b).
Proof. unfold nmin0. destruct (N.eqb_spec a 0); destruct (N.eqb_spec b 0); cbv iota; lia. Qed.

Lemma nmin0_assoc a b c : nmin0 (nmin0 a b) c = nmin0 a (nmin0 b c).
Proof.
  unfold nmin0. destruct (N.eqb_spec a 0); destruct (N.eqb_spec b 0); destruct (N.eqb_spec c 0); cbv iota;
    repeat match goal with |- context[?x =? 0] => destruct (N.eqb_spec x 0); cbv iota end; lia.
Qed.

Lemma nmin0_comm a b : nmin0 a b = nmin0 b a.
Proof. unfold nmin0. destruct (N.eqb_spec a 0); destruct (N.eqb_spec b 0); cbv iota; lia. Qed.

Lemma all_pos_cons e t : all_pos (e :: t) <-> 0 < snd e /\ all_pos t.
Proof.
  unfold all_pos. split.
  - intros H. split; [apply H; left; reflexivity | intros x Hx; apply H; right; exact Hx].
  - intros [H1 H2] x [<-|Hx]; [exact H1 | apply H2; exact Hx].
Qed.

Lemma all_pos_app a b : all_pos (a ++ b) <-> all_pos a /\ all_pos b.
Proof.
  unfold all_pos. split.
  - intros H. split; intros x Hx; apply H; apply in_app_iff; [left | right]; exact Hx.
  - intros [H1 H2] x Hx. apply in_app_iff in Hx. destruct Hx; [apply H1 | apply H2]; assumption.
Qed.

Lemma all_pos_nil : all_pos [].
Proof. intros e []. Qed.

(* [since] is 0 exactly for the names that are absent *)
Lemma since_zero_iff t c : all_pos t -> (since t c = 0 <-> ~ In c (keys t)).
Proof.
  induction t as [|e t IH]; intros P; cbn [since keys map In].
  - tauto.
  - apply all_pos_cons in P. destruct P as [Pe Pt]. specialize (IH Pt).
    destruct (fst e =? c) eqn:E.
    + apply N.eqb_eq in E. rewrite nmin0_eq0. split; [lia | intros H; exfalso; apply H; left; exact E].
    + apply N.eqb_neq in E. rewrite IH. unfold keys. tauto.
Qed.

Lemma since_pos_iff t c : all_pos t -> (since t c <> 0 <-> In c (keys t)).
Proof.
  intros P. rewrite (since_zero_iff t c P). destruct (in_dec N.eq_dec c (keys t)); tauto.
Qed.

(* ... and otherwise the smallest sequence among the entries of the name: the earliest grant source *)
Lemma since_is_min t c : all_pos t -> In c (keys t) ->
  In (since t c) (seqs_of t c) /\ forall s, In s (seqs_of t c) -> since t c <= s.
Proof.
  induction t as [|e t IH]; intros P Hin; [destruct Hin|].
  apply all_pos_cons in P. destruct P as [Pe Pt]. cbn [since seqs_of filter map].
  destruct (fst e =? c) eqn:E.
  - cbn [map In]. destruct (in_dec N.eq_dec c (keys t)) as [Hk|Hk].
    + destruct (IH Pt Hk) as [H1 H2]. fold (seqs_of t c).
      pose proof (proj2 (since_pos_iff t c Pt) Hk) as Hnz.
      destruct (nmin0_cases (snd e) (since t c)) as [[A _]|[[A _]|[_ [_ A]]]]; [lia | contradiction|].
      rewrite A. split.
      * destruct (N.min_spec (snd e) (since t c)) as [[_ M]|[_ M]]; rewrite M; [left; reflexivity | right; exact H1].
      * intros s [<-|Hs]; [lia | specialize (H2 s Hs); lia].
    + rewrite (proj2 (since_zero_iff t c Pt) Hk), nmin0_0_r. fold (seqs_of t c).
      assert (seqs_of t c = []) as ->.
      { unfold seqs_of. clear -Hk. induction t as [|x t IH]; [reflexivity|]. cbn [filter keys map In] in *.
        destruct (fst x =? c) eqn:Ex; [apply N.eqb_eq in Ex; exfalso; apply Hk; left; exact Ex|].
        apply IH. intros H. apply Hk. right. exact H. }
      split; [left; reflexivity | intros s [<-|[]]; lia].
  - fold (seqs_of t c). apply IH; [exact Pt|]. cbn [keys map In] in Hin. apply N.eqb_neq in E. destruct Hin; [contradiction | assumption].
Qed.

Lemma since_app a b c : since (a ++ b) c = nmin0 (since a c) (since b c).
Proof.
  induction a as [|e a IH]; cbn [app since]; [reflexivity|].
  destruct (fst e =? c); [rewrite IH, nmin0_assoc; reflexivity | exact IH].
Qed.

Lemma keys_app a b : keys (a ++ b) = keys a ++ keys b.
Proof. unfold keys. apply map_app. Qed.

Lemma keys_raise a t : keys (raise a t) = keys t.
Proof. unfold keys, raise. rewrite map_map. reflexivity. Qed.

Lemma all_pos_raise a t : all_pos t -> all_pos (raise a t).
Proof.
  intros P e He. unfold raise in He. apply in_map_iff in He. destruct He as [x [<- Hx]]. cbn [snd].
  specialize (P x Hx). lia.
Qed.

(* AddAtSequence: the role's channel sequence, raised to the sequence at which the user got the role *)
Lemma since_raise a t c : all_pos t -> since (raise a t) c = if since t c =? 0 then 0 else N.max (since t c) a.
Proof.
  induction t as [|e t IH]; intros P; cbn [raise map since]; [reflexivity|].
  apply all_pos_cons in P. destruct P as [Pe Pt]. cbn [fst snd]. fold (raise a t). rewrite (IH Pt).
  destruct (fst e =? c); [|reflexivity].
  destruct (since t c =? 0) eqn:Ez.
  - apply N.eqb_eq in Ez. rewrite Ez, !nmin0_0_r. destruct (snd e =? 0) eqn:E0; [lia | reflexivity].
  - apply N.eqb_neq in Ez. remember (since t c) as m. remember (snd e) as x. clear - Pe Ez.
    assert (F : forall y, y <> 0 -> (y =? 0) = false) by (intros y Hy; apply N.eqb_neq; exact Hy).
    unfold nmin0. rewrite (F m Ez), (F x) by lia. rewrite (F (N.max x a)), (F (N.max m a)), (F (N.min x m)) by lia. lia.
Qed.

(* ---------- the effective set ---------- *)
Lemma can_see_own_spec t c : can_see_own t c = true <-> In c (keys t) \/ In star (keys t).
Proof. unfold can_see_own. rewrite orb_true_iff, !has_In. reflexivity. Qed.

Lemma effective_in v c :
  In c (effective_set v) <-> In c (keys (uv_own v)) \/ exists r, In r (uv_roles v) /\ In c (keys (vr_ch r)).
Proof.
  unfold effective_set. rewrite in_app_iff, in_flat_map. reflexivity.
Qed.

(* CanSeeCollectionChannel = membership in the effective set, the star channel standing for every channel *)
Lemma can_see_iff_in_effective v c :
  can_see v c = true <-> In c (effective_set v) \/ In star (effective_set v).
Proof.
  unfold can_see. rewrite orb_true_iff, existsb_exists, can_see_own_spec, !effective_in. split.
  - intros [[H|H]|[r [Hr H]]]; [left; left; exact H | right; left; exact H|].
    apply can_see_own_spec in H. destruct H as [H|H]; [left | right]; right; exists r; split; assumption.
  - intros [[H|[r [Hr H]]]|[H|[r [Hr H]]]].
    + left; left; exact H.
    + right. exists r. split; [exact Hr | apply can_see_own_spec; left; exact H].
    + left; right; exact H.
    + right. exists r. split; [exact Hr | apply can_see_own_spec; right; exact H].
Qed.

(* InheritedCollectionChannels has exactly the names of the effective set *)
Lemma inherited_keys v : keys (inherited v) = effective_set v.
Proof.
  unfold inherited, effective_set. rewrite keys_app. f_equal.
  induction (uv_roles v) as [|r l IH]; cbn [flat_map]; [reflexivity|].
  rewrite keys_app, keys_raise, IH. reflexivity.
Qed.

Lemma inherited_pos v : view_pos v -> all_pos (inherited v).
Proof.
  intros [Po Pr]. unfold inherited. apply all_pos_app. split; [exact Po|].
  intros e He. apply in_flat_map in He. destruct He as [r [Hr He]].
  exact (all_pos_raise (vr_since r) (vr_ch r) (Pr r Hr) e He).
Qed.

(* ... each with the smallest sequence among: the user's own grant, and for every role max(role's grant, role since) *)
Lemma inherited_since v c :
  since (inherited v) c =
  fold_left (fun m r => nmin0 m (since (raise (vr_since r) (vr_ch r)) c)) (uv_roles v) (since (uv_own v) c).
Proof.
  unfold inherited. rewrite since_app. generalize (since (uv_own v) c) as m.
  induction (uv_roles v) as [|r l IH]; intros m; cbn [flat_map fold_left since]; [apply nmin0_0_r|].
  rewrite since_app, <- nmin0_assoc. apply IH.
Qed.

(* expandCollectionWildCardChannel: a set that mentions "*" expands to the effective set, any other set is unchanged *)
Lemma wildcard_expands_to_effective v cs :
  (mem star cs = true -> expand_wildcard v cs = effective_set v) /\
  (mem star cs = false -> expand_wildcard v cs = cs).
Proof.
  unfold expand_wildcard. split; intros ->; [apply inherited_keys | reflexivity].
Qed.

(* canSeeChannelSince is positive exactly when the channel can be seen *)
Lemma since_own_pos t c : all_pos t -> (since_own t c <> 0 <-> can_see_own t c = true).
Proof.
  intros P. unfold since_own. rewrite can_see_own_spec.
  destruct (since t c =? 0) eqn:E.
  - apply N.eqb_eq in E. rewrite (since_pos_iff t star P). apply (since_zero_iff t c P) in E. tauto.
  - apply N.eqb_neq in E. pose proof (proj1 (since_pos_iff t c P) E). tauto.
Qed.

Lemma fold_nmin0_zero {A} (f : A -> N) l m :
  fold_left (fun m r => nmin0 m (f r)) l m = 0 <-> m = 0 /\ forall r, In r l -> f r = 0.
Proof.
  revert m. induction l as [|x l IH]; intros m; cbn [fold_left In].
  - split; [intros ->; split; [reflexivity | intros r []] | intros [-> _]; reflexivity].
  - rewrite IH, nmin0_eq0. split.
    + intros [[H1 H2] H3]. split; [exact H1|]. intros r [<-|Hr]; [exact H2 | apply H3; exact Hr].
    + intros [H1 H2]. split; [split; [exact H1 | apply H2; left; reflexivity] | intros r Hr; apply H2; right; exact Hr].
Qed.

Lemma can_see_since_pos v c : view_pos v -> (can_see_since v c <> 0 <-> can_see v c = true).
Proof.
  intros [Po Pr]. unfold can_see_since, can_see. rewrite orb_true_iff, existsb_exists.
  split.
  - intros H. destruct (can_see_own (uv_own v) c) eqn:Eo; [left; reflexivity|]. right.
    destruct (existsb (fun r => can_see_own (vr_ch r) c) (uv_roles v)) eqn:Ee; [apply existsb_exists in Ee; exact Ee|].
    exfalso. apply H. apply fold_nmin0_zero. split.
    + destruct (N.eq_dec (since_own (uv_own v) c) 0) as [E|E]; [exact E|]. apply (since_own_pos _ _ Po) in E. congruence.
    + intros r Hr. destruct (N.eq_dec (since_own (vr_ch r) c) 0) as [E|E]; [exact E|].
      apply (since_own_pos _ _ (Pr r Hr)) in E.
      assert (existsb (fun r => can_see_own (vr_ch r) c) (uv_roles v) = true) by (apply existsb_exists; exists r; split; assumption).
      congruence.
  - intros H Hz. apply fold_nmin0_zero in Hz. destruct Hz as [Hz1 Hz2]. destruct H as [H|[r [Hr H]]].
    + apply (since_own_pos _ _ Po) in H. contradiction.
    + apply (since_own_pos _ _ (Pr r Hr)) in H. apply H. apply Hz2. exact Hr.
Qed.

(* FilterToAvailableCollectionChannels of a set WITHOUT "*": the intersection with what can be seen; the rest is
   reported as removed; every kept channel carries canSeeChannelSince.  WITH "*": the inherited channels. *)
Lemma filter_is_intersection v cs :
  view_pos v ->
  (mem star cs = false ->
     (forall c, In c (keys (fst (filter_available v cs))) <-> In c cs /\ can_see v c = true) /\
     (forall c, In c (snd (filter_available v cs)) <-> In c cs /\ can_see v c = false) /\
     (forall e, In e (fst (filter_available v cs)) -> snd e = can_see_since v (fst e) /\ 0 < snd e)) /\
  (mem star cs = true -> filter_available v cs = (inherited v, [])).
Proof.
  intros P. unfold filter_available. split; intros ->; [|reflexivity]. cbn [fst snd].
  assert (Hcs : forall c, (can_see_since v c =? 0) = negb (can_see v c)).
  { intros c. pose proof (can_see_since_pos v c P) as H. destruct (can_see v c), (can_see_since v c =? 0) eqn:E; cbn [negb];
      try reflexivity; [apply N.eqb_eq in E; exfalso; apply (proj2 H eq_refl); exact E |
                        apply N.eqb_neq in E; apply H in E; discriminate]. }
  split; [|split].
  - intros c. unfold keys. rewrite in_map_iff. split.
    + intros [e [<- He]]. apply in_flat_map in He. destruct He as [x [Hx He]]. rewrite Hcs in He.
      destruct (can_see v x) eqn:Ex; cbn [negb] in He; [|destruct He].
      destruct He as [<-|[]]. cbn [fst]. split; assumption.
    + intros [Hc Hs]. exists (c, can_see_since v c). split; [reflexivity|]. apply in_flat_map. exists c. split; [exact Hc|].
      rewrite Hcs, Hs. cbn [negb]. left; reflexivity.
  - intros c. rewrite filter_In, Hcs. destruct (can_see v c); cbn [negb]; intuition congruence.
  - intros e He. apply in_flat_map in He. destruct He as [x [Hx He]].
    destruct (can_see_since v x =? 0) eqn:Ex; [destruct He|]. destruct He as [<-|[]]. cbn [fst snd].
    apply N.eqb_neq in Ex. split; [reflexivity | lia].
Qed.

(* AuthorizeAnyCollectionChannel *)
Lemma any_own_nonempty t cs : cs <> [] -> any_own t cs = existsb (can_see_own t) cs.
Proof. destruct cs; [congruence | reflexivity]. Qed.

Lemma existsb_or {A} (f g : A -> bool) l : existsb (fun x => f x || g x) l = existsb f l || existsb g l.
Proof.
  induction l as [|x l IH]; cbn [existsb]; [reflexivity|]. rewrite IH.
  destruct (f x), (g x), (existsb f l), (existsb g l); reflexivity.
Qed.

Lemma existsb_swap {A B} (f : A -> B -> bool) la lb :
  existsb (fun a => existsb (f a) lb) la = existsb (fun b => existsb (fun a => f a b) la) lb.
Proof.
  apply eq_true_iff_eq. rewrite !existsb_exists. split.
  - intros [a [Ha H]]. apply existsb_exists in H. destruct H as [b [Hb H]]. exists b. split; [exact Hb|].
    apply existsb_exists. exists a. split; assumption.
  - intros [b [Hb H]]. apply existsb_exists in H. destruct H as [a [Ha H]]. exists a. split; [exact Ha|].
    apply existsb_exists. exists b. split; assumption.
Qed.

(* a non-empty set: authorized iff some channel of it can be seen -- in the default and in a named collection,
   before and after the repair *)
Lemma authorize_any_with_nonempty oo def v cs :
  cs <> [] -> authorize_any_with oo def v cs = existsb (can_see v) cs.
Proof.
  intros Hne. unfold authorize_any_with. destruct def.
  - destruct cs; [congruence | reflexivity].
  - rewrite (any_own_nonempty _ _ Hne).
    assert (existsb (fun r => any_own (vr_ch r) cs) (uv_roles v) =
            existsb (fun r => existsb (can_see_own (vr_ch r)) cs) (uv_roles v)) as ->.
    { induction (uv_roles v) as [|r l IH]; cbn [existsb]; [reflexivity|]. rewrite IH, (any_own_nonempty _ _ Hne). reflexivity. }
    rewrite (existsb_swap (fun r c => can_see_own (vr_ch r) c)). unfold can_see. rewrite existsb_or. reflexivity.
Qed.

Lemma authorize_any_nonempty def v cs : cs <> [] -> authorize_any def v cs = existsb (can_see v) cs.
Proof. apply authorize_any_with_nonempty. Qed.

(* the empty set (a document in no channel): authorized iff "*" is in the effective set *)
Lemma authorize_any_with_empty_named oo v :
  authorize_any_with oo false v [] = true <-> In star (effective_set v).
Proof.
  unfold authorize_any_with, any_own. rewrite orb_true_iff, existsb_exists, has_In, effective_in.
  split; (intros [H|[r [Hr H]]]; [left; exact H | right; exists r; split; [exact Hr|]]); apply has_In; exact H.
Qed.

Lemma authorize_any_empty def v : authorize_any def v [] = true <-> In star (effective_set v).
Proof.
  destruct def; [|apply authorize_any_with_empty_named].
  unfold authorize_any, authorize_any_with, default_empty_own_only. rewrite can_see_iff_in_effective. tauto.
Qed.

(* before the repair a58a51d, in the DEFAULT collection only the user's own "*" counted *)
Lemma authorize_any_old_empty_default v :
  authorize_any_with true true v [] = true <-> In star (keys (uv_own v)).
Proof. unfold authorize_any_with. apply has_In. Qed.

(* AuthorizeAnyCollectionChannel agrees with the effective set, for every channel set, in every collection *)
Lemma authorize_any_agrees def v cs :
  authorize_any def v cs = true <->
  match cs with
  | [] => In star (effective_set v)
  | _ => exists c, In c cs /\ (In c (effective_set v) \/ In star (effective_set v))
  end.
Proof.
  destruct cs as [|c0 cs]; [apply authorize_any_empty|].
  rewrite authorize_any_nonempty by discriminate. rewrite existsb_exists.
  split; intros [c [H1 H2]]; exists c; (split; [exact H1|]); apply can_see_iff_in_effective; exact H2.
Qed.
