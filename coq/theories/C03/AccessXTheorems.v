(* C03 -- theorems about the extended model: rejected writes, grant sequences, histories, the access API. *)
From SG Require Import Base.Prelude C03.Access C03.AccessSpec C03.AccessProofs C03.AccessTheorems
  C03.Effective C03.EffectiveProofs C03.AccessX C03.AccessXLemmas C03.AccessXProofs.
Open Scope N_scope.

(* ---------- a load touches nothing but computed values ---------- *)
Lemma fold_rebuild_role_frame ro : forall xs xs',
  xs' = fold_left x_rebuild_role ro xs ->
  xdacc xs' = xdacc xs /\ xdrol xs' = xdrol xs /\ xreq xs' = xreq xs /\ xclock xs' = xclock xs /\ xdef xs' = xdef xs /\ xu xs' = xu xs.
Proof.
  induction ro as [|r ro IH]; intros xs xs' ->; cbn [fold_left]; [repeat split|].
  destruct (IH (x_rebuild_role xs r) _ eq_refl) as [H1 [H2 [H3 [H4 [H5 H6]]]]]. rewrite H1, H2, H3, H4, H5, H6. repeat split.
Qed.

Lemma x_load_user_frame xs u xs' :
  xs' = x_load_user xs u ->
  xdacc xs' = xdacc xs /\ xdrol xs' = xdrol xs /\ xreq xs' = xreq xs /\ xclock xs' = xclock xs /\ xdef xs' = xdef xs /\
  xu xs' = upd (xu xs) u (user_deco_rebuilt xs u).
Proof.
  intros ->. unfold x_load_user. destruct (fold_rebuild_role_frame (loaded_roles (xb xs) u) (x_rebuild_user xs u) _ eq_refl) as [H1 [H2 [H3 [H4 [H5 H6]]]]].
  rewrite H1, H2, H3, H4, H5, H6. repeat split.
Qed.

Lemma load_user_same_truth st u : Inv st -> same_truth (fst (load_user st u)) st.
Proof.
  intros I. unfold load_user. destruct (rebuild_user st u) as [st1 our] eqn:E.
  destruct (rebuild_user_spec st u st1 our I E) as [I1 [Hd [Hi [Hr [Hu Ho]]]]].
  assert (T1 : same_truth st1 st).
  { split; [intros d; rewrite Hd; reflexivity|]. split; [|intros r; rewrite Hr; reflexivity].
    intros u'. rewrite Hu. unfold upd. destruct (u' =? u) eqn:Eu; [|reflexivity]. apply N.eqb_eq in Eu. subst u'.
    destruct our as [ur'|]; [|rewrite Ho; reflexivity]. destruct Ho as [ur [E1 [E2 [E3 _]]]]. rewrite E1. cbn [option_map]. congruence. }
  destruct our as [ur'|]; [|exact T1]. cbn [fst].
  destruct (fold_left load_role_chans (opt_list (u_ro ur')) (st1, opt_list (u_ch ur'))) as [st2 chs] eqn:Ef.
  destruct (load_roles_fold _ _ _ _ _ I1 Ef) as [_ [Hd2 [_ [Hu2 [Hc2 _]]]]]. cbn [fst].
  destruct T1 as [A [B C]]. split; [intros d; rewrite Hd2; apply A|]. split; [intros u'; rewrite Hu2; apply B|].
  intros r. specialize (Hc2 r). unfold rcore in Hc2. rewrite Hc2. apply C.
Qed.

(* (1) WHO: a write that the sync function rejects -- because the body is rejected, or a requireAdmin / requireUser /
   requireRole / requireAccess of the written body or of a PROMOTED older leaf fails for the writer -- grants nothing
   and revokes nothing: no revision, no stored access map, no admin set, no sequence changes; the base state is what
   a load of the writer leaves (the lazy rebuild of the writer and its roles), and every user's next load is what it
   would have been without the write.
   (Exception, outside these operations: during RESYNC a rejection drops the grants of the document -- C18.) *)
Lemma rejected_write_grants_nothing xs u d parent r q b s :
  XInv xs ->
  snd (x_put_as xs u d parent r q b s) = false ->
  let xs' := fst (x_put_as xs u d parent r q b s) in
  xb xs' = fst (load_user (xb xs) u) /\
  docs (xb xs') = docs (xb xs) /\
  xdacc xs' = xdacc xs /\ xdrol xs' = xdrol xs /\ xreq xs' = xreq xs /\ xclock xs' = xclock xs /\
  same_truth (xb xs') (xb xs) /\
  forall u', out_equiv (snd (load_user (xb xs') u')) (snd (load_user (xb xs) u')).
Proof.
  intros I Hrej xs'. pose proof (xi_base xs I) as Ib.
  assert (E : xs' = x_load_user xs u).
  { subst xs'. unfold x_put_as in *. destruct (users (xb (x_load_user xs u)) u); [|reflexivity].
    destruct (accepts _ _ _ _ _ _ _ _ _); [discriminate | reflexivity]. }
  rewrite E. destruct (x_load_user_frame xs u _ eq_refl) as [H1 [H2 [H3 [H4 _]]]].
  pose proof (load_user_same_truth (xb xs) u Ib) as T. rewrite <- xb_load_user in T.
  split; [apply xb_load_user|]. split.
  { rewrite xb_load_user. unfold load_user. destruct (rebuild_user (xb xs) u) as [st1 our] eqn:Er.
    destruct (rebuild_user_spec _ _ _ _ Ib Er) as [I1 [Hd _]]. destruct our as [ur'|]; [|exact Hd]. cbn [fst].
    destruct (fold_left load_role_chans (opt_list (u_ro ur')) (st1, opt_list (u_ch ur'))) as [st2 chs] eqn:Ef.
    destruct (load_roles_fold _ _ _ _ _ I1 Ef) as [_ [Hd2 _]]. cbn [fst]. congruence. }
  repeat (split; [assumption|]).
  intros u'. apply same_truth_loads; [apply (xi_base _ (x_load_user_XInv xs u I)) | exact Ib | exact T].
Qed.

(* the writer's context is what its load returns: a requirement is evaluated against the specification *)
Lemma accepted_needs_requirement xs u d parent r q v s ur :
  XInv xs -> users (xb xs) u = Some ur ->
  snd (x_put_as xs u d parent r q (BLive v) s) = true ->
  match q with
  | RNone => True
  | RAdmin => False
  | RUser l => In u l
  | RRole l => exists x, In x l /\ roles_spec (docs (xb xs)) u (u_xro ur) x
  | RAccess l => exists c, In c l /\ In c (keys (inherited (view_of (x_load_user xs u) u)))
  end.
Proof.
  intros I Eu Hacc. pose proof (xi_base xs I) as Ib. unfold x_put_as in Hacc.
  destruct (users (xb (x_load_user xs u)) u) as [ur1|] eqn:E1; [|discriminate].
  destruct (accepts (x_load_user xs u) u _ _ d parent r q (BLive v)) eqn:Ea; [|discriminate].
  unfold accepts in Ea. apply andb_true_iff in Ea. destruct Ea as [Ea _].
  destruct q as [| |l|l|l]; cbn [req_ok] in Ea; try exact Logic.I; try discriminate.
  - apply mem_In. exact Ea.
  - apply existsb_exists in Ea. destruct Ea as [x [Hx Hl]]. exists x. split; [apply mem_In; exact Hl|].
    (* the role list of the loaded user is the specification of its roles *)
    rewrite xb_load_user in E1. unfold load_user in E1. destruct (rebuild_user (xb xs) u) as [st1 our] eqn:Er.
    destruct (rebuild_user_spec _ _ _ _ Ib Er) as [I1 [Hd [_ [_ [Hu Ho]]]]].
    destruct our as [ur'|].
    + cbn [fst] in E1.
      destruct (fold_left load_role_chans (opt_list (u_ro ur')) (st1, opt_list (u_ch ur'))) as [st2 chs] eqn:Ef.
      destruct (load_roles_fold _ _ _ _ _ I1 Ef) as [_ [_ [_ [Hu2 _]]]]. cbn [fst] in E1. rewrite Hu2, Hu, upd_same in E1.
      inversion E1. subst ur1. destruct Ho as [ur0 [E0 [_ [Exr [[_ G2] [_ [l2 El2]]]]]]].
      rewrite Eu in E0. inversion E0. subst ur0. rewrite El2 in Hx. cbn [opt_list] in Hx.
      rewrite <- Exr. apply (G2 l2 El2). exact Hx.
    + cbn [fst] in E1. rewrite Hu, upd_same in E1. discriminate.
  - apply existsb_exists in Ea. destruct Ea as [c [Hc Hl]]. exists c. split; [apply mem_In; exact Hl | exact Hc].
Qed.

(* ---------- (2) TIME ---------- *)
Lemma seqs_of_app a b c : seqs_of (a ++ b) c = seqs_of a c ++ seqs_of b c.
Proof. unfold seqs_of. rewrite filter_app, map_app. reflexivity. Qed.

Lemma seqs_of_flat_map {A} (f : A -> tset) l c : seqs_of (flat_map f l) c = flat_map (fun x => seqs_of (f x) c) l.
Proof. induction l as [|x l IH]; [reflexivity|]. cbn [flat_map]. rewrite seqs_of_app, IH. reflexivity. Qed.

(* the live grant sources of channel c for access key p: the admin grant, every document whose stored access map
   (= the verdict on its winning revision) grants c to p, and the built-in grant of "!" at sequence 1 *)
Definition chan_sources (xs : xstate) (p : pid) (x : tset) (c : N) : list N :=
  seqs_of x c ++ flat_map (fun d => seqs_of (tgrants pid_eqb (xdacc xs d) p) c) (ids (xb xs)) ++ (if pub =? c then [1] else []).
Definition role_sources (xs : xstate) (u : N) (x : tset) (r : N) : list N :=
  seqs_of x r ++ flat_map (fun d => seqs_of (tgrants N.eqb (xdrol xs d) u) r) (ids (xb xs)).

Lemma chan_sources_eq xs p x c : seqs_of (tcompute_chans xs p x) c = chan_sources xs p x c.
Proof.
  unfold tcompute_chans, chan_sources, tdoc_chan. rewrite !seqs_of_app, seqs_of_flat_map.
  assert (E : seqs_of [(pub, 1)] c = if pub =? c then [1] else []) by (unfold seqs_of; cbn [filter fst]; destruct (pub =? c); reflexivity).
  rewrite E. reflexivity.
Qed.

Lemma role_sources_eq xs u x r : seqs_of (tcompute_roles xs u x) r = role_sources xs u x r.
Proof.
  unfold tcompute_roles, role_sources, tdoc_role. rewrite seqs_of_app, seqs_of_flat_map. reflexivity.
Qed.

Lemma seqs_of_nil_iff t c : seqs_of t c = [] <-> ~ In c (keys t).
Proof.
  unfold seqs_of, keys. induction t as [|e t IH]; cbn [filter map In]; [tauto|].
  destruct (N.eqb_spec (fst e) c) as [E|E]; cbn [map]; [split; [discriminate | intros H; exfalso; apply H; left; exact E]|].
  rewrite IH. tauto.
Qed.

(* a since value is the minimum of the source sequences *)
Definition is_first (m : N) (srcs : list N) : Prop := In m srcs /\ forall s, In s srcs -> m <= s.

Lemma since_eq_first a b c :
  all_pos a -> all_pos b -> since_eq a b ->
  (In c (keys a) <-> seqs_of b c <> []) /\ (seqs_of b c <> [] -> is_first (since a c) (seqs_of b c)).
Proof.
  intros Pa Pb E.
  assert (K : In c (keys a) <-> In c (keys b)).
  { rewrite <- (since_pos_iff a c Pa), <- (since_pos_iff b c Pb), (E c). reflexivity. }
  assert (N_ : seqs_of b c <> [] <-> In c (keys b)).
  { rewrite seqs_of_nil_iff. destruct (in_dec N.eq_dec c (keys b)); tauto. }
  split; [rewrite K, N_; reflexivity|].
  intros H. apply N_ in H. rewrite (E c). exact (since_is_min b c Pb H).
Qed.

(* granted_since_is_first_grant_seq, for a user whose channel cache is valid (always, right after a load) *)
Lemma user_since_is_first_grant_seq xs u ur c :
  XInv xs -> users (xb xs) u = Some ur -> u_ch ur <> None ->
  let g := ud_ch (xu xs u) in
  let srcs := chan_sources xs (PU u) (g_x g) c in
  (In c (keys (g_c g)) <-> own_spec (docs (xb xs)) (PU u) (u_xch ur) c) /\
  (In c (keys (g_c g)) <-> srcs <> []) /\
  (srcs <> [] -> is_first (since (g_c g) c) srcs).
Proof.
  intros I Eu Hv g srcs. destruct (xi_users xs I u ur Eu) as [_ [Gc [_ [Sc _]]]]. specialize (Sc Hv).
  pose proof (since_eq_first (g_c g) (tcompute_chans xs (PU u) (g_x g)) c (gk_cpos _ _ _ _ Gc)
                (tcompute_chans_pos xs (PU u) _ I (gk_xpos _ _ _ _ Gc)) Sc) as [H1 H2].
  rewrite chan_sources_eq in H1, H2. fold g srcs in H1, H2. split; [|split; assumption].
  destruct (u_ch ur) as [l|] eqn:El; [|congruence]. destruct (gk_valid _ _ _ _ Gc l eq_refl) as [K _]. fold g in K. rewrite K.
  destruct (inv_users _ (xi_base xs I) u ur Eu) as [G1 _]. apply (G1 l El).
Qed.

Lemma user_roles_since_is_first_grant_seq xs u ur r :
  XInv xs -> users (xb xs) u = Some ur -> u_ro ur <> None ->
  let g := ud_ro (xu xs u) in
  let srcs := role_sources xs u (g_x g) r in
  (In r (keys (g_c g)) <-> roles_spec (docs (xb xs)) u (u_xro ur) r) /\
  (In r (keys (g_c g)) <-> srcs <> []) /\
  (srcs <> [] -> is_first (since (g_c g) r) srcs).
Proof.
  intros I Eu Hv g srcs. destruct (xi_users xs I u ur Eu) as [_ [_ [Gr [_ Sr]]]]. specialize (Sr Hv).
  pose proof (since_eq_first (g_c g) (tcompute_roles xs u (g_x g)) r (gk_cpos _ _ _ _ Gr)
                (tcompute_roles_pos xs u _ I (gk_xpos _ _ _ _ Gr)) Sr) as [H1 H2].
  rewrite role_sources_eq in H1, H2. fold g srcs in H1, H2. split; [|split; assumption].
  destruct (u_ro ur) as [l|] eqn:El; [|congruence]. destruct (gk_valid _ _ _ _ Gr l eq_refl) as [K _]. fold g in K. rewrite K.
  destruct (inv_users _ (xi_base xs I) u ur Eu) as [_ G2]. apply (G2 l El).
Qed.

Lemma role_since_is_first_grant_seq xs r rr c :
  XInv xs -> roles (xb xs) r = Some rr -> r_del rr = false -> r_ch rr <> None ->
  let g := xr xs r in
  let srcs := chan_sources xs (PR r) (g_x g) c in
  (In c (keys (g_c g)) <-> own_spec (docs (xb xs)) (PR r) (r_xch rr) c) /\
  (In c (keys (g_c g)) <-> srcs <> []) /\
  (srcs <> [] -> is_first (since (g_c g) c) srcs).
Proof.
  intros I Er Hd Hv g srcs. destruct (xi_roles xs I r rr Er) as [_ [_ Hg]]. destruct (Hg Hd) as [Gc Sc]. specialize (Sc Hv).
  pose proof (since_eq_first (g_c g) (tcompute_chans xs (PR r) (g_x g)) c (gk_cpos _ _ _ _ Gc)
                (tcompute_chans_pos xs (PR r) _ I (gk_xpos _ _ _ _ Gc)) Sc) as [H1 H2].
  rewrite chan_sources_eq in H1, H2. fold g srcs in H1, H2. split; [|split; assumption].
  destruct (r_ch rr) as [l|] eqn:El; [|congruence]. destruct (gk_valid _ _ _ _ Gc l eq_refl) as [K _]. fold g in K. rewrite K.
  apply (inv_roles _ (xi_base xs I) r rr Er l El).
Qed.

(* after a load both caches of the user are valid *)
Lemma fold_rebuild_role_users ro : forall xs, XInv xs -> users (xb (fold_left x_rebuild_role ro xs)) = users (xb xs).
Proof.
  induction ro as [|r ro IH]; intros xs I; cbn [fold_left]; [reflexivity|].
  rewrite (IH _ (x_rebuild_role_XInv xs r I)). unfold x_rebuild_role. cbn [xb].
  destruct (rebuild_role (xb xs) r) as [st1 orr] eqn:E.
  destruct (rebuild_role_spec _ _ _ _ (xi_base xs I) E) as [_ [_ [_ [Hu _]]]]. exact Hu.
Qed.

Lemma loaded_user_valid xs u ur : XInv xs -> users (xb (x_load_user xs u)) u = Some ur -> u_ch ur <> None /\ u_ro ur <> None.
Proof.
  intros I. unfold x_load_user. rewrite (fold_rebuild_role_users _ _ (x_rebuild_user_XInv xs u I)).
  unfold x_rebuild_user. cbn [xb]. apply valid_after_rebuild_user.
Qed.

(* the sequence of a grant in a document's stored access map: kept while the document keeps granting, the sequence
   of the write when the document starts granting, nothing when it does not grant (any admin write) *)
Lemma doc_grant_seq_law xs d parent r q b s k c :
  XInv xs -> xclock xs < s ->
  let xs' := x_put xs d parent r q b s in
  let old := since (tgrants pid_eqb (xdacc xs d) k) c in
  let new := since (tgrants pid_eqb (xdacc xs' d) k) c in
  let granted_before := In c (grants pid_eqb (d_acc (docs (xb xs) d)) k) in
  let granted_after := In c (grants pid_eqb (d_acc (docs (xb xs') d)) k) in
  (granted_before <-> old <> 0) /\ (granted_after <-> new <> 0) /\
  (granted_after -> granted_before -> new = old) /\
  (granted_after -> ~ granted_before -> new = s) /\
  (forall d0, d0 <> d -> xdacc xs' d0 = xdacc xs d0).
Proof.
  intros I Hs xs' old new gb ga. pose proof (x_put_XInv xs d parent r q b s I Hs) as I'. fold xs' in I'.
  assert (Hb : gb <-> old <> 0).
  { subst gb old. rewrite <- (xi_dacc xs I d), <- (keys_tgrants pid_eqb). symmetry. apply since_pos_iff. apply tgrants_pos. apply (xi_dpos xs I). }
  assert (Ha : ga <-> new <> 0).
  { subst ga new. rewrite <- (xi_dacc xs' I' d), <- (keys_tgrants pid_eqb). symmetry. apply since_pos_iff. apply tgrants_pos. apply (xi_dpos xs' I'). }
  split; [exact Hb|]. split; [exact Ha|].
  (* either nothing about the access maps changed, or they were restamped *)
  assert (Hcase : (xdacc xs' = xdacc xs /\ d_acc (docs (xb xs') d) = d_acc (docs (xb xs) d)) \/
                  (exists v, xdacc xs' = upd (xdacc xs) d (stamp pid_eqb (xdacc xs d) (v_acc v) s) /\ d_acc (docs (xb xs') d) = v_acc v)).
  { subst xs'. unfold x_put. destruct b as [v| |]; [| |left; split; reflexivity].
    - destruct (existsb _ _) eqn:Ed; [left; split; reflexivity|].
      pose proof (put_shape (xb xs) d parent r (BLive v) ltac:(discriminate) Ed) as Hsh. cbv zeta in Hsh.
      destruct (same_winner _ _) eqn:Es; cbn [xdacc xb]; rewrite Hsh; cbn [docs]; rewrite upd_same; cbn [d_acc].
      + left. split; reflexivity.
      + right. eexists. split; reflexivity.
    - destruct (existsb _ _) eqn:Ed; [left; split; reflexivity|].
      pose proof (put_shape (xb xs) d parent r BTomb ltac:(discriminate) Ed) as Hsh. cbv zeta in Hsh.
      destruct (same_winner _ _) eqn:Es; cbn [xdacc xb]; rewrite Hsh; cbn [docs]; rewrite upd_same; cbn [d_acc].
      + left. split; reflexivity.
      + right. eexists. split; reflexivity. }
  destruct Hcase as [[E1 E2]|[v [E1 E2]]].
  - assert (new = old) by (subst new old; rewrite E1; reflexivity).
    assert (ga <-> gb) by (subst ga gb; rewrite E2; reflexivity).
    split; [intros; assumption|]. split; [tauto | intros d0 _; rewrite E1; reflexivity].
  - assert (En : new = if mem c (grants pid_eqb (v_acc v) k) then (if old =? 0 then s else old) else 0).
    { subst new old. rewrite E1, upd_same. apply (since_tgrants_stamp pid_eqb pid_eqb_eq). }
    assert (Eg : ga <-> mem c (grants pid_eqb (v_acc v) k) = true) by (subst ga; rewrite E2, mem_In; reflexivity).
    split; [|split].
    + intros A B. apply Eg in A. apply Hb in B. rewrite En, A. destruct (N.eqb_spec old 0); [contradiction | reflexivity].
    + intros A B. apply Eg in A. rewrite En, A. destruct (N.eqb_spec old 0) as [_|E0]; [reflexivity|]. exfalso. apply B, Hb. exact E0.
    + intros d0 Hd0. rewrite E1. apply upd_other. exact Hd0.
Qed.

(* the history: when an invalidated cache is rebuilt, every name that was granted and is gone gets the CLOSED interval
   [since, invalidation sequence] as its last entry, with since < invalidation sequence <= the last sequence used;
   the entries of every other name are untouched *)
Lemma user_history_records_interval xs u ur c dflt :
  XInv xs -> users (xb xs) u = Some ur -> u_ch ur = None ->
  let g := ud_ch (xu xs u) in
  let g' := ud_ch (xu (x_load_user xs u) u) in
  (In c (keys (g_c g)) -> ~ In c (keys (g_c g')) ->
     last (entries (g_hist g') c) dflt = (since (g_c g) c, g_inv g) /\
     since (g_c g) c < g_inv g /\ g_inv g <= xclock xs /\ 0 < since (g_c g) c) /\
  ((~ In c (keys (g_c g)) \/ In c (keys (g_c g'))) -> entries (g_hist g') c = entries (g_hist g) c) /\
  g_inv g' = 0.
Proof.
  intros I Eu Hn g g'. destruct (xi_users xs I u ur Eu) as [_ [Gc _]]. fold g in Gc.
  assert (Eg : g' = rebuild_gc g (tcompute_chans xs (PU u) (g_x g))).
  { subst g'. destruct (x_load_user_frame xs u _ eq_refl) as [_ [_ [_ [_ [_ H]]]]]. rewrite H, upd_same.
    unfold user_deco_rebuilt. rewrite Eu, Hn. reflexivity. }
  rewrite Eg. cbn [rebuild_gc g_hist g_c g_inv].
  destruct (calc_history_spec (g_inv g) (g_c g) (tcompute_chans xs (PU u) (g_x g)) (g_hist g) c dflt) as [H1 H2].
  split; [|split; [|reflexivity]].
  - intros Hin Hout. rewrite Hn in Gc. destruct (gk_invalid _ _ _ _ Gc eq_refl) as [Hnz Hlt].
    split; [apply H1; [exact Hin | apply has_false; exact Hout]|].
    destruct (since_is_min (g_c g) c (gk_cpos _ _ _ _ Gc) Hin) as [Hm _].
    unfold seqs_of in Hm. apply in_map_iff in Hm. destruct Hm as [e [He1 He2]]. apply filter_In in He2. destruct He2 as [He2 He3].
    apply N.eqb_eq in He3.
    split; [|split; [apply (gk_ile _ _ _ _ Gc)|]].
    + destruct (Hlt e He2) as [L|L]; [lia|]. exfalso. apply Hout. subst e. cbn [fst] in He3. subst c.
      unfold tcompute_chans. rewrite !keys_app, !in_app_iff. right. right. left. reflexivity.
    + pose proof (gk_cpos _ _ _ _ Gc e He2). lia.
  - intros H. apply H2. destruct H as [H|H]; [left; exact H | right; apply has_In; exact H].
Qed.

(* ---------- a grant source is never older than the operation that created it ---------- *)
Definition gx (xs : xstate) (p : pid) : tset :=
  match p with PU u => g_x (ud_ch (xu xs u)) | PR r => g_x (xr xs r) end.
(* the sequences of the admin grant and of the document grants of channel c for key p (without the built-in "!") *)
Definition srcs (xs : xstate) (p : pid) (c : N) : list N :=
  seqs_of (gx xs p) c ++ flat_map (fun d => seqs_of (tgrants pid_eqb (xdacc xs d) p) c) (ids (xb xs)).

Lemma in_seqs_of t c s : In s (seqs_of t c) <-> In (c, s) t.
Proof.
  unfold seqs_of. rewrite in_map_iff. split.
  - intros [e [E H]]. apply filter_In in H. destruct H as [H1 H2]. apply N.eqb_eq in H2. destruct e as [k v]. cbn in *. subst. exact H1.
  - intros H. exists (c, s). split; [reflexivity|]. apply filter_In. split; [exact H | apply N.eqb_refl].
Qed.

Lemma seqs_of_restamp old new s0 c s : all_pos old -> In s (seqs_of (restamp old new s0) c) -> In s (seqs_of old c) \/ s = s0.
Proof.
  intros P H. apply in_seqs_of in H. destruct (restamp_entry old new s0 (c, s) H) as [[H1 H2]|[_ H2]]; cbn [fst snd] in *; [|right; exact H2].
  left. subst s. apply since_is_min; [exact P | apply (since_pos_iff old c P); exact H1].
Qed.

Lemma in_tgrants_stamp old (new : list (pid * list N)) s0 p e :
  In e (tgrants pid_eqb (stamp pid_eqb old new s0) p) -> exists cs, In e (restamp (tgrants pid_eqb old p) cs s0).
Proof.
  unfold tgrants at 1. unfold stamp. rewrite in_flat_map. intros [x [Hx He]]. apply in_map_iff in Hx.
  destruct Hx as [y [<- _]]. cbn [fst snd] in He. destruct (pid_eqb (fst y) p) eqn:E; [|destruct He].
  apply pid_eqb_eq in E. rewrite E in He. exists (snd y). exact He.
Qed.

Lemma fold_rebuild_role_gx ro : forall xs p, gx (fold_left x_rebuild_role ro xs) p = gx xs p.
Proof.
  induction ro as [|r ro IH]; intros xs p; cbn [fold_left]; [reflexivity|]. rewrite IH.
  destruct p as [u|r0]; cbn [gx x_rebuild_role xu xr]; [reflexivity|]. unfold upd. destruct (r0 =? r) eqn:E; [|reflexivity].
  apply N.eqb_eq in E. subst r0. unfold role_deco_rebuilt. destruct (roles (xb xs) r) as [rr|]; [|reflexivity].
  destruct (r_del rr); [reflexivity|]. destruct (r_ch rr); reflexivity.
Qed.

Lemma x_rebuild_user_gx xs u p : gx (x_rebuild_user xs u) p = gx xs p.
Proof.
  destruct p as [u0|r0]; cbn [gx x_rebuild_user xu xr]; [|reflexivity]. unfold upd. destruct (u0 =? u) eqn:E; [|reflexivity].
  apply N.eqb_eq in E. subst u0. unfold user_deco_rebuilt. destruct (users (xb xs) u) as [ur|]; [|reflexivity].
  cbn [ud_ch]. destruct (u_ch ur); reflexivity.
Qed.

Lemma x_rebuild_role_gx xs r p : gx (x_rebuild_role xs r) p = gx xs p.
Proof. exact (fold_rebuild_role_gx [r] xs p). Qed.

Lemma ids_rebuild_user st u : ids (fst (rebuild_user st u)) = ids st.
Proof. unfold rebuild_user. destruct (users st u); reflexivity. Qed.
Lemma ids_rebuild_role st r : ids (fst (rebuild_role st r)) = ids st.
Proof. unfold rebuild_role. destruct (roles st r) as [rr|]; [destruct (r_del rr)|]; reflexivity. Qed.

Lemma srcs_rebuild_user xs u p c : srcs (x_rebuild_user xs u) p c = srcs xs p c.
Proof. unfold srcs. rewrite x_rebuild_user_gx. cbn [x_rebuild_user xb xdacc]. rewrite ids_rebuild_user. reflexivity. Qed.
Lemma srcs_rebuild_role xs r p c : srcs (x_rebuild_role xs r) p c = srcs xs p c.
Proof. unfold srcs. rewrite x_rebuild_role_gx. cbn [x_rebuild_role xb xdacc]. rewrite ids_rebuild_role. reflexivity. Qed.
Lemma srcs_fold_rebuild_role ro : forall xs p c, srcs (fold_left x_rebuild_role ro xs) p c = srcs xs p c.
Proof. induction ro as [|r ro IH]; intros; cbn [fold_left]; [reflexivity | rewrite IH; apply srcs_rebuild_role]. Qed.
Lemma srcs_load_user xs u p c : srcs (x_load_user xs u) p c = srcs xs p c.
Proof. unfold x_load_user. rewrite srcs_fold_rebuild_role. apply srcs_rebuild_user. Qed.

Lemma xclock_fold_rebuild_role ro : forall xs, xclock (fold_left x_rebuild_role ro xs) = xclock xs.
Proof. induction ro as [|r ro IH]; intros; cbn [fold_left]; [reflexivity | rewrite IH; reflexivity]. Qed.
Lemma xclock_load_user xs u : xclock (x_load_user xs u) = xclock xs.
Proof. unfold x_load_user. rewrite xclock_fold_rebuild_role. reflexivity. Qed.

(* an edited admin set: old sequences or the new one *)
Lemma seqs_edit_or_same (g0 : gc) (new : option (list N)) (chg : bool) s0 c s :
  all_pos (g_x g0) ->
  In s (seqs_of (g_x (match new with Some cs => if chg then edit_gc g0 cs s0 else g0 | None => g0 end)) c) ->
  In s (seqs_of (g_x g0) c) \/ s = s0.
Proof.
  intros P H. destruct new as [cs|]; [|left; exact H]. destruct chg; [|left; exact H].
  cbn [edit_gc g_x] in H. apply (seqs_of_restamp _ _ _ _ _ P H).
Qed.

Lemma srcs_put xs d parent r q b s0 p c s :
  XInv xs -> In s (srcs (x_put xs d parent r q b s0) p c) -> In s (srcs xs p c) \/ s = s0.
Proof.
  intros I H. unfold x_put in H.
  assert (Hgen : b <> BReject ->
    In s (srcs (if existsb (fun l => rev_eqb (l_rev l) r) (d_leaves (docs (xb xs) d)) then xs
          else
            let st' := fst (put (xb xs) d parent r b) in
            let lv := new_leaves (xb xs) d parent r b in
            let xreq' := upd (xreq xs) d ((r, match b with BLive _ => q | _ => RNone end) :: xreq xs d) in
            if same_winner (winner (d_leaves (docs (xb xs) d))) (winner lv)
            then mkX st' (xdef xs) s0 xreq' (xdacc xs) (xdrol xs) (xu xs) (xr xs)
            else
              let v := wverdict lv in
              let ca := changed_keys pid_eqb (d_acc (docs (xb xs) d)) (v_acc v) in
              let cr := changed_keys N.eqb (d_rol (docs (xb xs) d)) (v_rol v) in
              mkX st' (xdef xs) s0 xreq'
                  (upd (xdacc xs) d (stamp pid_eqb (xdacc xs d) (v_acc v) s0))
                  (upd (xdrol xs) d (stamp N.eqb (xdrol xs d) (v_rol v) s0))
                  (fun u => let ud := xu xs u in
                            match users (xb xs) u with
                            | Some _ => mkUD (if pmem (PU u) ca then inval_gc s0 (ud_ch ud) else ud_ch ud)
                                             (if mem u cr then inval_gc s0 (ud_ro ud) else ud_ro ud)
                            | None => ud
                            end)
                  (fun r0 => match roles (xb xs) r0 with
                             | Some _ => if pmem (PR r0) ca then inval_gc s0 (xr xs r0) else xr xs r0
                             | None => xr xs r0
                             end)) p c) -> In s (srcs xs p c) \/ s = s0).
  { intros Hb. destruct (existsb _ _) eqn:Ed; [intros H0; left; exact H0|]. cbv zeta.
    pose proof (put_shape (xb xs) d parent r b Hb Ed) as Hsh. cbv zeta in Hsh.
    assert (Hdoc : forall (f' : N -> tset),
              (forall d0, d0 <> d -> f' d0 = tgrants pid_eqb (xdacc xs d0) p) ->
              (forall e, In e (f' d) -> fst e = c -> In (snd e) (seqs_of (tgrants pid_eqb (xdacc xs d) p) c) \/ snd e = s0) ->
              In s (flat_map (fun d0 => seqs_of (f' d0) c) (if mem d (ids (xb xs)) then ids (xb xs) else d :: ids (xb xs))) ->
              In s (flat_map (fun d0 => seqs_of (tgrants pid_eqb (xdacc xs d0) p) c) (ids (xb xs))) \/ s = s0).
    { intros f' Hne Hd Hin. apply in_flat_map in Hin. destruct Hin as [d0 [Hd0 Hs]].
      destruct (N.eq_dec d0 d) as [->|Hn].
      - apply in_seqs_of in Hs. destruct (Hd _ Hs eq_refl) as [H1|H1]; [|right; exact H1]. left. cbn [snd] in H1.
        apply in_flat_map. exists d. split; [|exact H1].
        destruct (in_dec N.eq_dec d (ids (xb xs))) as [Hi|Hi]; [exact Hi|].
        rewrite (proj1 (deco_nil_outside_ids xs d I Hi)) in H1. destruct H1.
      - left. apply in_flat_map. exists d0. split; [|rewrite <- (Hne d0 Hn); exact Hs].
        destruct (mem d (ids (xb xs))); [exact Hd0 | destruct Hd0 as [Hd0|Hd0]; [congruence | exact Hd0]]. }
    destruct (same_winner _ _) eqn:Es; unfold srcs; cbn [xb xdacc]; rewrite Hsh; cbn [ids]; rewrite in_app_iff; intros [H1|H1].
    - left. apply in_app_iff. left. destruct p; exact H1.
    - destruct (Hdoc (fun d0 => tgrants pid_eqb (xdacc xs d0) p)) as [H2|H2]; [reflexivity | | exact H1 | left; apply in_app_iff; right; exact H2 | right; exact H2].
      intros e He Hc. left. apply in_seqs_of. destruct e as [k v]. cbn in *. subst k. exact He.
    - left. apply in_app_iff. left.
      destruct p as [u|r0]; cbn [gx xu xr] in *.
      + destruct (users (xb xs) u); [|exact H1]. cbn [ud_ch] in H1. destruct (pmem _ _); [|exact H1].
        unfold inval_gc in H1. destruct (g_inv _ =? 0); exact H1.
      + destruct (roles (xb xs) r0); [|exact H1]. destruct (pmem _ _); [|exact H1].
        unfold inval_gc in H1. destruct (g_inv _ =? 0); exact H1.
    - destruct (Hdoc (fun d0 => tgrants pid_eqb (upd (xdacc xs) d (stamp pid_eqb (xdacc xs d) (v_acc (wverdict (new_leaves (xb xs) d parent r b))) s0) d0) p)) as [H2|H2];
        [ | | exact H1 | left; apply in_app_iff; right; exact H2 | right; exact H2].
      + intros d0 Hd0. rewrite upd_other; [reflexivity | exact Hd0].
      + intros e He Hc. rewrite upd_same in He. apply in_tgrants_stamp in He. destruct He as [cs He].
        destruct e as [k v]. cbn [fst snd] in *. subst k.
        apply (seqs_of_restamp (tgrants pid_eqb (xdacc xs d) p) cs s0 c v); [apply tgrants_pos; apply (xi_dpos xs I) | apply in_seqs_of; exact He]. }
  destruct b as [v| |]; [apply Hgen; [discriminate | exact H] | apply Hgen; [discriminate | exact H] | left; exact H].
Qed.

Lemma gx_pos xs p : XInv xs -> (match p with PU u => users (xb xs) u <> None | PR r => exists rr, roles (xb xs) r = Some rr /\ r_del rr = false end) -> all_pos (gx xs p).
Proof.
  intros I H. destruct p as [u|r]; cbn [gx].
  - destruct (users (xb xs) u) as [ur|] eqn:E; [|congruence]. destruct (xi_users xs I u ur E) as [_ [G _]]. apply (gk_xpos _ _ _ _ G).
  - destruct H as [rr [E Hd]]. destruct (xi_roles xs I r rr E) as [_ [_ Hg]]. destruct (Hg Hd) as [G _]. apply (gk_xpos _ _ _ _ G).
Qed.

(* one operation: every source afterwards was a source before, or carries the sequence of the operation *)
Lemma srcs_step xs o p c s :
  XInv xs -> In s (srcs (fst (xstep xs o)) p c) ->
  In s (srcs xs p c) \/ op_seq o = Some s.
Proof.
  intros I H. destruct o as [who d parent r q b s0|u cs rs s0|r cs s0|r pg s0|u|u|r|u|r|d|u univ qs]; cbn [xstep fst op_seq] in *.
  - (* put *)
    destruct who as [u|]; cbn [fst] in H.
    + unfold x_put_as in H. pose proof (x_load_user_XInv xs u I) as I1.
      destruct (users (xb (x_load_user xs u)) u); cbn [fst] in H; [|left; rewrite srcs_load_user in H; exact H].
      destruct (accepts _ _ _ _ _ _ _ _ _); cbn [fst] in H; [|left; rewrite srcs_load_user in H; exact H].
      assert (H' : In s (srcs (x_put (x_load_user xs u) d parent r q b s0) p c)).
      { destruct (reloads _ _ _ _ _ _ _); [rewrite srcs_rebuild_user in H|]; exact H. }
      destruct (srcs_put _ _ _ _ _ _ _ _ _ _ I1 H') as [H2|H2]; [left; rewrite srcs_load_user in H2; exact H2 | right; congruence].
    + destruct (srcs_put _ _ _ _ _ _ _ _ _ _ I H) as [H2|H2]; [left; exact H2 | right; congruence].
  - (* set user *)
    unfold x_set_user, x_edit_user in H. unfold srcs in H. cbn [xb xdacc set_users ids] in H.
    rewrite in_app_iff in H. destruct H as [H|H].
    + destruct p as [u0|r0]; cbn [gx xu xr] in H.
      * unfold upd in H. destruct (u0 =? u) eqn:E.
        -- apply N.eqb_eq in E. subst u0. cbn [ud_ch] in H.
           pose proof (x_rebuild_user_XInv xs u I) as I1.
           destruct (users (xb (x_rebuild_user xs u)) u) as [ur|] eqn:Eu.
           ++ apply seqs_edit_or_same in H; [|].
              ** destruct H as [H|H]; [left | right; congruence]. unfold srcs. apply in_app_iff. left.
                 change (g_x (ud_ch (xu (x_rebuild_user xs u) u))) with (gx (x_rebuild_user xs u) (PU u)) in H.
                 rewrite x_rebuild_user_gx in H. exact H.
              ** change (g_x (ud_ch (xu (x_rebuild_user xs u) u))) with (gx (x_rebuild_user xs u) (PU u)).
                 apply gx_pos; [exact I1 | congruence].
           ++ apply seqs_edit_or_same in H; [|apply all_pos_nil].
              destruct H as [H|H]; [destruct H | right; congruence].
        -- left. unfold srcs. apply in_app_iff. left.
           change (g_x (ud_ch (xu (x_rebuild_user xs u) u0))) with (gx (x_rebuild_user xs u) (PU u0)) in H.
           rewrite x_rebuild_user_gx in H. exact H.
      * left. unfold srcs. apply in_app_iff. left. exact H.
    + left. unfold srcs. apply in_app_iff. right. cbn [x_rebuild_user xb xdacc] in H. rewrite ids_rebuild_user in H. exact H.
  - (* set role *)
    unfold x_set_role, x_edit_role, x_edit_role_with in H. unfold srcs in H. cbn [xb xdacc set_roles ids] in H.
    rewrite in_app_iff in H. destruct H as [H|H].
    + destruct p as [u0|r0]; cbn [gx xu xr] in H.
      * left. unfold srcs. apply in_app_iff. left. exact H.
      * unfold upd in H. destruct (r0 =? r) eqn:E.
        -- apply N.eqb_eq in E. subst r0.
           pose proof (x_rebuild_role_XInv xs r I) as I1.
           destruct (roles (xb (x_rebuild_role xs r)) r) as [rr|] eqn:Er.
           ++ destruct (r_del rr) eqn:Ed; cbn [negb] in H.
              ** apply seqs_edit_or_same in H; [|apply all_pos_nil].
                 destruct H as [H|H]; [destruct H | right; congruence].
              ** apply seqs_edit_or_same in H; [|].
                 --- destruct H as [H|H]; [left | right; congruence]. unfold srcs. apply in_app_iff. left.
                     change (g_x (xr (x_rebuild_role xs r) r)) with (gx (x_rebuild_role xs r) (PR r)) in H.
                     rewrite x_rebuild_role_gx in H. exact H.
                 --- change (g_x (xr (x_rebuild_role xs r) r)) with (gx (x_rebuild_role xs r) (PR r)).
                     apply gx_pos; [exact I1 | exists rr; split; assumption].
           ++ apply seqs_edit_or_same in H; [|apply all_pos_nil].
              destruct H as [H|H]; [destruct H | right; congruence].
        -- left. unfold srcs. apply in_app_iff. left.
           change (g_x (xr (x_rebuild_role xs r) r0)) with (gx (x_rebuild_role xs r) (PR r0)) in H.
           rewrite x_rebuild_role_gx in H. exact H.
    + left. unfold srcs. apply in_app_iff. right. cbn [x_rebuild_role xb xdacc] in H. rewrite ids_rebuild_role in H. exact H.
  - (* delete role *)
    left. unfold x_del_role, x_mark_deleted in H.
    destruct (roles (xb (x_rebuild_role xs r)) r) as [rr|]; [|rewrite srcs_rebuild_role in H; exact H].
    destruct (r_del rr); [rewrite srcs_rebuild_role in H; exact H|].
    assert (Hd : forall xs1, ids (xb xs1) = ids (xb (x_rebuild_role xs r)) -> xdacc xs1 = xdacc xs ->
                 (forall p0, seqs_of (gx xs1 p0) c = seqs_of (gx (x_rebuild_role xs r) p0) c \/ seqs_of (gx xs1 p0) c = []) ->
                 In s (srcs xs1 p c) -> In s (srcs xs p c)).
    { intros xs1 H1 H2 H3 H4. unfold srcs in *. rewrite in_app_iff in *. destruct H4 as [H4|H4].
      - left. destruct (H3 p) as [E|E]; rewrite E in H4; [rewrite x_rebuild_role_gx in H4; exact H4 | destruct H4].
      - right. rewrite H1, H2 in H4. cbn [x_rebuild_role xb] in H4. rewrite ids_rebuild_role in H4. exact H4. }
    destruct pg; (eapply Hd; [| | |exact H]; [reflexivity | reflexivity|]);
      intros [u0|r0]; cbn [gx xu xr]; try (left; reflexivity); unfold upd; destruct (N.eqb_spec r0 r) as [->|]; cbn [g_x]; auto.
  - (* delete user *)
    left. unfold x_del_user in H. destruct (users (xb (x_rebuild_user xs u)) u); [|rewrite srcs_rebuild_user in H; exact H].
    unfold srcs in *. cbn [xb xdacc set_users ids] in H. rewrite in_app_iff in *. destruct H as [H|H].
    + left. destruct p as [ux|rx]; cbn [gx xu xr] in *; [|exact H]. unfold upd in H. destruct (ux =? u) eqn:E; [destruct H|].
      change (g_x (ud_ch (xu (x_rebuild_user xs u) ux))) with (gx (x_rebuild_user xs u) (PU ux)) in H. rewrite x_rebuild_user_gx in H. exact H.
    + right. cbn [x_rebuild_user xb xdacc] in H. rewrite ids_rebuild_user in H. exact H.
  - left. rewrite srcs_load_user in H. exact H.
  - left. unfold x_load_role in H. rewrite srcs_rebuild_role in H. exact H.
  - left. exact H.
  - left. exact H.
  - left. exact H.
  - left. rewrite srcs_load_user in H. exact H.
Qed.

Lemma xclock_step xs o : match op_seq o with Some s => xclock xs < s | None => True end -> xclock xs <= xclock (fst (xstep xs o)).
Proof.
  intros Hs. destruct o as [who d parent r q b s0|u cs rs s0|r cs s0|r pg s0|u|u|r|u|r|d|u univ qs]; cbn [xstep fst op_seq] in *;
    try rewrite xclock_load_user; try lia.
  - assert (Hp : forall xs1, xclock xs1 = xclock xs -> xclock xs <= xclock (x_put xs1 d parent r q b s0)).
    { intros xs1 E. unfold x_put. destruct b; try (destruct (existsb _ _); [lia|]; destruct (same_winner _ _); cbn [xclock]; lia); lia. }
    destruct who as [u|]; cbn [fst]; [|apply Hp; reflexivity].
    unfold x_put_as. destruct (users _ u); cbn [fst]; [|rewrite xclock_load_user; lia].
    destruct (accepts _ _ _ _ _ _ _ _ _); cbn [fst]; [|rewrite xclock_load_user; lia].
    destruct (reloads _ _ _ _ _ _ _); [cbn [x_rebuild_user xclock]|]; apply Hp; apply xclock_load_user.
  - unfold x_set_user, x_edit_user. cbn [xclock x_rebuild_user]. destruct (_ || _); lia.
  - unfold x_set_role, x_edit_role, x_edit_role_with. cbn [xclock x_rebuild_role]. destruct (_ || _); lia.
  - unfold x_del_role, x_mark_deleted. destruct (roles _ r) as [rr|]; [|cbn; lia]. destruct (r_del rr); [cbn; lia|]. destruct pg; cbn [xclock x_rebuild_role]; lia.
  - unfold x_del_user. destruct (users _ u); cbn [xclock x_rebuild_user]; lia.
  - unfold x_load_role. cbn [x_rebuild_role xclock]. lia.
Qed.

(* since values only move FORWARD across a revocation: if every source of (p, c) is newer than m (in particular when
   there is none -- the channel is revoked) then every source in any later state is newer than m, where m may be
   any sequence used so far (e.g. the EndSeq of the history entry recorded at the revocation) *)
Lemma sources_move_forward ops : forall xs p c m,
  XInv xs -> xwf xs ops = true -> m <= xclock xs ->
  (forall s, In s (srcs xs p c) -> m < s) ->
  forall s, In s (srcs (xrun xs ops) p c) -> m < s.
Proof.
  induction ops as [|o ops IH]; intros xs p c m I W Hm H0 s Hs; cbn [xrun xwf] in *; [apply H0; exact Hs|].
  apply andb_true_iff in W. destruct W as [W1 W2].
  assert (Wo : match op_seq o with Some s => xclock xs < s | None => True end) by (destruct (op_seq o); [apply N.ltb_lt; exact W1 | exact Logic.I]).
  apply (IH (fst (xstep xs o)) p c m); try assumption.
  - apply xstep_XInv; assumption.
  - pose proof (xclock_step xs o Wo). lia.
  - intros s1 H1. destruct (srcs_step xs o p c s1 I H1) as [H2|H2]; [apply H0; exact H2|]. rewrite H2 in Wo. lia.
Qed.

(* ---------- (3) the access API on the decorated state ---------- *)
Lemma view_of_pos xs u : XInv xs -> view_pos (view_of xs u).
Proof.
  intros I. unfold view_of. destruct (users (xb xs) u) as [ur|] eqn:Eu; [|split; [apply all_pos_nil | intros r []]].
  destruct (xi_users xs I u ur Eu) as [_ [Gc _]]. split; cbn [uv_own uv_roles]; [apply (gk_cpos _ _ _ _ Gc)|].
  intros vr Hvr. apply in_flat_map in Hvr. destruct Hvr as [r [_ Hvr]].
  destruct (roles (xb xs) r) as [rr|] eqn:Er; [|destruct Hvr]. destruct (r_del rr) eqn:Ed; [destruct Hvr|].
  destruct Hvr as [<-|[]]. cbn [vr_ch]. destruct (xi_roles xs I r rr Er) as [_ [_ Hg]]. destruct (Hg Ed) as [G _]. apply (gk_cpos _ _ _ _ G).
Qed.

(* ---------- the extended model refines the base model ---------- *)
Definition base_op (o : xop) : option op :=
  match o with
  | XPut None d parent r _ b _ => Some (Put d parent r b)
  | XPut (Some _) _ _ _ _ _ _ => None
  | XSetUser u c r _ => Some (SetUser u c r)
  | XSetRole r c _ => Some (SetRole r c)
  | XDelRole r p _ => Some (DelRole r p)
  | XDelUser u => Some (DelUser u)
  | XLoadUser u => Some (LoadUser u)
  | XLoadRole r => Some (LoadRole r)
  | XAsk u _ _ => Some (LoadUser u)
  | XPeekUser _ | XPeekRole _ | XPeekDoc _ => None
  end.

Lemma xstep_refines_base xs o :
  match base_op o with
  | Some bo => xb (fst (xstep xs o)) = fst (step (xb xs) bo)
  | None => match o with
            | XPut (Some u) d parent r q b s =>
              let st1 := fst (step (xb xs) (LoadUser u)) in
              xb (fst (xstep xs o)) = st1 \/ xb (fst (xstep xs o)) = fst (step st1 (Put d parent r b)) \/
              xb (fst (xstep xs o)) = fst (rebuild_user (fst (step st1 (Put d parent r b))) u)
            | _ => xb (fst (xstep xs o)) = xb xs
            end
  end.
Proof.
  destruct o as [who d parent r q b s0|u cs rs s0|r cs s0|r pg s0|u|u|r|u|r|d|u univ qs]; cbn [base_op xstep fst step].
  - destruct who as [u|]; cbn [base_op fst step]; [|apply xb_put].
    destruct (xb_put_as xs u d parent r q b s0) as [H1 H2]. cbv zeta in *.
    destruct (snd (x_put_as xs u d parent r q b s0)); [destruct (H2 eq_refl) as [H|H]; [right; left | right; right]; exact H | left; exact (H1 eq_refl)].
  - apply xb_set_user.
  - apply xb_set_role.
  - apply xb_del_role.
  - apply xb_del_user.
  - apply xb_load_user.
  - apply xb_load_role.
  - reflexivity.
  - reflexivity.
  - reflexivity.
  - apply xb_load_user.
Qed.

(* well-formedness of a concatenation *)
Lemma xwf_app l1 : forall l2 x,
  xwf x (l1 ++ l2) = true -> xwf x l1 = true /\ xwf (xrun x l1) l2 = true /\ xrun x (l1 ++ l2) = xrun (xrun x l1) l2.
Proof.
  induction l1 as [|o l1 IH]; intros l2 x Wx; cbn [app xwf xrun] in *; [repeat split; exact Wx|].
  apply andb_true_iff in Wx. destruct Wx as [A B]. destruct (IH l2 _ B) as [C [D E]]. rewrite A, C. repeat split; assumption.
Qed.

Lemma xwf_snoc_seq ops o x s : xwf x (ops ++ [o]) = true -> op_seq o = Some s -> xwf x ops = true /\ xclock (xrun x ops) < s.
Proof.
  intros W Hs. destruct (xwf_app ops [o] x W) as [A [B _]]. split; [exact A|].
  cbn [xwf] in B. rewrite Hs, andb_true_r in B. apply N.ltb_lt. exact B.
Qed.

(* ---------- the channel history of a role across soft delete and re-creation ---------- *)
(* DeleteRole (soft) records, for every channel the role had, the interval [since, delete sequence] as its last entry *)
Lemma deleted_role_records_intervals xs r rr s c dflt :
  roles (xb (x_rebuild_role xs r)) r = Some rr -> r_del rr = false ->
  let g := xr (x_rebuild_role xs r) r in
  let g' := xr (x_del_role xs r false s) r in
  (In c (keys (g_c g)) -> last (entries (g_hist g') c) dflt = (since (g_c g) c, s)) /\
  (~ In c (keys (g_c g)) -> entries (g_hist g') c = entries (g_hist g) c) /\
  g_inv g' = s.
Proof.
  intros Er Ed g g'. subst g'. unfold x_del_role, x_mark_deleted. rewrite Er, Ed. cbn [xr]. rewrite upd_same. cbn [g_hist g_inv].
  destruct (calc_history_spec s (g_c g) [] (g_hist g) c dflt) as [H1 H2].
  split; [intros Hin; apply H1; [exact Hin | reflexivity]|]. split; [intros Hn; apply H2; left; exact Hn | reflexivity].
Qed.

(* NewRole / NewRoleNoChannels (3cadf88): re-creating a soft-deleted role keeps its whole channel history, in the default
   and in a named collection; the re-created role starts valid or invalidated at the edit, never with a stale cache *)
Lemma recreated_role_keeps_history xs r rr c s :
  roles (xb xs) r = Some rr -> r_del rr = true ->
  g_hist (xr (x_set_role xs r c s) r) = g_hist (xr xs r).
Proof.
  intros Er Ed. unfold x_set_role.
  assert (E1 : roles (xb (x_rebuild_role xs r)) r = Some rr).
  { unfold x_rebuild_role. cbn [xb]. rewrite roles_after_rebuild. unfold rebuild_role. rewrite Er, Ed. reflexivity. }
  assert (E2 : xr (x_rebuild_role xs r) r = xr xs r).
  { unfold x_rebuild_role. cbn [xr]. rewrite upd_same. unfold role_deco_rebuilt. rewrite Er, Ed. reflexivity. }
  unfold x_edit_role, x_edit_role_with. rewrite E1, Ed. cbn [xr negb andb]. rewrite upd_same, E2.
  unfold recreate_keeps_named_history. rewrite orb_true_r.
  destruct c as [cs|]; [|reflexivity]. cbn [r_xch]. destruct (negb (set_eqb cs [])); reflexivity.
Qed.
