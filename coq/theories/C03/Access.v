(* C03 -- executable model of the access-grant bookkeeping and its invalidation protocol.

   What is modelled (code as it is now in /repo):
     db/crud.go documentUpdateFunc   : the stored per-document access maps (SyncData.Access / RoleAccess) are
                                       rewritten only when the winning revision changes; the sync function is
                                       (re)evaluated on the body of the new winner (recalculateSyncFnForActiveRev)
     db/document.go updateAccess     : returns exactly the keys whose granted set changed      [changed_keys]
     db/crud.go MarkPrincipalsChanged, auth.InvalidateChannels / InvalidateRoles              [inval_users, inval_rolemap]
     auth/auth.go getPrincipal       : lazy rebuild of invalidated (nil) channels / roles     [rebuild_user, rebuild_role]
        rebuildCollectionChannels    : explicit + access-view rows of every document + "!"    [compute_chans]
        RebuildRoles                 : explicit roles + role-access-view rows                 [compute_roles]
     auth/user_collection_access.go InheritedCollectionChannels + user.GetRoles               [load_user]
     db/users.go UpdatePrincipal     : GetUser/GetRole (rebuild), create when missing (computed at creation),
                                       explicit sets replaced and the computed value invalidated when they differ
     db/users.go DeleteRole, auth DeleteUser, db/crud.go Purge (no invalidation: purge_invalidates = false)

   Names (users, roles, channels, documents) are numbers; channel 0 is the public channel "!".
   A revision id is (generation, digest); a document is abstracted to its set of leaves, each with the verdict
   the sync function gives for its body (None = tombstone, whose body has no fields and grants nothing). *)
From SG Require Import Base.Prelude.
Open Scope N_scope.

Definition rev := (N * N)%type.
Definition rev_eqb (a b : rev) : bool := (fst a =? fst b) && (snd a =? snd b).
(* compareRevIDs > 0 : generation first, then digest *)
Definition rev_gt (a b : rev) : bool := (fst b <? fst a) || ((fst a =? fst b) && (snd b <? snd a)).

Inductive pid := PU (n : N) | PR (n : N).   (* key of the access map: user name / "role:"+name *)
Definition pid_eqb (a b : pid) : bool :=
  match a, b with
  | PU x, PU y => x =? y
  | PR x, PR y => x =? y
  | _, _ => false
  end.

(* output of the sync function for one body: access() and role() calls *)
Record verdict := mkV { v_acc : list (pid * list N); v_rol : list (N * list N) }.
Definition vempty : verdict := mkV [] [].

Inductive body := BLive (v : verdict) | BTomb | BReject.

Record leaf := mkLeaf { l_rev : rev; l_body : option verdict }.

Definition pub : N := 0.

(* ---- finite sets of numbers as lists ---- *)
Definition mem (x : N) (l : list N) : bool := existsb (N.eqb x) l.
Definition subset (a b : list N) : bool := forallb (fun x => mem x b) a.
Definition set_eqb (a b : list N) : bool := subset a b && subset b a.

Section Grants.
  Context {K : Type} (eqb : K -> K -> bool).
  (* everything granted to key k by an access map (TimedSet union over the entries of k) *)
  Definition grants (m : list (K * list N)) (k : K) : list N :=
    flat_map (fun e => if eqb (fst e) k then snd e else []) m.
  (* updateAccess: the keys whose granted set differs between the stored map and the new one *)
  Definition changed_keys (old new : list (K * list N)) : list K :=
    filter (fun k => negb (set_eqb (grants old k) (grants new k))) (map fst old ++ map fst new).
End Grants.

(* ---- winning revision (RevTree.winningRevision): live beats deleted, then compareRevIDs ---- *)
Definition live (l : leaf) : bool := match l_body l with Some _ => true | None => false end.
Definition better (l w : leaf) : bool :=
  (live l && negb (live w)) || (Bool.eqb (live l) (live w) && rev_gt (l_rev l) (l_rev w)).
Fixpoint winner_from (w : leaf) (ls : list leaf) : leaf :=
  match ls with
  | [] => w
  | l :: r => winner_from (if better l w then l else w) r
  end.
Definition winner (ls : list leaf) : option leaf :=
  match ls with
  | [] => None
  | l :: r => Some (winner_from l r)
  end.
Definition eff_verdict (l : leaf) : verdict := match l_body l with Some v => v | None => vempty end.
Definition wverdict (ls : list leaf) : verdict :=
  match winner ls with Some l => eff_verdict l | None => vempty end.
Definition same_winner (a b : option leaf) : bool :=
  match a, b with
  | Some x, Some y => rev_eqb (l_rev x) (l_rev y)
  | None, None => true
  | _, _ => false
  end.

(* ---- state ---- *)
Record drec := mkD { d_leaves : list leaf; d_acc : list (pid * list N); d_rol : list (N * list N) }.
Definition dempty : drec := mkD [] [] [].
(* computed values: None = invalidated (channel_inval_seq / role_inval_seq set, or never computed) *)
Record urec := mkU { u_xch : list N; u_ch : option (list N); u_xro : list N; u_ro : option (list N) }.
Record rrec := mkR { r_del : bool; r_xch : list N; r_ch : option (list N) }.
Record state := mkS { docs : N -> drec; ids : list N; users : N -> option urec; roles : N -> option rrec }.

Definition init : state := mkS (fun _ => dempty) [] (fun _ => None) (fun _ => None).
Definition upd {A} (f : N -> A) (k : N) (v : A) : N -> A := fun x => if x =? k then v else f x.
Definition set_users (st : state) (us : N -> option urec) : state := mkS (docs st) (ids st) us (roles st).
Definition set_roles (st : state) (rs : N -> option rrec) : state := mkS (docs st) (ids st) (users st) rs.

(* rows of the access / role-access views for one key: every document's STORED map *)
Definition doc_chan_grants (st : state) (p : pid) : list N :=
  flat_map (fun d => grants pid_eqb (d_acc (docs st d)) p) (ids st).
Definition doc_role_grants (st : state) (u : N) : list N :=
  flat_map (fun d => grants N.eqb (d_rol (docs st d)) u) (ids st).
Definition compute_chans (st : state) (p : pid) (xch : list N) : list N := xch ++ doc_chan_grants st p ++ [pub].
Definition compute_roles (st : state) (u : N) (xro : list N) : list N := xro ++ doc_role_grants st u.

(* MarkPrincipalsChanged: InvalidateChannels for every changed access key (user name or "role:"+name),
   InvalidateRoles for every user whose role grants changed; no effect on a principal that does not exist.
   ("for each changed key, invalidate that principal" written as "every principal whose key is in the list".) *)
Definition pmem (p : pid) (l : list pid) : bool := existsb (pid_eqb p) l.
Definition inval_users (ca : list pid) (cr : list N) (us : N -> option urec) : N -> option urec :=
  fun u => match us u with
           | Some ur => Some (mkU (u_xch ur) (if pmem (PU u) ca then None else u_ch ur)
                                  (u_xro ur) (if mem u cr then None else u_ro ur))
           | None => None
           end.
Definition inval_rolemap (ca : list pid) (rs : N -> option rrec) : N -> option rrec :=
  fun r => match rs r with
           | Some rr => Some (mkR (r_del rr) (r_xch rr) (if pmem (PR r) ca then None else r_ch rr))
           | None => None
           end.

Inductive out :=
| OStatus (ok : bool)
| OUser (r : option (list N * list N))    (* inherited channels, role names *)
| ORole (r : option (list N)).

(* ---- document write (documentUpdateFunc + MarkPrincipalsChanged) ---- *)
Definition remove_leaf (parent : option rev) (ls : list leaf) : list leaf :=
  match parent with
  | None => ls
  | Some p => filter (fun l => negb (rev_eqb (l_rev l) p)) ls
  end.

Definition put (st : state) (d : N) (parent : option rev) (r : rev) (b : body) : state * out :=
  match b with
  | BReject => (st, OStatus false)
  | _ =>
    let dr := docs st d in
    if existsb (fun l => rev_eqb (l_rev l) r) (d_leaves dr) then (st, OStatus true)
    else
      let lf := mkLeaf r (match b with BLive v => Some v | _ => None end) in
      let lv := lf :: remove_leaf parent (d_leaves dr) in
      let ids' := if mem d (ids st) then ids st else d :: ids st in
      if same_winner (winner (d_leaves dr)) (winner lv)
      then (mkS (upd (docs st) d (mkD lv (d_acc dr) (d_rol dr))) ids' (users st) (roles st), OStatus true)
      else
        let v := wverdict lv in
        let ca := changed_keys pid_eqb (d_acc dr) (v_acc v) in
        let cr := changed_keys N.eqb (d_rol dr) (v_rol v) in
        (mkS (upd (docs st) d (mkD lv (v_acc v) (v_rol v))) ids'
             (inval_users ca cr (users st)) (inval_rolemap ca (roles st)), OStatus true)
  end.

(* db/crud.go Purge: the document disappears; as the code is now, nobody is invalidated *)
Definition purge_invalidates : bool := false.
Definition purge (st : state) (d : N) : state * out :=
  let dr := docs st d in
  match d_leaves dr with
  | [] => (st, OStatus false)
  | _ =>
    if purge_invalidates
    then let ca := changed_keys pid_eqb (d_acc dr) [] in
         let cr := changed_keys N.eqb (d_rol dr) [] in
         (mkS (upd (docs st) d dempty) (ids st) (inval_users ca cr (users st)) (inval_rolemap ca (roles st)), OStatus true)
    else (mkS (upd (docs st) d dempty) (ids st) (users st) (roles st), OStatus true)
  end.

(* ---- getPrincipal: rebuild what is invalidated, save ---- *)
Definition rebuild_user (st : state) (u : N) : state * option urec :=
  match users st u with
  | None => (st, None)
  | Some ur =>
    let ch := match u_ch ur with Some c => c | None => compute_chans st (PU u) (u_xch ur) end in
    let ro := match u_ro ur with Some r => r | None => compute_roles st u (u_xro ur) end in
    let ur' := mkU (u_xch ur) (Some ch) (u_xro ur) (Some ro) in
    (set_users st (upd (users st) u (Some ur')), Some ur')
  end.

(* GetRoleIncDeleted: a deleted role is returned as it is *)
Definition rebuild_role (st : state) (r : N) : state * option rrec :=
  match roles st r with
  | None => (st, None)
  | Some rr =>
    if r_del rr then (st, Some rr)
    else
      let ch := match r_ch rr with Some c => c | None => compute_chans st (PR r) (r_xch rr) end in
      let rr' := mkR false (r_xch rr) (Some ch) in
      (set_roles st (upd (roles st) r (Some rr')), Some rr')
  end.

Definition opt_list (o : option (list N)) : list N := match o with Some l => l | None => [] end.

(* user.GetRoles + InheritedCollectionChannels: every role name is looked up (and rebuilt); missing and
   deleted roles contribute nothing *)
Definition load_role_chans (acc : state * list N) (r : N) : state * list N :=
  let (st1, orr) := rebuild_role (fst acc) r in
  match orr with
  | Some rr => if r_del rr then (st1, snd acc) else (st1, snd acc ++ opt_list (r_ch rr))
  | None => (st1, snd acc)
  end.

Definition load_user (st : state) (u : N) : state * out :=
  let (st1, our) := rebuild_user st u in
  match our with
  | None => (st1, OUser None)
  | Some ur =>
    let ro := opt_list (u_ro ur) in
    let res := fold_left load_role_chans ro (st1, opt_list (u_ch ur)) in
    (fst res, OUser (Some (snd res, ro)))
  end.

Definition load_role (st : state) (r : N) : state * out :=
  let (st1, orr) := rebuild_role st r in
  match orr with
  | Some rr => if r_del rr then (st1, ORole None) else (st1, ORole (Some (opt_list (r_ch rr))))
  | None => (st1, ORole None)
  end.

(* ---- UpdatePrincipal ---- *)
Definition set_user (st : state) (u : N) (chans roles_ : option (list N)) : state * out :=
  let (st1, our) := rebuild_user st u in
  let ur := match our with
            | Some ur => ur
            | None => mkU [] (Some (compute_chans st (PU u) [])) [] (Some (compute_roles st u []))
            end in
  let ur1 := match chans with
             | Some c => if set_eqb c (u_xch ur) then ur else mkU c None (u_xro ur) (u_ro ur)
             | None => ur
             end in
  let ur2 := match roles_ with
             | Some r => if set_eqb r (u_xro ur1) then ur1 else mkU (u_xch ur1) (u_ch ur1) r None
             | None => ur1
             end in
  (set_users st1 (upd (users st1) u (Some ur2)), OStatus true).

Definition set_role (st : state) (r : N) (chans : option (list N)) : state * out :=
  let (st1, orr) := rebuild_role st r in
  let fresh := mkR false [] (Some (compute_chans st (PR r) [])) in
  let rr := match orr with
            | Some rr => if r_del rr then fresh else rr
            | None => fresh
            end in
  let rr1 := match chans with
             | Some c => if set_eqb c (r_xch rr) then rr else mkR false c None
             | None => rr
             end in
  (set_roles st1 (upd (roles st1) r (Some rr1)), OStatus true).

Definition del_role (st : state) (r : N) (purge_ : bool) : state * out :=
  let (st1, orr) := rebuild_role st r in
  match orr with
  | Some rr =>
    if r_del rr then (st1, OStatus false)
    else if purge_ then (set_roles st1 (upd (roles st1) r None), OStatus true)
    else (set_roles st1 (upd (roles st1) r (Some (mkR true (r_xch rr) None))), OStatus true)
  | None => (st1, OStatus false)
  end.

Definition del_user (st : state) (u : N) : state * out :=
  let (st1, our) := rebuild_user st u in
  match our with
  | Some _ => (set_users st1 (upd (users st1) u None), OStatus true)
  | None => (st1, OStatus false)
  end.

(* ---- a load raced by an admin edit ----
   getPrincipal rebuilds inside a CAS-retried datastore Update: read the document, run the callback (unmarshal into a
   FRESH principal, rebuild what is invalidated), compare-and-swap.  [load_user_race] / [load_role_race] model one
   GetUser / GetRole during which UpdatePrincipal on the same principal runs between the first read and its write:
     - no document: the callback cancels, the edit lands afterwards;
     - nothing to rebuild: the callback cancels (no write), the principal read BEFORE the edit is returned;
     - rebuild needed: attempt 1 (computed from the document read first) is written only if the document is still
       what was read; otherwise the callback runs again on the NEW document. *)
Definition urec_eqb (a b : urec) : bool :=
  list_eqb N.eqb (u_xch a) (u_xch b) && option_eqb (list_eqb N.eqb) (u_ch a) (u_ch b) &&
  list_eqb N.eqb (u_xro a) (u_xro b) && option_eqb (list_eqb N.eqb) (u_ro a) (u_ro b).
Definition rrec_eqb (a b : rrec) : bool :=
  Bool.eqb (r_del a) (r_del b) && list_eqb N.eqb (r_xch a) (r_xch b) && option_eqb (list_eqb N.eqb) (r_ch a) (r_ch b).
Definition user_needs_rebuild (ur : urec) : bool :=
  match u_ch ur, u_ro ur with Some _, Some _ => false | _, _ => true end.
Definition role_needs_rebuild (rr : rrec) : bool :=
  negb (r_del rr) && match r_ch rr with Some _ => false | None => true end.

(* the part of a load that follows getPrincipal *)
Definition finish_user (st1 : state) (our : option urec) : state * out :=
  match our with
  | None => (st1, OUser None)
  | Some ur =>
    let ro := opt_list (u_ro ur) in
    let res := fold_left load_role_chans ro (st1, opt_list (u_ch ur)) in
    (fst res, OUser (Some (snd res, ro)))
  end.
Definition finish_role (st1 : state) (orr : option rrec) : state * out :=
  match orr with
  | Some rr => if r_del rr then (st1, ORole None) else (st1, ORole (Some (opt_list (r_ch rr))))
  | None => (st1, ORole None)
  end.

Definition load_user_race (st : state) (u : N) (c r : option (list N)) : state * out :=
  match users st u with
  | None => (fst (set_user st u c r), OUser None)
  | Some ur0 =>
    if user_needs_rebuild ur0 then
      let st' := fst (set_user st u c r) in
      if option_eqb urec_eqb (users st' u) (Some ur0)
      then let ur1 := snd (rebuild_user st u) in finish_user (set_users st' (upd (users st') u ur1)) ur1
      else load_user st' u
    else let res := load_user st u in (fst (set_user (fst res) u c r), snd res)
  end.

Definition load_role_race (st : state) (r : N) (c : option (list N)) : state * out :=
  match roles st r with
  | None => (fst (set_role st r c), ORole None)
  | Some rr0 =>
    if role_needs_rebuild rr0 then
      let st' := fst (set_role st r c) in
      if option_eqb rrec_eqb (roles st' r) (Some rr0)
      then let rr1 := snd (rebuild_role st r) in finish_role (set_roles st' (upd (roles st') r rr1)) rr1
      else load_role st' r
    else let res := load_role st r in (fst (set_role (fst res) r c), snd res)
  end.

Inductive op :=
| Put (d : N) (parent : option rev) (r : rev) (b : body)
| Purge (d : N)
| SetUser (u : N) (chans roles_ : option (list N))
| SetRole (r : N) (chans : option (list N))
| DelRole (r : N) (purge_ : bool)
| DelUser (u : N)
| LoadUser (u : N)
| LoadRole (r : N)
| LoadUserRace (u : N) (chans roles_ : option (list N))   (* GetUser raced by SetUser u chans roles_ *)
| LoadRoleRace (r : N) (chans : option (list N)).          (* GetRole raced by SetRole r chans *)

Definition step (st : state) (o : op) : state * out :=
  match o with
  | Put d parent r b => put st d parent r b
  | Purge d => purge st d
  | SetUser u c r => set_user st u c r
  | SetRole r c => set_role st r c
  | DelRole r p => del_role st r p
  | DelUser u => del_user st u
  | LoadUser u => load_user st u
  | LoadRole r => load_role st r
  | LoadUserRace u c r => load_user_race st u c r
  | LoadRoleRace r c => load_role_race st r c
  end.

Fixpoint run (st : state) (ops : list op) : state :=
  match ops with
  | [] => st
  | o :: r => run (fst (step st o)) r
  end.

Fixpoint outs (st : state) (ops : list op) : list out :=
  match ops with
  | [] => []
  | o :: r => let (st', x) := step st o in x :: outs st' r
  end.

Definition is_purge (o : op) : bool := match o with Purge _ => true | _ => false end.
(* the histories covered by the theorems: no purge, unless the code invalidates on purge *)
Definition purge_ok (ops : list op) : Prop := purge_invalidates = true \/ forallb (fun o => negb (is_purge o)) ops = true.
