(* C03 -- effective access as seen by LONG-LIVED sessions: an open BLIP connection, a continuous changes feed.

   A session authenticates once and keeps a user OBJECT (the user's computed channels and roles, and the role objects
   loaded by GetRoles / InitializeRoles).  It reloads the object only when its ChangeWaiter says that one of the
   principal documents it listens on was mutated:
     db/change_listener.go  changeListener.ProcessFeedEvent : a MUTATION or a DELETION of a user / role document
                                                              notifies its key (counter++, keyCounts[key] = counter);
                                                              before e7d0448 a deletion did not          [changed_doc]
        NewWaiterWithChannels / NewUserWaiter : userKeys = the user's key + one key per role name        [keys_of]
        ChangeWaiter.RefreshUserCount         : "changed" iff the largest count over userKeys moved      [se_dirty]
        ChangeWaiter.RefreshUserKeys          : rebuild userKeys from the reloaded user -- skipped only when the waiter
                                                holds one key and the user has no role                   [refresh_keys]
     db/blip_handler.go  refreshUser          : changed -> ReloadUser (GetUser), InitializeRoles, RefreshUserKeys
     db/changes.go  checkForUserUpdates       : (continuous) count moved -> ReloadUser; RefreshUserKeys when the role
                                                NAMES differ from the previous object's                  [s_request]

   The state is the base state of Access.v plus the open sessions.  Which principal documents an operation writes is
   read off the base model: a document is written exactly when the principal's record changes (an invalidation of an
   already invalidated principal, an edit that changes nothing, a load with nothing to rebuild write nothing). *)
From SG Require Import Base.Prelude C03.Access.
Open Scope N_scope.

Record sess := mkSe {
  se_user : N;
  se_feed : bool;                 (* a continuous changes feed (true) or a BLIP connection (false) *)
  se_keys : list pid;             (* ChangeWaiter.userKeys *)
  se_dirty : bool;                (* a key was notified since lastUserCount was taken *)
  se_view : list N * list N       (* the cached user object: inherited channel names, role names *)
}.

Record sstate := mkSS { ss_st : state; ss_sess : list (N * sess) }.
Definition sinit : sstate := mkSS init [].

Section WithDeletionSwitch.
(* dn = true: the DELETION of a user / role document notifies its key like a mutation does (the code as it is now,
   repair e7d0448); dn = false: the code before the repair, where ProcessFeedEvent returned before notifyKey for every
   event that is not a mutation *)
Variable dn : bool.

(* the principal's document was written (mutated, or deleted when dn) between st and st' *)
Definition changed_doc (st st' : state) (p : pid) : bool :=
  match p with
  | PU u => match users st' u with
            | Some ur' => negb (option_eqb urec_eqb (users st u) (Some ur'))
            | None => dn && match users st u with Some _ => true | None => false end
            end
  | PR r => match roles st' r with
            | Some rr' => negb (option_eqb rrec_eqb (roles st r) (Some rr'))
            | None => dn && match roles st r with Some _ => true | None => false end
            end
  end.

Definition mark (st st' : state) (s : sess) : sess :=
  mkSe (se_user s) (se_feed s) (se_keys s) (se_dirty s || existsb (changed_doc st st') (se_keys s)) (se_view s).
Definition mark_all (st st' : state) (l : list (N * sess)) : list (N * sess) :=
  map (fun e => (fst e, mark st st' (snd e))) l.

Definition keys_of (u : N) (ros : list N) : list pid := PU u :: map PR ros.
(* RefreshUserKeys *)
Definition refresh_keys (old : list pid) (u : N) (ros : list N) : list pid :=
  if Nat.eqb (length old) 1 && match ros with [] => true | _ => false end then old else keys_of u ros.

Fixpoint find_sess (id : N) (l : list (N * sess)) : option sess :=
  match l with
  | [] => None
  | e :: r => if fst e =? id then Some (snd e) else find_sess id r
  end.
Definition drop_sess (id : N) (l : list (N * sess)) : list (N * sess) := filter (fun e => negb (fst e =? id)) l.

Inductive sop :=
| SBase (o : op)                        (* any operation of Access.v, made by somebody else *)
| SOpen (id u : N) (feed : bool)        (* authenticate u (GetUser + roles) and open a session *)
| SRequest (id : N).                    (* the next request / loop iteration of the session: refresh, then authorize *)

Inductive sout :=
| SO (o : out)
| SView (v : option (list N * list N))  (* what the session's user object grants: inherited channels, role names *)
| SErr                                  (* the reload failed (the user is gone) *)
| SClosed.

Definition s_open (ss : sstate) (id u : N) (feed : bool) : sstate * sout :=
  let st := ss_st ss in
  let res := load_user st u in
  let st' := fst res in
  let others := mark_all st st' (drop_sess id (ss_sess ss)) in
  match snd res with
  | OUser (Some (chs, ros)) => (mkSS st' ((id, mkSe u feed (keys_of u ros) false (chs, ros)) :: others), SView (Some (chs, ros)))
  | _ => (mkSS st' others, SView None)
  end.

Definition s_request (ss : sstate) (id : N) : sstate * sout :=
  match find_sess id (ss_sess ss) with
  | None => (ss, SClosed)
  | Some s =>
    if se_dirty s then
      let st := ss_st ss in
      let res := load_user st (se_user s) in
      let st' := fst res in
      let others := mark_all st st' (drop_sess id (ss_sess ss)) in
      match snd res with
      | OUser (Some (chs, ros)) =>
        let keys' := if se_feed s
                     then (if set_eqb (snd (se_view s)) ros then se_keys s else refresh_keys (se_keys s) (se_user s) ros)
                     else refresh_keys (se_keys s) (se_user s) ros in
        (mkSS st' ((id, mkSe (se_user s) (se_feed s) keys' false (chs, ros)) :: others), SView (Some (chs, ros)))
      | _ =>
        (* the user is gone: a feed terminates, a BLIP request fails and the connection keeps its old user object *)
        if se_feed s then (mkSS st' others, SErr)
        else (mkSS st' ((id, mkSe (se_user s) false (se_keys s) false (se_view s)) :: others), SErr)
      end
    else (ss, SView (Some (se_view s)))
  end.

Definition sstep (ss : sstate) (o : sop) : sstate * sout :=
  match o with
  | SBase bo => let res := step (ss_st ss) bo in
                (mkSS (fst res) (mark_all (ss_st ss) (fst res) (ss_sess ss)), SO (snd res))
  | SOpen id u feed => s_open ss id u feed
  | SRequest id => s_request ss id
  end.

Fixpoint srun (ss : sstate) (ops : list sop) : sstate :=
  match ops with
  | [] => ss
  | o :: r => srun (fst (sstep ss o)) r
  end.

Fixpoint souts (ss : sstate) (ops : list sop) : list sout :=
  match ops with
  | [] => []
  | o :: r => let (ss', x) := sstep ss o in x :: souts ss' r
  end.
End WithDeletionSwitch.

(* the code as it is now *)
Definition deletion_notifies : bool := true.
Definition sstep_now : sstate -> sop -> sstate * sout := sstep deletion_notifies.
Definition srun_now : sstate -> list sop -> sstate := srun deletion_notifies.
Definition souts_now : sstate -> list sop -> list sout := souts deletion_notifies.

(* histories covered by the theorems: no db Purge, which invalidates nobody (purge-stale-grant); raced loads are not
   combined with sessions *)
Definition notified_op (o : sop) : bool :=
  match o with
  | SBase (Purge _) => false
  | SBase (LoadUserRace _ _ _) => false
  | SBase (LoadRoleRace _ _) => false
  | _ => true
  end.
