(* C03 -- extension of the access model (Access.v) in three directions, as DECORATIONS of the base state: the base
   component [xb] of an extended state evolves exactly by the functions of Access.v (so every theorem about them
   applies to it), the decorations add

   (1) WHO writes: a document write made with a user context (db.user set).  The sync function receives
       MakeUserCtx(user) = {name, RoleNames(), InheritedCollectionChannels().AllKeys()} and may call
       requireAdmin / requireUser / requireRole / requireAccess (channels/sync_runner.go); a failed requirement
       rejects the whole write.  The requirement of every stored body is remembered ([xreq]) because
       recalculateSyncFnForActiveRev re-runs the sync function of a PROMOTED older leaf with the context of the
       current writer.  After an accepted write MarkPrincipalsChanged reloads the active user when it (or one of the
       roles of the user object) is among the changed principals.                                     [x_put_as]

   (2) TIME: every grant carries the sequence at which it was made.
         db/document.go updateAccess      : a (key, channel) already granted by the document keeps its sequence, a new
                                            one gets doc.Sequence                                         [stamp]
         db/users.go UpdatePrincipal      : TimedSet.UpdateAtSequence on the admin channels / roles; the computed value
                                            is invalidated AT the sequence allocated for the edit        [restamp]
         auth.InvalidateChannels / Roles  : channel_inval_seq / role_inval_seq is written only when the value is not
                                            already invalidated (subdoc insert / Channels() != nil)      [inval_gc]
         auth rebuildCollectionChannels / RebuildRoles : admin + view rows (+ "!" at 1) merged with AddChannel (the
                                            smallest sequence wins); calculateHistory appends (since, invalSeq) for
                                            every invalidated grant that is gone, at most 10 entries per name (the two
                                            oldest are merged)                                 [rebuild_gc, calc_history]
         auth.DeleteRole (soft)           : history entry for every current channel, invalidated at the delete sequence;
         auth.NewRoleNoChannels           : a re-created role inherits the deleted role's history (every collection
                                            since 3cadf88: recreate_keeps_named_history)         [x_del_role, x_set_role]

   (3) the API of a loaded user object (Effective.v) evaluated on the decorated state.             [view_of, XAsk]

   Sequences are an input: every operation that may allocate one carries the sequence the implementation allocated
   ([xwf]: larger than every sequence seen before -- db.sequences is one allocator for documents and principals). *)
From SG Require Import Base.Prelude C03.Access C03.Effective.
Open Scope N_scope.

Definition hist := list (N * (N * N)).     (* name, (StartSeq, EndSeq); in order of recording *)

(* one "grant cache" of a principal document: admin grants, computed grants (kept when invalidated), the
   invalidation sequence (0 = valid), the history of revoked grants *)
Record gc := mkG { g_x : tset; g_c : tset; g_inv : N; g_hist : hist }.
Definition gempty : gc := mkG [] [] 0 [].
Record udeco := mkUD { ud_ch : gc; ud_ro : gc }.
Definition udempty : udeco := mkUD gempty gempty.

(* what the sync function demands of the writer before it grants anything *)
Inductive req := RNone | RAdmin | RUser (l : list N) | RRole (l : list N) | RAccess (l : list N).

Record xstate := mkX {
  xb : state;                       (* the base model *)
  xdef : bool;                      (* the collection is _default._default *)
  xclock : N;                       (* the last sequence used *)
  xreq : N -> list (rev * req);     (* requirement in the body of every revision stored for the document *)
  xdacc : N -> list (pid * tset);   (* SyncData.Access with its sequences *)
  xdrol : N -> list (N * tset);     (* SyncData.RoleAccess with its sequences *)
  xu : N -> udeco;
  xr : N -> gc }.

Definition xinit (def : bool) : xstate :=
  mkX init def 0 (fun _ => []) (fun _ => []) (fun _ => []) (fun _ => udempty) (fun _ => gempty).

(* ---- timed access maps ---- *)
(* TimedSet.UpdateAtSequence: names already present keep their sequence, new ones get s *)
Definition restamp (old : tset) (new : list N) (s : N) : tset :=
  map (fun c => (c, let o := since old c in if o =? 0 then s else o)) new.

Section TGrants.
  Context {K : Type} (eqb : K -> K -> bool).
  Definition tgrants (m : list (K * tset)) (k : K) : tset :=
    flat_map (fun e => if eqb (fst e) k then snd e else []) m.
  (* updateAccess: the new access map with the sequences of the stored one *)
  Definition stamp (old : list (K * tset)) (new : list (K * list N)) (s : N) : list (K * tset) :=
    map (fun e => (fst e, restamp (tgrants old (fst e)) (snd e) s)) new.
End TGrants.

Definition tdoc_chan (xs : xstate) (p : pid) : tset :=
  flat_map (fun d => tgrants pid_eqb (xdacc xs d) p) (ids (xb xs)).
Definition tdoc_role (xs : xstate) (u : N) : tset :=
  flat_map (fun d => tgrants N.eqb (xdrol xs d) u) (ids (xb xs)).
Definition tcompute_chans (xs : xstate) (p : pid) (x : tset) : tset := x ++ tdoc_chan xs p ++ [(pub, 1)].
Definition tcompute_roles (xs : xstate) (u : N) (x : tset) : tset := x ++ tdoc_role xs u.

(* ---- calculateHistory ---- *)
Fixpoint set_first_start (h : hist) (c s : N) : hist :=
  match h with
  | [] => []
  | e :: r => if fst e =? c then (fst e, (s, snd (snd e))) :: r else e :: set_first_start r c s
  end.
(* Entries[1].StartSeq = Entries[0].StartSeq; Entries = Entries[1:] *)
Fixpoint compact1 (h : hist) (c : N) : hist :=
  match h with
  | [] => []
  | e :: r => if fst e =? c then set_first_start r c (fst (snd e)) else e :: compact1 r c
  end.
Definition entries (h : hist) (c : N) : list (N * N) := map snd (filter (fun e => fst e =? c) h).
Definition max_entries : nat := 10.
Definition add_hist (h : hist) (c s e : N) : hist :=
  let h1 := h ++ [(c, (s, e))] in
  if Nat.ltb max_entries (length (entries h1 c)) then compact1 h1 c else h1.
Fixpoint dedup (l : list N) : list N :=
  match l with
  | [] => []
  | x :: r => if mem x r then dedup r else x :: dedup r
  end.
Definition calc_history (inv : N) (old new : tset) (h : hist) : hist :=
  fold_left (fun h c => if has new c then h else add_hist h c (since old c) inv) (dedup (keys old)) h.

Definition rebuild_gc (g : gc) (computed : tset) : gc :=
  mkG (g_x g) computed 0 (calc_history (g_inv g) (g_c g) computed (g_hist g)).
Definition inval_gc (s : N) (g : gc) : gc :=
  if g_inv g =? 0 then mkG (g_x g) (g_c g) s (g_hist g) else g.
Definition edit_gc (g : gc) (new : list N) (s : N) : gc :=
  mkG (restamp (g_x g) new s) (g_c g) s (g_hist g).

(* ---- getPrincipal on the decorations (read from the state BEFORE the rebuild) ---- *)
Definition user_deco_rebuilt (xs : xstate) (u : N) : udeco :=
  let ud := xu xs u in
  match users (xb xs) u with
  | None => ud
  | Some ur =>
    mkUD (match u_ch ur with
          | Some _ => ud_ch ud
          | None => rebuild_gc (ud_ch ud) (tcompute_chans xs (PU u) (g_x (ud_ch ud)))
          end)
         (match u_ro ur with
          | Some _ => ud_ro ud
          | None => rebuild_gc (ud_ro ud) (tcompute_roles xs u (g_x (ud_ro ud)))
          end)
  end.
Definition role_deco_rebuilt (xs : xstate) (r : N) : gc :=
  let g := xr xs r in
  match roles (xb xs) r with
  | None => g
  | Some rr =>
    if r_del rr then g
    else match r_ch rr with
         | Some _ => g
         | None => rebuild_gc g (tcompute_chans xs (PR r) (g_x g))
         end
  end.

Definition set_b (xs : xstate) (b : state) : xstate :=
  mkX b (xdef xs) (xclock xs) (xreq xs) (xdacc xs) (xdrol xs) (xu xs) (xr xs).

Definition x_rebuild_user (xs : xstate) (u : N) : xstate :=
  mkX (fst (rebuild_user (xb xs) u)) (xdef xs) (xclock xs) (xreq xs) (xdacc xs) (xdrol xs)
      (upd (xu xs) u (user_deco_rebuilt xs u)) (xr xs).
Definition x_rebuild_role (xs : xstate) (r : N) : xstate :=
  mkX (fst (rebuild_role (xb xs) r)) (xdef xs) (xclock xs) (xreq xs) (xdacc xs) (xdrol xs)
      (xu xs) (upd (xr xs) r (role_deco_rebuilt xs r)).

(* GetUser + GetRoles: the user, then every role named by the (rebuilt) role list *)
Definition loaded_roles (st : state) (u : N) : list N :=
  match snd (rebuild_user st u) with Some ur => opt_list (u_ro ur) | None => [] end.
Definition x_load_user (xs : xstate) (u : N) : xstate :=
  fold_left x_rebuild_role (loaded_roles (xb xs) u) (x_rebuild_user xs u).
Definition x_load_role (xs : xstate) (r : N) : xstate := x_rebuild_role xs r.

(* the loaded user object: own channels, and the existing, not deleted roles with their grant sequence *)
Definition view_of (xs : xstate) (u : N) : uview :=
  match users (xb xs) u with
  | None => mkUV [] []
  | Some ur =>
    mkUV (g_c (ud_ch (xu xs u)))
         (flat_map (fun r => match roles (xb xs) r with
                             | Some rr => if r_del rr then []
                                          else [mkVR r (since (g_c (ud_ro (xu xs u))) r) (g_c (xr xs r))]
                             | None => []
                             end) (opt_list (u_ro ur)))
  end.

(* ---- document write ---- *)
Definition new_leaves (st : state) (d : N) (parent : option rev) (r : rev) (b : body) : list leaf :=
  mkLeaf r (match b with BLive v => Some v | _ => None end) :: remove_leaf parent (d_leaves (docs st d)).

(* admin write (no user context): Access.put on the base, sequences on the access maps, invalidation sequences *)
Definition x_put (xs : xstate) (d : N) (parent : option rev) (r : rev) (q : req) (b : body) (s : N) : xstate :=
  let st := xb xs in
  match b with
  | BReject => xs
  | _ =>
    let dr := docs st d in
    if existsb (fun l => rev_eqb (l_rev l) r) (d_leaves dr) then xs
    else
      let st' := fst (put st d parent r b) in
      let lv := new_leaves st d parent r b in
      let xreq' := upd (xreq xs) d ((r, match b with BLive _ => q | _ => RNone end) :: xreq xs d) in
      if same_winner (winner (d_leaves dr)) (winner lv)
      then mkX st' (xdef xs) s xreq' (xdacc xs) (xdrol xs) (xu xs) (xr xs)
      else
        let v := wverdict lv in
        let ca := changed_keys pid_eqb (d_acc dr) (v_acc v) in
        let cr := changed_keys N.eqb (d_rol dr) (v_rol v) in
        mkX st' (xdef xs) s xreq'
            (upd (xdacc xs) d (stamp pid_eqb (xdacc xs d) (v_acc v) s))
            (upd (xdrol xs) d (stamp N.eqb (xdrol xs d) (v_rol v) s))
            (fun u => let ud := xu xs u in
                      match users st u with
                      | Some _ => mkUD (if pmem (PU u) ca then inval_gc s (ud_ch ud) else ud_ch ud)
                                       (if mem u cr then inval_gc s (ud_ro ud) else ud_ro ud)
                      | None => ud
                      end)
            (fun r0 => match roles st r0 with
                       | Some _ => if pmem (PR r0) ca then inval_gc s (xr xs r0) else xr xs r0
                       | None => xr xs r0
                       end)
  end.

(* requireAdmin / requireUser / requireRole / requireAccess against the user context *)
Definition req_ok (q : req) (u : N) (chs ros : list N) : bool :=
  match q with
  | RNone => true
  | RAdmin => false
  | RUser l => mem u l
  | RRole l => existsb (fun r => mem r l) ros
  | RAccess l => existsb (fun c => mem c l) chs
  end.
Definition req_of (xs : xstate) (d : N) (rv : rev) : req :=
  match find (fun e => rev_eqb (fst e) rv) (xreq xs d) with Some e => snd e | None => RNone end.

(* is the write accepted by the sync function(s) it runs, for the context (u, chs, ros)? *)
Definition accepts (xs : xstate) (u : N) (chs ros : list N) (d : N) (parent : option rev) (r : rev) (q : req) (b : body) : bool :=
  match b with
  | BReject => false
  | BTomb => true
  | BLive _ => req_ok q u chs ros
  end &&
  (let ls := d_leaves (docs (xb xs) d) in
   let lv := new_leaves (xb xs) d parent r b in
   if existsb (fun l => rev_eqb (l_rev l) r) ls then true
   else if same_winner (winner ls) (winner lv) then true
   else match winner lv with
        | Some w => if rev_eqb (l_rev w) r then true else req_ok (req_of xs d (l_rev w)) u chs ros
        | None => true
        end).

(* MarkPrincipalsChanged: does the write change the access of the active user (as the user OBJECT sees itself)? *)
Definition reloads (st : state) (u : N) (ros : list N) (d : N) (parent : option rev) (r : rev) (b : body) : bool :=
  let dr := docs st d in
  let lv := new_leaves st d parent r b in
  match b with
  | BReject => false
  | _ =>
    if existsb (fun l => rev_eqb (l_rev l) r) (d_leaves dr) then false
    else if same_winner (winner (d_leaves dr)) (winner lv) then false
    else
      let v := wverdict lv in
      let ca := changed_keys pid_eqb (d_acc dr) (v_acc v) in
      let cr := changed_keys N.eqb (d_rol dr) (v_rol v) in
      pmem (PU u) ca || existsb (fun r0 => pmem (PR r0) ca) ros || mem u cr
  end.

(* write with a user context; the user object was loaded (GetUser) just before *)
Definition x_put_as (xs : xstate) (u d : N) (parent : option rev) (r : rev) (q : req) (b : body) (s : N) : xstate * bool :=
  let xs1 := x_load_user xs u in
  match users (xb xs1) u with
  | None => (xs1, false)
  | Some ur =>
    let chs := keys (inherited (view_of xs1 u)) in
    let ros := opt_list (u_ro ur) in
    if accepts xs1 u chs ros d parent r q b
    then let xs2 := x_put xs1 d parent r q b s in
         (if reloads (xb xs1) u ros d parent r b then x_rebuild_user xs2 u else xs2, true)
    else (xs1, false)
  end.

(* ---- principals ----
   UpdatePrincipal / DeleteRole / DeleteUser = getPrincipal (the x_rebuild functions), then an edit of the loaded principal *)
Definition x_edit_user (xs : xstate) (u : N) (chans roles_ : option (list N)) (s : N) : xstate :=
  let st := xb xs in
  let isnew := match users st u with Some _ => false | None => true end in
  let ur := match users st u with
            | Some ur => ur
            | None => mkU [] (Some (compute_chans st (PU u) [])) [] (Some (compute_roles st u []))
            end in
  let ud0 := if isnew
             then mkUD (mkG [] (tcompute_chans xs (PU u) []) 0 []) (mkG [] (tcompute_roles xs u []) 0 [])
             else xu xs u in
  let chg_c := match chans with Some c => negb (set_eqb c (u_xch ur)) | None => false end in
  let chg_r := match roles_ with Some r => negb (set_eqb r (u_xro ur)) | None => false end in
  let ur1 := match chans with
             | Some c => if set_eqb c (u_xch ur) then ur else mkU c None (u_xro ur) (u_ro ur)
             | None => ur
             end in
  let ur2 := match roles_ with
             | Some r => if set_eqb r (u_xro ur1) then ur1 else mkU (u_xch ur1) (u_ch ur1) r None
             | None => ur1
             end in
  let dc := match chans with Some c => if chg_c then edit_gc (ud_ch ud0) c s else ud_ch ud0 | None => ud_ch ud0 end in
  let dr := match roles_ with Some r => if chg_r then edit_gc (ud_ro ud0) r s else ud_ro ud0 | None => ud_ro ud0 end in
  mkX (set_users st (upd (users st) u (Some ur2))) (xdef xs) (if isnew || chg_c || chg_r then s else xclock xs)
      (xreq xs) (xdacc xs) (xdrol xs) (upd (xu xs) u (mkUD dc dr)) (xr xs).
Definition x_set_user (xs : xstate) (u : N) (chans roles_ : option (list N)) (s : N) : xstate :=
  x_edit_user (x_rebuild_user xs u) u chans roles_ s.

(* auth.NewRole / NewRoleNoChannels on a soft-deleted role of the same name carry over the channel history of EVERY
   collection (repair 3cadf88); false = the code before the repair, which kept the default collection's history only *)
Definition recreate_keeps_named_history : bool := true.

Definition x_edit_role_with (keep : bool) (xs : xstate) (r : N) (chans : option (list N)) (s : N) : xstate :=
  let st := xb xs in
  let live_ := match roles st r with Some rr => negb (r_del rr) | None => false end in
  let kept_hist := match roles st r with
                   | Some rr => if r_del rr && (xdef xs || keep) then g_hist (xr xs r) else []
                   | None => []
                   end in
  let fresh := mkR false [] (Some (compute_chans st (PR r) [])) in
  let rr := match roles st r with Some rr => if r_del rr then fresh else rr | None => fresh end in
  let g0 := if live_ then xr xs r else mkG [] (tcompute_chans xs (PR r) []) 0 kept_hist in
  let chg := match chans with Some c => negb (set_eqb c (r_xch rr)) | None => false end in
  let rr1 := match chans with
             | Some c => if set_eqb c (r_xch rr) then rr else mkR false c None
             | None => rr
             end in
  let g1 := match chans with Some c => if chg then edit_gc g0 c s else g0 | None => g0 end in
  mkX (set_roles st (upd (roles st) r (Some rr1))) (xdef xs) (if negb live_ || chg then s else xclock xs)
      (xreq xs) (xdacc xs) (xdrol xs) (xu xs) (upd (xr xs) r g1).
Definition x_edit_role : xstate -> N -> option (list N) -> N -> xstate := x_edit_role_with recreate_keeps_named_history.
Definition x_set_role (xs : xstate) (r : N) (chans : option (list N)) (s : N) : xstate :=
  x_edit_role (x_rebuild_role xs r) r chans s.

Definition x_mark_deleted (xs : xstate) (r : N) (purge_ : bool) (s : N) : xstate :=
  let st := xb xs in
  match roles st r with
  | Some rr =>
    if r_del rr then xs
    else if purge_
         then mkX (set_roles st (upd (roles st) r None)) (xdef xs) (xclock xs) (xreq xs) (xdacc xs) (xdrol xs)
                  (xu xs) (upd (xr xs) r gempty)
         else let g := xr xs r in
              mkX (set_roles st (upd (roles st) r (Some (mkR true (r_xch rr) None)))) (xdef xs) s
                  (xreq xs) (xdacc xs) (xdrol xs) (xu xs)
                  (upd (xr xs) r (mkG (g_x g) (g_c g) s (calc_history s (g_c g) [] (g_hist g))))
  | None => xs
  end.
Definition x_del_role (xs : xstate) (r : N) (purge_ : bool) (s : N) : xstate :=
  x_mark_deleted (x_rebuild_role xs r) r purge_ s.

Definition x_del_user (xs : xstate) (u : N) : xstate :=
  let xs1 := x_rebuild_user xs u in
  match users (xb xs1) u with
  | Some _ => mkX (set_users (xb xs1) (upd (users (xb xs1)) u None)) (xdef xs) (xclock xs) (xreq xs) (xdacc xs) (xdrol xs)
                  (upd (xu xs1) u udempty) (xr xs)
  | None => xs1
  end.

(* ---- operations and observables ---- *)
Inductive xop :=
| XPut (who : option N) (d : N) (parent : option rev) (r : rev) (q : req) (b : body) (s : N)
| XSetUser (u : N) (chans roles_ : option (list N)) (s : N)
| XSetRole (r : N) (chans : option (list N)) (s : N)
| XDelRole (r : N) (purge_ : bool) (s : N)
| XDelUser (u : N)
| XLoadUser (u : N)
| XLoadRole (r : N)
| XPeekUser (u : N)                                   (* the stored user document, not rebuilt *)
| XPeekRole (r : N)
| XPeekDoc (d : N)                                    (* SyncData.Access / RoleAccess of the stored document *)
| XAsk (u : N) (univ : list N) (qs : list (list N)).  (* GetUser, then the access API on the user object *)

Inductive xout :=
| XStatus (ok : bool)
(* inherited channels, roles, own channels, channel history, role history *)
| XUser (r : option (tset * tset * tset * hist * hist))
| XRole (r : option (tset * hist))
| XPeekU (r : option (gc * gc))
| XPeekR (r : option (bool * gc))
| XDoc (acc : list (pid * tset)) (rol : list (N * tset))
(* CanSeeCollectionChannel for every channel of univ; for every set of qs: AuthorizeAnyCollectionChannel = nil,
   FilterToAvailableCollectionChannels (filtered, removed) *)
| XQuery (r : option (list bool * list (bool * (tset * list N)))).

Definition status_of (o : out) : xout := match o with OStatus b => XStatus b | _ => XStatus false end.

Definition xstep (xs : xstate) (o : xop) : xstate * xout :=
  let st := xb xs in
  match o with
  | XPut None d parent r q b s => (x_put xs d parent r q b s, status_of (snd (put st d parent r b)))
  | XPut (Some u) d parent r q b s => let res := x_put_as xs u d parent r q b s in (fst res, XStatus (snd res))
  | XSetUser u c r s => (x_set_user xs u c r s, status_of (snd (set_user st u c r)))
  | XSetRole r c s => (x_set_role xs r c s, status_of (snd (set_role st r c)))
  | XDelRole r p s => (x_del_role xs r p s, status_of (snd (del_role st r p)))
  | XDelUser u => (x_del_user xs u, status_of (snd (del_user st u)))
  | XLoadUser u =>
    let xs' := x_load_user xs u in
    (xs', XUser (match users (xb xs') u with
                 | None => None
                 | Some _ => let ud := xu xs' u in
                             Some (inherited (view_of xs' u), g_c (ud_ro ud), g_c (ud_ch ud), g_hist (ud_ch ud), g_hist (ud_ro ud))
                 end))
  | XLoadRole r =>
    let xs' := x_load_role xs r in
    (xs', XRole (match roles (xb xs') r with
                 | Some rr => if r_del rr then None else Some (g_c (xr xs' r), g_hist (xr xs' r))
                 | None => None
                 end))
  | XPeekUser u => (xs, XPeekU (match users st u with Some _ => Some (ud_ch (xu xs u), ud_ro (xu xs u)) | None => None end))
  | XPeekRole r => (xs, XPeekR (match roles st r with Some rr => Some (r_del rr, xr xs r) | None => None end))
  | XPeekDoc d => (xs, XDoc (xdacc xs d) (xdrol xs d))
  | XAsk u univ qs =>
    let xs' := x_load_user xs u in
    (xs', XQuery (match users (xb xs') u with
                  | None => None
                  | Some _ => let v := view_of xs' u in
                              Some (map (can_see v) univ,
                                    map (fun q => (authorize_any (xdef xs) v q, filter_available v q)) qs)
                  end))
  end.

Fixpoint xrun (xs : xstate) (ops : list xop) : xstate :=
  match ops with
  | [] => xs
  | o :: r => xrun (fst (xstep xs o)) r
  end.

Fixpoint xouts (xs : xstate) (ops : list xop) : list xout :=
  match ops with
  | [] => []
  | o :: r => let (xs', x) := xstep xs o in x :: xouts xs' r
  end.

(* the sequence an operation may use is larger than every sequence used before *)
Definition op_seq (o : xop) : option N :=
  match o with
  | XPut _ _ _ _ _ _ s | XSetUser _ _ _ s | XSetRole _ _ s | XDelRole _ _ s => Some s
  | _ => None
  end.
Fixpoint xwf (xs : xstate) (ops : list xop) : bool :=
  match ops with
  | [] => true
  | o :: r => match op_seq o with Some s => xclock xs <? s | None => true end && xwf (fst (xstep xs o)) r
  end.
