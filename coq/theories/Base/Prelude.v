(* Shared helpers: arithmetic automation setup and small list/option utilities. *)
From Coq Require Export List NArith ZArith Bool Lia.
From Coq Require Export ZifyBool ZifyN ZifyNat.
Export ListNotations.

(* destruct every [if] condition found in the goal or in a hypothesis *)
Ltac break_ifs :=
  repeat match goal with
  | |- context[if ?c then _ else _] => destruct c eqn:?
  | H: context[if ?c then _ else _] |- _ => destruct c eqn:?
  end.

Ltac inv H := inversion H; subst; clear H.

(* indices (from 0) of the elements on which a boolean test fails *)
Fixpoint failing_from {A} (f : A -> bool) (i : N) (l : list A) : list N :=
  match l with
  | [] => []
  | x :: r => if f x then failing_from f (N.succ i) r else i :: failing_from f (N.succ i) r
  end.
Definition failing {A} (f : A -> bool) (l : list A) : list N := failing_from f 0%N l.

Definition option_eqb {A} (eqb : A -> A -> bool) (a b : option A) : bool :=
  match a, b with
  | Some x, Some y => eqb x y
  | None, None => true
  | _, _ => false
  end.

Fixpoint list_eqb {A} (eqb : A -> A -> bool) (a b : list A) : bool :=
  match a, b with
  | [], [] => true
  | x :: a', y :: b' => eqb x y && list_eqb eqb a' b'
  | _, _ => false
  end.

Lemma list_eqb_eq {A} (eqb : A -> A -> bool) :
  (forall x y, eqb x y = true <-> x = y) -> forall a b, list_eqb eqb a b = true <-> a = b.
Proof.
  intros H a; induction a as [|x a IH]; intros [|y b]; cbn; try (split; congruence).
  rewrite andb_true_iff, H, IH. split; [intros [-> ->]; reflexivity | intros E; inversion E; auto].
Qed.
