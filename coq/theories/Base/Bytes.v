(* byte strings exchanged with the Go harness: lists of numbers 0..255 <-> Coq strings *)
From Coq Require Import String Ascii NArith List.
Import ListNotations.

Fixpoint B (l : list N) : string :=
  match l with
  | [] => EmptyString
  | n :: r => String (ascii_of_N n) (B r)
  end.

Fixpoint unB (s : string) : list N :=
  match s with
  | EmptyString => []
  | String c r => N_of_ascii c :: unB r
  end.
