// go2coq: a deliberately tiny Go -> Gallina translator for pure decision functions.
//
// usage: go2coq -src /repo/db/sequence_id.go -struct SequenceID -funcs Before,SafeSequence,intSeqToString -out SeqIdGen.v
//
// Accepted subset (anything else is an error, reported on stderr, exit 2):
//   - one struct type whose fields are all uint64 (-> Record over N)
//   - methods on that struct (value receiver) and plain functions whose parameters are that struct,
//     uint64 (-> N), int (-> Z) or bool
//   - statements: if / else if / else, switch { case cond: }, return e, x := e (pure), blocks
//   - expressions: field selection on identifiers, identifiers, integer literals, true/false,
//     == != < <= > >=, && || !, parentheses, composite literals of the struct, calls to translated
//     methods, fmt.Sprintf(lit, args...) and strconv.FormatUint(x, 10) (-> a symbolic format call)
//   - self recursion only as the whole operand of a return; emitted as a fuelled Fixpoint returning option.
//   - no arithmetic (+ - * / << >> are rejected: uint64 -> N would lose wrap-around).
package main

import (
	"flag"
	"fmt"
	"go/ast"
	"go/parser"
	"go/token"
	"os"
	"sort"
	"strings"
)

type ty string

const (
	tN    ty = "N"
	tZ    ty = "Z"
	tBool ty = "bool"
	tFmt  ty = "fmtcall"
	tUnk  ty = "?"
)

type tr struct {
	structName string
	fields     []string
	funcs      map[string]*ast.FuncDecl
	retTy      map[string]ty
	recursive  map[string]bool
	cur        string
	env        map[string]ty
}

func die(pos token.Position, f string, a ...any) {
	fmt.Fprintf(os.Stderr, "go2coq: %s: unsupported: %s\n", pos, fmt.Sprintf(f, a...))
	os.Exit(2)
}

var fset = token.NewFileSet()

func (t *tr) goType(e ast.Expr) ty {
	switch x := e.(type) {
	case *ast.Ident:
		switch x.Name {
		case "uint64":
			return tN
		case "int":
			return tZ
		case "bool":
			return tBool
		case "string":
			return tFmt
		case t.structName:
			return ty(t.structName)
		}
	}
	die(fset.Position(e.Pos()), "type %T", e)
	return tUnk
}

func (t *tr) isRec(call *ast.CallExpr) bool {
	if sel, ok := call.Fun.(*ast.SelectorExpr); ok {
		return sel.Sel.Name == t.cur
	}
	return false
}

// expr returns (coq text, type). want is a hint for untyped integer literals.
func (t *tr) expr(e ast.Expr, want ty) (string, ty) {
	switch x := e.(type) {
	case *ast.ParenExpr:
		s, y := t.expr(x.X, want)
		return "(" + s + ")", y
	case *ast.BasicLit:
		if x.Kind == token.INT {
			if want == tZ {
				return "(" + x.Value + ")%Z", tZ
			}
			return x.Value + "%N", tN
		}
		if x.Kind == token.STRING {
			return x.Value, tFmt
		}
	case *ast.Ident:
		if x.Name == "true" || x.Name == "false" {
			return x.Name, tBool
		}
		if y, ok := t.env[x.Name]; ok {
			return x.Name, y
		}
		die(fset.Position(x.Pos()), "unknown identifier %s", x.Name)
	case *ast.SelectorExpr:
		if id, ok := x.X.(*ast.Ident); ok {
			if y, ok := t.env[id.Name]; ok && string(y) == t.structName {
				for _, f := range t.fields {
					if f == x.Sel.Name {
						return "(" + f + " " + id.Name + ")", tN
					}
				}
			}
		}
		die(fset.Position(x.Pos()), "selector")
	case *ast.UnaryExpr:
		if x.Op == token.NOT {
			s, _ := t.expr(x.X, tBool)
			return "(negb " + s + ")", tBool
		}
		if x.Op == token.SUB {
			if bl, ok := x.X.(*ast.BasicLit); ok && bl.Kind == token.INT {
				return "(-" + bl.Value + ")%Z", tZ
			}
		}
		die(fset.Position(x.Pos()), "unary %s", x.Op)
	case *ast.BinaryExpr:
		switch x.Op {
		case token.LAND, token.LOR:
			a, _ := t.expr(x.X, tBool)
			b, _ := t.expr(x.Y, tBool)
			op := "&&"
			if x.Op == token.LOR {
				op = "||"
			}
			return "(" + a + " " + op + " " + b + ")", tBool
		case token.EQL, token.NEQ, token.LSS, token.LEQ, token.GTR, token.GEQ:
			// infer operand type: try left without hint, then right
			_, ly := t.tryType(x.X)
			_, ry := t.tryType(x.Y)
			ot := ly
			if ot == tUnk {
				ot = ry
			}
			if ot == tUnk {
				ot = tN
			}
			a, _ := t.expr(x.X, ot)
			b, _ := t.expr(x.Y, ot)
			if ot == tBool {
				if x.Op == token.EQL {
					return "(Bool.eqb " + a + " " + b + ")", tBool
				}
				if x.Op == token.NEQ {
					return "(negb (Bool.eqb " + a + " " + b + "))", tBool
				}
				die(fset.Position(x.Pos()), "ordering on bool")
			}
			m := string(ot)
			switch x.Op {
			case token.EQL:
				return "(" + m + ".eqb " + a + " " + b + ")", tBool
			case token.NEQ:
				return "(negb (" + m + ".eqb " + a + " " + b + "))", tBool
			case token.LSS:
				return "(" + m + ".ltb " + a + " " + b + ")", tBool
			case token.LEQ:
				return "(" + m + ".leb " + a + " " + b + ")", tBool
			case token.GTR:
				return "(" + m + ".ltb " + b + " " + a + ")", tBool
			case token.GEQ:
				return "(" + m + ".leb " + b + " " + a + ")", tBool
			}
		}
		die(fset.Position(x.Pos()), "binary operator %s", x.Op)
	case *ast.CompositeLit:
		if id, ok := x.Type.(*ast.Ident); ok && id.Name == t.structName {
			vals := map[string]string{}
			for _, el := range x.Elts {
				kv, ok := el.(*ast.KeyValueExpr)
				if !ok {
					die(fset.Position(el.Pos()), "positional composite literal")
				}
				s, _ := t.expr(kv.Value, tN)
				vals[kv.Key.(*ast.Ident).Name] = s
			}
			var parts []string
			for _, f := range t.fields {
				v, ok := vals[f]
				if !ok {
					v = "0%N"
				}
				parts = append(parts, f+" := "+v)
			}
			return "{| " + strings.Join(parts, "; ") + " |}", ty(t.structName)
		}
		die(fset.Position(x.Pos()), "composite literal")
	case *ast.CallExpr:
		if sel, ok := x.Fun.(*ast.SelectorExpr); ok {
			if pk, ok := sel.X.(*ast.Ident); ok {
				if pk.Name == "fmt" && sel.Sel.Name == "Sprintf" {
					lit, ok := x.Args[0].(*ast.BasicLit)
					if !ok {
						die(fset.Position(x.Pos()), "Sprintf format not a literal")
					}
					var as []string
					for _, a := range x.Args[1:] {
						s, _ := t.expr(a, tN)
						as = append(as, s)
					}
					return "(" + lit.Value + "%string, [" + strings.Join(as, "; ") + "])", tFmt
				}
				if pk.Name == "strconv" && sel.Sel.Name == "FormatUint" {
					s, _ := t.expr(x.Args[0], tN)
					return "(\"%d\"%string, [" + s + "])", tFmt
				}
			}
			// method call on a translated (non-recursive) function
			if fd, ok := t.funcs[sel.Sel.Name]; ok && sel.Sel.Name != t.cur && !t.recursive[sel.Sel.Name] {
				recv, _ := t.expr(sel.X, tUnk)
				var as []string
				as = append(as, recv)
				for i, a := range x.Args {
					_ = i
					s, _ := t.expr(a, tUnk)
					as = append(as, s)
				}
				_ = fd
				return "(" + sel.Sel.Name + " " + strings.Join(as, " ") + ")", t.retTy[sel.Sel.Name]
			}
		}
		die(fset.Position(x.Pos()), "call")
	}
	die(fset.Position(e.Pos()), "expression %T", e)
	return "", tUnk
}

func (t *tr) tryType(e ast.Expr) (string, ty) {
	switch x := e.(type) {
	case *ast.BasicLit:
		return "", tUnk
	case *ast.ParenExpr:
		return t.tryType(x.X)
	case *ast.UnaryExpr:
		if x.Op == token.SUB {
			return "", tZ
		}
	}
	return t.expr(e, tUnk)
}

// stmts translates a statement list that must end by returning on every path.
func (t *tr) stmts(list []ast.Stmt, rec bool, ind string) string {
	if len(list) == 0 {
		fmt.Fprintf(os.Stderr, "go2coq: function %s: path falls off the end without return\n", t.cur)
		os.Exit(2)
	}
	s := list[0]
	rest := list[1:]
	switch x := s.(type) {
	case *ast.ReturnStmt:
		if len(x.Results) != 1 {
			die(fset.Position(x.Pos()), "return with %d results", len(x.Results))
		}
		if call, ok := x.Results[0].(*ast.CallExpr); ok && rec && t.isRec(call) {
			sel := call.Fun.(*ast.SelectorExpr)
			recv, _ := t.expr(sel.X, tUnk)
			args := []string{recv}
			for _, a := range call.Args {
				as, _ := t.expr(a, tUnk)
				args = append(args, as)
			}
			return ind + t.cur + "_f fuel " + strings.Join(args, " ")
		}
		e, _ := t.expr(x.Results[0], t.retTy[t.cur])
		if rec {
			return ind + "Some " + e
		}
		return ind + e
	case *ast.AssignStmt:
		if x.Tok != token.DEFINE || len(x.Lhs) != 1 || len(x.Rhs) != 1 {
			die(fset.Position(x.Pos()), "assignment")
		}
		name := x.Lhs[0].(*ast.Ident).Name
		e, y := t.expr(x.Rhs[0], tUnk)
		t.env[name] = y
		return ind + "let " + name + " := " + e + " in\n" + t.stmts(rest, rec, ind)
	case *ast.BlockStmt:
		return t.stmts(append(append([]ast.Stmt{}, x.List...), rest...), rec, ind)
	case *ast.IfStmt:
		if x.Init != nil {
			die(fset.Position(x.Pos()), "if with init")
		}
		c, _ := t.expr(x.Cond, tBool)
		thenS := t.stmtsOrFall(x.Body.List, rest, rec, ind+"  ")
		var elseS string
		if x.Else != nil {
			switch el := x.Else.(type) {
			case *ast.BlockStmt:
				elseS = t.stmtsOrFall(el.List, rest, rec, ind+"  ")
			case *ast.IfStmt:
				elseS = t.stmts(append([]ast.Stmt{el}, rest...), rec, ind+"  ")
			}
		} else {
			elseS = t.stmts(rest, rec, ind+"  ")
		}
		return ind + "if " + c + " then\n" + thenS + "\n" + ind + "else\n" + elseS
	case *ast.SwitchStmt:
		if x.Tag != nil || x.Init != nil {
			die(fset.Position(x.Pos()), "switch with tag")
		}
		// switch { case c: ... } == if/else-if chain; default last
		var build func(i int, ind string) string
		clauses := x.Body.List
		build = func(i int, ind string) string {
			if i == len(clauses) {
				return t.stmts(rest, rec, ind)
			}
			cc := clauses[i].(*ast.CaseClause)
			if cc.List == nil {
				return t.stmtsOrFall(cc.Body, rest, rec, ind)
			}
			if len(cc.List) != 1 {
				die(fset.Position(cc.Pos()), "multi-expression case")
			}
			c, _ := t.expr(cc.List[0], tBool)
			return ind + "if " + c + " then\n" + t.stmtsOrFall(cc.Body, rest, rec, ind+"  ") + "\n" + ind + "else\n" + build(i+1, ind+"  ")
		}
		return build(0, ind)
	}
	die(fset.Position(s.Pos()), "statement %T", s)
	return ""
}

func endsInReturn(list []ast.Stmt) bool {
	if len(list) == 0 {
		return false
	}
	switch x := list[len(list)-1].(type) {
	case *ast.ReturnStmt:
		return true
	case *ast.IfStmt:
		if x.Else == nil {
			return false
		}
		switch el := x.Else.(type) {
		case *ast.BlockStmt:
			return endsInReturn(x.Body.List) && endsInReturn(el.List)
		case *ast.IfStmt:
			return endsInReturn(x.Body.List) && endsInReturn([]ast.Stmt{el})
		}
	case *ast.BlockStmt:
		return endsInReturn(x.List)
	}
	return false
}

func (t *tr) stmtsOrFall(body, rest []ast.Stmt, rec bool, ind string) string {
	// local bindings of a branch must not leak into the continuation
	saved := map[string]ty{}
	for k, v := range t.env {
		saved[k] = v
	}
	defer func() { t.env = saved }()
	if endsInReturn(body) {
		return t.stmts(body, rec, ind)
	}
	return t.stmts(append(append([]ast.Stmt{}, body...), rest...), rec, ind)
}

func containsSelfCall(n ast.Node, name string) bool {
	found := false
	ast.Inspect(n, func(m ast.Node) bool {
		if c, ok := m.(*ast.CallExpr); ok {
			if sel, ok := c.Fun.(*ast.SelectorExpr); ok && sel.Sel.Name == name {
				found = true
			}
		}
		return true
	})
	return found
}

func main() {
	src := flag.String("src", "", "Go source file")
	st := flag.String("struct", "", "struct type")
	fl := flag.String("funcs", "", "comma separated functions/methods, in dependency order")
	out := flag.String("out", "", "output .v")
	fuel := flag.Int("fuel", 3, "fuel used by the wrapper of recursive functions")
	flag.Parse()
	f, err := parser.ParseFile(fset, *src, nil, 0)
	if err != nil {
		fmt.Fprintln(os.Stderr, "go2coq:", err)
		os.Exit(2)
	}
	t := &tr{structName: *st, funcs: map[string]*ast.FuncDecl{}, retTy: map[string]ty{}, recursive: map[string]bool{}}
	for _, d := range f.Decls {
		switch x := d.(type) {
		case *ast.GenDecl:
			for _, sp := range x.Specs {
				if ts, ok := sp.(*ast.TypeSpec); ok && ts.Name.Name == *st {
					stt, ok := ts.Type.(*ast.StructType)
					if !ok {
						die(fset.Position(ts.Pos()), "%s is not a struct", *st)
					}
					for _, fld := range stt.Fields.List {
						if id, ok := fld.Type.(*ast.Ident); !ok || id.Name != "uint64" {
							die(fset.Position(fld.Pos()), "field type (only uint64)")
						}
						for _, n := range fld.Names {
							t.fields = append(t.fields, n.Name)
						}
					}
				}
			}
		case *ast.FuncDecl:
			t.funcs[x.Name.Name] = x
		}
	}
	if len(t.fields) == 0 {
		fmt.Fprintf(os.Stderr, "go2coq: struct %s not found\n", *st)
		os.Exit(2)
	}
	var b strings.Builder
	fmt.Fprintf(&b, "(* GENERATED by /verif/translator/go2coq from %s -- do not edit; regenerated on every check *)\n", *src)
	b.WriteString("From Coq Require Import NArith ZArith Bool String List.\nImport ListNotations.\nOpen Scope N_scope.\n\n")
	fmt.Fprintf(&b, "Definition fmtcall : Type := (string * list N)%%type.\n\n")
	var fs []string
	for _, fld := range t.fields {
		fs = append(fs, fld+" : N")
	}
	fmt.Fprintf(&b, "Record %s := mk%s { %s }.\n\n", *st, *st, strings.Join(fs, "; "))
	names := strings.Split(*fl, ",")
	var missing []string
	for _, name := range names {
		fd, ok := t.funcs[name]
		if !ok {
			missing = append(missing, name)
			continue
		}
		t.cur = name
		t.env = map[string]ty{}
		var params []string
		if fd.Recv != nil {
			r := fd.Recv.List[0]
			rt := t.goType(r.Type)
			t.env[r.Names[0].Name] = rt
			params = append(params, "("+r.Names[0].Name+" : "+string(rt)+")")
		}
		for _, p := range fd.Type.Params.List {
			pt := t.goType(p.Type)
			for _, n := range p.Names {
				t.env[n.Name] = pt
				params = append(params, "("+n.Name+" : "+string(pt)+")")
			}
		}
		if fd.Type.Results == nil || len(fd.Type.Results.List) != 1 {
			die(fset.Position(fd.Pos()), "function must have exactly one result")
		}
		rt := t.goType(fd.Type.Results.List[0].Type)
		t.retTy[name] = rt
		rec := containsSelfCall(fd.Body, name)
		t.recursive[name] = rec
		if rec {
			body := t.stmts(fd.Body.List, true, "      ")
			fmt.Fprintf(&b, "Fixpoint %s_f (fuel : nat) %s {struct fuel} : option %s :=\n  match fuel with\n  | O => None\n  | S fuel =>\n%s\n  end.\n\n", name, strings.Join(params, " "), rt, body)
			var pn []string
			for _, p := range params {
				pn = append(pn, strings.TrimPrefix(strings.SplitN(p, " ", 2)[0], "("))
			}
			fmt.Fprintf(&b, "Definition %s_fuel : nat := %d%%nat.\nDefinition %s %s : option %s := %s_f %s_fuel %s.\n\n", name, *fuel, name, strings.Join(params, " "), rt, name, name, strings.Join(pn, " "))
		} else {
			body := t.stmts(fd.Body.List, false, "  ")
			fmt.Fprintf(&b, "Definition %s %s : %s :=\n%s.\n\n", name, strings.Join(params, " "), rt, body)
		}
	}
	if len(missing) > 0 {
		sort.Strings(missing)
		fmt.Fprintf(os.Stderr, "go2coq: functions not found in %s: %s\n", *src, strings.Join(missing, ","))
		os.Exit(2)
	}
	if err := os.WriteFile(*out, []byte(b.String()), 0o644); err != nil {
		fmt.Fprintln(os.Stderr, "go2coq:", err)
		os.Exit(2)
	}
}
