"""Per-property configuration: one file props/Cxx.json = {"check": {...pipeline config...}, "meta": {...MANIFEST text...}}."""
import glob, json, os

_root = os.path.dirname(os.path.dirname(os.path.abspath(__file__)))
PROPS = {}
META = {}
for _f in sorted(glob.glob(os.path.join(_root, "props", "C*.json"))):
    _d = json.load(open(_f))
    PROPS[_d["check"]["id"]] = _d["check"]
    META[_d["check"]["id"]] = _d["meta"]
