"""Per-property configuration of the check pipeline (see DESIGN.md section 5)."""

COMMON_TB = [
    "hand-written Gallina model tied to the code by the correspondence harness (model evaluated with vm_compute on the cases the real code ran)",
]

PROPS = {
    "C20": {
        "id": "C20",
        "go_pkg": "./db",
        "go_test": "TestVerifC20",
        "harness_files": ["db/verif_c20_test.go"],
        "gen": [{"src": "db/sequence_id.go", "struct": "SequenceID", "funcs": "SafeSequence,Before,intSeqToString",
                 "out": "theories/C20/SeqIdGen.v"}],
        "coq_targets": ["theories/C20/C20_Properties.vo", "theories/C20/C20_Corr.vo", "theories/C20/C20_Refuted.vo"],
        "corr_target": "theories/C20/C20_Corr.vo",
        "corr_module": "C20.C20_Corr",
        "properties_file": "theories/C20/C20_Properties.v",
        "rule": "cases: (i) Before over ALL pairs of the 125 tokens of {0..4}^3 (exhaustive) and all pairs inside chunks of random tokens with boundary values; "
                "(ii) SafeSequence/String/MarshalJSON per token; (iii) parser and JSON streams: corpus, valid prints, prints with 1-2 byte mutations. "
                "distinct = distinct SHA-256 of the canonical case text; non-trivial = pair of tokens of different forms / compound token / rejected or long input.",
        "trusted_base": COMMON_TB + [
            "go2coq translator (SequenceID.Before, SafeSequence, intSeqToString regenerated from /repo/db/sequence_id.go on every run; the order laws are proved on the regenerated definition)",
            "hand model of parseIntegerSequenceID / MarshalJSON / UnmarshalJSON (inputs without backslash escapes) and of fmt %d rendering (Coq stdlib DecimalString)",
        ],
        "assumptions": ["token components < 2^64 (uint64) for the round-trip theorems (wf64)",
                        "base.ErrorAsHTTPStatus decides what the client sees for a parse error"],
    },
}
