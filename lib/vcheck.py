#!/usr/bin/env python3
"""Generic check pipeline for the /verif machinery (see DESIGN.md section 2.2).

   check <ID> --tier quick|thorough [--replay file]

   1. regenerate translated models from /repo (go2coq) where the property has any
   2. build the Coq proof obligations (full .vo build of the property's targets), collect Print Assumptions
   3. build + run the Go correspondence harness against /repo's working tree (go test -overlay, tag verif)
   4. evaluate the recorded cases on the model inside Coq (vm_compute), collect mismatching cases
   5. decide, write evidence/<ID>.json, write replay/<...>.json on violation
"""
import fcntl
import glob
import hashlib
import json
import os
import re
import shutil
import subprocess
import sys
import time

VERIF = os.path.dirname(os.path.dirname(os.path.abspath(__file__)))
REPO = os.environ.get("VERIF_REPO", "/repo")
COQ = os.path.join(VERIF, "coq")
BUILD = os.path.join(VERIF, "build")
GOENV = dict(os.environ, GOFLAGS="-mod=mod", GOPROXY="off", CGO_ENABLED=os.environ.get("CGO_ENABLED", "1"))
GOENV.pop("GOTOOLCHAIN", None) if os.environ.get("GOTOOLCHAIN") == "local" else None

ALLOWED_AXIOMS = {
    # standard-library axioms that may appear (named in the trusted base when they do)
    "functional_extensionality_dep", "proof_irrelevance", "JMeq_eq", "Eqdep.Eq_rect_eq.eq_rect_eq",
    "eq_rect_eq", "classic", "propositional_extensionality",
}

FORBIDDEN = re.compile(r"\b(Admitted|admit|Axiom|Parameter|Conjecture|Unset Guard|bypass_check|type-in-type|Admit Obligations)\b")


def sh(cmd, cwd=None, env=None, timeout=None, inp=None):
    t0 = time.time()
    try:
        p = subprocess.run(cmd, cwd=cwd, env=env, timeout=timeout, input=inp, stdout=subprocess.PIPE,
                           stderr=subprocess.STDOUT, text=True, shell=isinstance(cmd, str), errors="replace")
        return p.returncode, p.stdout, time.time() - t0
    except subprocess.TimeoutExpired as e:
        out = e.stdout if isinstance(e.stdout, str) else (e.stdout or b"").decode(errors="replace")
        return 124, out + "\n[timeout]", time.time() - t0


class Lock:
    def __init__(self, name):
        os.makedirs(BUILD, exist_ok=True)
        self.path = os.path.join(BUILD, name + ".lock")

    def __enter__(self):
        self.f = open(self.path, "w")
        fcntl.flock(self.f, fcntl.LOCK_EX)
        return self

    def __exit__(self, *a):
        fcntl.flock(self.f, fcntl.LOCK_UN)
        self.f.close()


def ensure_tools():
    """go2coq binary + coq Makefile; cheap when present."""
    os.makedirs(os.path.join(BUILD, "bin"), exist_ok=True)
    g2c = os.path.join(BUILD, "bin", "go2coq")
    src = os.path.join(VERIF, "translator", "go2coq", "main.go")
    if not os.path.exists(g2c) or os.path.getmtime(g2c) < os.path.getmtime(src):
        with Lock("tools"):
            rc, out, _ = sh(["go", "build", "-o", g2c, "."], cwd=os.path.dirname(src), env=GOENV, timeout=600)
            if rc != 0:
                raise SystemExit("cannot build go2coq:\n" + out)
    return g2c


def coq_project():
    """(re)write _CoqProject + Makefile when the file list changed."""
    files = sorted(os.path.relpath(p, COQ) for p in glob.glob(os.path.join(COQ, "theories", "**", "*.v"), recursive=True))
    text = "-Q theories SG\n" + "\n".join(files) + "\n"
    cp = os.path.join(COQ, "_CoqProject")
    old = open(cp).read() if os.path.exists(cp) else ""
    if old != text or not os.path.exists(os.path.join(COQ, "Makefile")):
        open(cp, "w").write(text)
        rc, out, _ = sh(["coq_makefile", "-f", "_CoqProject", "-o", "Makefile"], cwd=COQ)
        if rc != 0:
            raise SystemExit("coq_makefile failed:\n" + out)


def regenerate(prop, log):
    """Run the translator for every generated file of the property. Returns list of status dicts."""
    res = []
    if not prop.get("gen"):
        return res
    g2c = ensure_tools()
    for g in prop["gen"]:
        out = os.path.join(COQ, g["out"])
        tmp = out + ".new"
        cmd = [g2c, "-src", os.path.join(REPO, g["src"]), "-struct", g["struct"], "-funcs", g["funcs"], "-out", tmp]
        rc, o, _ = sh(cmd, timeout=60)
        st = {"out": g["out"], "src": g["src"], "funcs": g["funcs"], "ok": rc == 0, "msg": o.strip()[-500:]}
        if rc == 0:
            new = open(tmp).read()
            old = open(out).read() if os.path.exists(out) else None
            st["changed"] = new != old
            if new != old:
                shutil.move(tmp, out)
            else:
                os.remove(tmp)
        else:
            st["changed"] = False
            if os.path.exists(tmp):
                os.remove(tmp)
            # translator cannot handle the current source: fall back to the committed generated file so the
            # rest of the development builds; the tie for these functions then rests on the correspondence.
            sh(["git", "checkout", "--", os.path.relpath(out, VERIF)], cwd=VERIF)
        log.append("translator %s: %s%s" % (g["out"], "ok" if rc == 0 else "UNAVAILABLE " + st["msg"], " (changed)" if st.get("changed") else ""))
        res.append(st)
    return res


def restore_generated(prop):
    """Put committed generated files back (so a mutated /repo does not leave /verif dirty)."""
    for g in prop.get("gen", []):
        sh(["git", "checkout", "--", os.path.join("coq", g["out"])], cwd=VERIF)


def coq_build(targets, log, timeout=1500):
    """make the given .vo targets; returns (ok, output)."""
    with Lock("coq"):
        coq_project()
        rc, out, dt = sh(["make", "-j16", "-k"] + targets, cwd=COQ, timeout=timeout)
    log.append("coq build %s: rc=%d %.1fs" % (" ".join(targets), rc, dt))
    return rc == 0, out


def theorems_in(path):
    txt = open(path).read()
    return re.findall(r"^\s*(?:Theorem|Lemma|Corollary)\s+([A-Za-z0-9_']+)", txt, re.M)


def assumptions_of(prop, log):
    """Re-run coqc on the Properties file (already compiled => fast) to capture Print Assumptions."""
    pf = os.path.join(COQ, prop["properties_file"])
    with Lock("coq"):
        rc, out, dt = sh(["coqc", "-Q", "theories", "SG", prop["properties_file"]], cwd=COQ, timeout=900)
    axioms = []
    closed = out.count("Closed under the global context")
    for m in re.finditer(r"^Axioms:\n((?:.+\n)+?)(?=\S|\Z)", out, re.M):
        pass
    # collect names listed after "Axioms:" blocks
    in_ax = False
    for line in out.splitlines():
        if line.startswith("Axioms:"):
            in_ax = True
            continue
        if in_ax:
            m = re.match(r"^([A-Za-z0-9_.']+)\s*:", line)
            if m:
                axioms.append(m.group(1))
            elif line.startswith(" ") or line == "":
                continue
            else:
                in_ax = False
    return rc == 0, closed, sorted(set(axioms)), out


def coqchk(prop, log, timeout=2400):
    """thorough tier: re-check the compiled property file and everything it depends on with the independent checker."""
    mod = "SG." + prop["properties_file"][len("theories/"):-2].replace("/", ".")
    with Lock("coq"):
        rc, out, dt = sh(["coqchk", "-silent", "-o", "-Q", "theories", "SG", mod], cwd=COQ, timeout=timeout)
    log.append("coqchk %s: rc=%d %.0fs" % (mod, rc, dt))
    summary = out[out.find("CONTEXT SUMMARY"):][:1500] if "CONTEXT SUMMARY" in out else out[-800:]
    return rc == 0, summary


def audit_sources(prop=None):
    bad = []
    files = glob.glob(os.path.join(COQ, "theories", "**", "*.v"), recursive=True)
    if prop is not None:
        dirs = {"theories/Base"} | {os.path.dirname(t) for t in prop["coq_targets"]} | set(prop.get("audit_dirs", []))
        files = [f for f in files if os.path.dirname(os.path.relpath(f, COQ)) in dirs]
    for p in files:
        for i, line in enumerate(open(p, errors="replace")):
            code = re.sub(r"\(\*.*?\*\)", "", line)
            if FORBIDDEN.search(code):
                bad.append("%s:%d: %s" % (os.path.relpath(p, VERIF), i + 1, line.strip()))
    return bad


def make_overlay(pkgs, files):
    """overlay.json mapping /repo/<pkg>/verif_*_test.go -> harness sources (+ per-package common helper)."""
    od = os.path.join(BUILD, "overlay")
    os.makedirs(od, exist_ok=True)
    rep = {}
    tmpl = open(os.path.join(VERIF, "harness", "common", "verif_common_test.go.tmpl")).read()
    for pkg in pkgs:
        pname = pkg.strip("./").split("/")[-1]
        d = os.path.join(od, pname)
        os.makedirs(d, exist_ok=True)
        cf = os.path.join(d, "verif_common_test.go")
        txt = tmpl.replace("package PACKAGE", "package " + pname)
        if not os.path.exists(cf) or open(cf).read() != txt:
            open(cf, "w").write(txt)
        rep[os.path.join(REPO, pkg.strip("./"), "verif_common_test.go")] = cf
    for f in files:
        # f is relative to harness/, e.g. db/verif_c20_test.go
        rep[os.path.join(REPO, f)] = os.path.join(VERIF, "harness", f)
    key = hashlib.sha256(json.dumps(rep, sort_keys=True).encode()).hexdigest()[:12]
    path = os.path.join(od, "overlay_%s.json" % key)
    open(path, "w").write(json.dumps({"Replace": rep}, indent=1))
    return path


def run_harness(prop, tier, seed, outdir, log, budget=None, extra_env=None):
    if os.path.isdir(outdir):
        shutil.rmtree(outdir)
    os.makedirs(outdir)
    # One overlay per package, holding the harness files of EVERY property that lives in it: all checks of a package
    # then share one compiled test binary (the same one bin/setup warms) instead of compiling the package once per check.
    files = set(prop["harness_files"])
    try:
        import props as _props
        for q in _props.PROPS.values():
            if q["go_pkg"] == prop["go_pkg"]:
                files.update(q["harness_files"])
    except Exception:
        pass
    overlay = make_overlay([prop["go_pkg"]], sorted(files))
    env = dict(GOENV, VERIF_SEED=str(seed), VERIF_TIER=tier, VERIF_OUT=outdir, VERIF_DIR=VERIF)
    env["SG_TEST_USE_XATTRS"] = env.get("SG_TEST_USE_XATTRS", "true")
    if budget:
        env["VERIF_BUDGET"] = str(budget)
    if extra_env:
        env.update(extra_env)
    tmo = prop.get("harness_timeout", {}).get(tier, 900)
    cmd = ["go", "test", "-overlay", overlay, "-tags", "verif", "-vet=off", "-count=1", "-timeout", "%ds" % tmo,
           "-run", "^%s$" % prop["go_test"], prop["go_pkg"]]
    rc, out, dt = sh(cmd, cwd=REPO, env=env, timeout=tmo + 300)
    log.append("harness %s: rc=%d %.1fs" % (prop["go_test"], rc, dt))
    rep = None
    rp = os.path.join(outdir, "report.json")
    if os.path.exists(rp):
        try:
            rep = json.load(open(rp))
        except Exception as e:  # noqa
            log.append("report.json unreadable: %s" % e)
    build_failed = rc != 0 and ("[build failed]" in out or "[setup failed]" in out)
    return rc, out, rep, build_failed


def eval_cases(outdir, log, timeout=1200):
    """coqc every cases_*.v shard (in parallel); returns (ok, mismatching global indices, outputs)."""
    shards = sorted(glob.glob(os.path.join(outdir, "cases_*.v")))
    if not shards:
        return True, [], ""
    rep = json.load(open(os.path.join(outdir, "report.json")))
    size = rep.get("shard_size", 400)
    procs = []
    t0 = time.time()
    bad = []
    outs = []
    ok = True
    maxpar = 12
    pending = list(enumerate(shards))
    running = []
    while pending or running:
        while pending and len(running) < maxpar:
            i, s = pending.pop(0)
            p = subprocess.Popen(["coqc", "-Q", os.path.join(COQ, "theories"), "SG", "-Q", outdir, "VCases", s],
                                 cwd=outdir, stdout=subprocess.PIPE, stderr=subprocess.STDOUT, text=True)
            running.append((i, s, p))
        for item in list(running):
            i, s, p = item
            if p.poll() is not None:
                running.remove(item)
                o = p.stdout.read()
                if p.returncode != 0:
                    ok = False
                    outs.append("%s: coqc failed:\n%s" % (os.path.basename(s), o[-2000:]))
                    continue
                m = re.search(r"bad\s*=\s*(\[.*?\])\s*:\s*list N", o, re.S)
                if not m:
                    ok = False
                    outs.append("%s: cannot parse output:\n%s" % (os.path.basename(s), o[-1000:]))
                    continue
                body = m.group(1).strip()[1:-1].strip()
                if body:
                    for tok in body.split(";"):
                        tok = tok.strip().replace("%N", "")
                        if tok:
                            bad.append(i * size + int(tok))
        if time.time() - t0 > timeout:
            for _, _, p in running:
                p.kill()
            ok = False
            outs.append("case evaluation timed out")
            break
        time.sleep(0.05)
    for s in shards:
        for ext in (".vo", ".vok", ".vos", ".glob"):
            f = s[:-2] + ext
            if os.path.exists(f):
                os.remove(f)
        aux = os.path.join(os.path.dirname(s), "." + os.path.basename(s)[:-2] + ".aux")
        if os.path.exists(aux):
            os.remove(aux)
    log.append("model evaluation: %d shards, %d mismatches, ok=%s, %.1fs" % (len(shards), len(bad), ok, time.time() - t0))
    return ok, sorted(bad), "\n".join(outs)


def load_cases(outdir, idxs):
    want = set(idxs)
    res = {}
    p = os.path.join(outdir, "cases.jsonl")
    if not os.path.exists(p):
        return res
    for i, line in enumerate(open(p)):
        if i in want:
            res[i] = json.loads(line)
    return res


def known_findings():
    p = os.path.join(VERIF, "known_findings.json")
    if not os.path.exists(p):
        return []
    return json.load(open(p)).get("findings", [])


def write_replay(pid, seed, tier, kind, payload):
    d = os.path.join(VERIF, "replay")
    os.makedirs(d, exist_ok=True)
    n = 0
    while True:
        path = os.path.join(d, "%s-%s-%d.json" % (pid, seed, n))
        if not os.path.exists(path):
            break
        n += 1
    payload = dict(payload, property=pid, kind=kind, seed=seed, tier=tier,
                   how_to_replay="bin/check %s --replay %s" % (pid, os.path.relpath(path, VERIF)))
    open(path, "w").write(json.dumps(payload, indent=1, default=str))
    return os.path.relpath(path, VERIF)


def run_check(prop, tier, seed):
    t0 = time.time()
    pid = prop["id"]
    log = []
    violations = []   # list of (kind, replay payload)
    known_lines = []
    outdir = os.path.join(BUILD, "run", pid)
    ev = {"property_id": pid, "tier": tier, "seed": seed, "level": "proof"}

    # 1. translator
    gen = regenerate(prop, log)
    try:
        # 2. proofs
        forbidden = audit_sources(prop)
        ok_build, build_out = coq_build(prop["coq_targets"], log)
        obligations = theorems_in(os.path.join(COQ, prop["properties_file"]))
        discharged = 0
        axioms = []
        pa_out = ""
        broken_obligation = None
        if ok_build:
            ok_pa, closed, axioms, pa_out = assumptions_of(prop, log)
            discharged = len(obligations) if ok_pa else 0
            bad_ax = [a for a in axioms if a.split(".")[-1] not in ALLOWED_AXIOMS and a not in ALLOWED_AXIOMS]
            if bad_ax:
                broken_obligation = "non-standard axioms: " + ", ".join(bad_ax)
                discharged = 0
        else:
            m = re.search(r'File "\./([^"]+)", line (\d+)[^\n]*\n(Error:.*?)(?=\nmake|\Z)', build_out, re.S)
            broken_obligation = ("%s:%s %s" % (m.group(1), m.group(2), " ".join(m.group(3).split())[:400])) if m else build_out[-600:]
        if forbidden:
            broken_obligation = (broken_obligation or "") + " forbidden constructs: " + "; ".join(forbidden[:5])
            discharged = 0
        chk_summary = None
        if ok_build and tier == "thorough" and not os.environ.get("VERIF_SKIP_COQCHK"):
            ok_chk, chk_summary = coqchk(prop, log)
            if not ok_chk:
                broken_obligation = (broken_obligation or "") + " coqchk failed: " + chk_summary[-300:]
                discharged = 0

        # 3. harness
        rc, hout, rep, build_failed = run_harness(prop, tier, seed, outdir, log)
        corr_ok, mism, corr_msg = (False, [], "")
        corr_available = rep is not None
        if corr_available and ok_build:
            corr_ok, mism, corr_msg = eval_cases(outdir, log)
        elif corr_available and not ok_build:
            # proofs broken: the correspondence module may still compile on its own
            okc, _ = coq_build([prop["corr_target"]], log)
            if okc:
                corr_ok, mism, corr_msg = eval_cases(outdir, log)
        mon = (rep or {}).get("monitor_failures") or []

        # failing-input search when an obligation or the correspondence broke but no monitor fired yet
        searched = False
        if (broken_obligation or mism or not corr_available or not corr_ok) and not mon and corr_available:
            searched = True
            sdir = outdir + "-search"
            for k in range(prop.get("search_rounds", 2)):
                rc2, _, rep2, _ = run_harness(prop, prop.get("search_tier", "quick"), seed + 7919 * (k + 1), sdir, log, budget=prop.get("search_budget", 3))
                if rep2 and rep2.get("monitor_failures"):
                    mon = rep2["monitor_failures"]
                    break
            if os.path.isdir(sdir):
                shutil.rmtree(sdir)

        # 4. decide
        kf = known_findings()
        known_sigs = {(f["property"], f["signature"]): f for f in kf if f.get("status") == "known"}
        new_mon = []
        for f in mon:
            key = (pid, f.get("signature"))
            if key in known_sigs:
                line = "KNOWN-FINDING: property=%s %s" % (pid, known_sigs[key]["what"])
                if line not in known_lines:
                    known_lines.append(line)
            else:
                new_mon.append(f)
        if new_mon:
            f = new_mon[0]
            violations.append(("failing-input", {"monitor": f["monitor"], "signature": f.get("signature"), "input": f["input"],
                                                 "detail": f["detail"], "obligation": broken_obligation,
                                                 "other_failures": new_mon[1:6]}))
        else:
            if broken_obligation:
                violations.append(("unchecked-obligation", {"obligation": broken_obligation, "note": "no failing input found on the implementation%s" % (" after extra search" if searched else "")}))
            if not corr_available:
                why = "harness-build" if build_failed else "harness-run"
                violations.append(("unchecked-obligation", {"obligation": "correspondence:%s" % why, "output": hout[-3000:]}))
            elif mism or not corr_ok:
                cases = load_cases(outdir, mism[:5])
                # a mismatch explained by a known finding's monitor signature is not counted again
                violations.append(("unchecked-obligation", {"obligation": "correspondence:%s" % prop["corr_module"],
                                                            "mismatching_cases": [cases.get(i) for i in mism[:5]],
                                                            "mismatch_count": len(mism), "message": corr_msg[-2000:]}))
            elif rc != 0:
                violations.append(("unchecked-obligation", {"obligation": "harness exited %d" % rc, "output": hout[-3000:]}))

        # 5. evidence
        cov = {
            "obligations": len(obligations), "discharged": discharged,
            "checker_cmd": "make -C coq %s  (coqc 8.16.1, full .vo build) ; coqc %s (Print Assumptions)" % (" ".join(prop["coq_targets"]), prop["properties_file"]),
            "trusted_base": prop.get("trusted_base", []) + ["Coq 8.16.1 kernel + vm_compute (no native_compute)", "Go harness + go test -overlay", "rosmar in-memory bucket where a bucket is used"],
            "theorems": obligations,
            "axioms_reported": axioms if axioms else ["<none: every property theorem is Closed under the global context>"],
            "translator": gen,
            "coqchk": chk_summary,
            "evaluations": (rep or {}).get("evaluations", 0),
            "distinct_nontrivial": (rep or {}).get("distinct_nontrivial", 0),
            "distinct": (rep or {}).get("distinct", 0),
            "rule": prop.get("rule", ""),
            "samples": (rep or {}).get("samples", []) or [{"note": "no harness output"}],
            "cases_evaluated_in_coq": (rep or {}).get("coq_cases", 0),
            "model_impl_mismatches": len(mism),
            "op_histogram": (rep or {}).get("op_hist", {}),
            "error_histogram": (rep or {}).get("err_hist", {}),
            "size_histogram": (rep or {}).get("size_hist", {}),
            "streams": (rep or {}).get("streams", {}),
            "monitor_failures": len(mon),
            "known_findings_seen": known_lines,
            "extra": (rep or {}).get("extra", {}),
            "exhaustive": bool((rep or {}).get("extra", {}).get("exhaustive", False)),
            "log": log,
        }
        ev["coverage"] = cov
        ev["assumptions"] = prop.get("assumptions", [])
        ev["wall_s"] = round(time.time() - t0, 1)
        ev["violations"] = len(violations)
        os.makedirs(os.path.join(VERIF, "evidence"), exist_ok=True)
        open(os.path.join(VERIF, "evidence", pid + ".json"), "w").write(json.dumps(ev, indent=1, default=str))
    finally:
        if any(g.get("changed") or not g.get("ok") for g in gen):
            restore_generated(prop)

    for line in log:
        print("  " + line)
    for line in known_lines:
        print(line)
    if violations:
        for kind, payload in violations:
            path = write_replay(pid, seed, tier, kind, payload)
            if kind == "failing-input":
                print("VIOLATION property=%s replay=%s" % (pid, path))
            else:
                print("VIOLATION property=%s replay=%s no-failing-input-found" % (pid, path))
        return 1
    print("OK property=%s tier=%s obligations=%d/%d evaluations=%d nontrivial=%d mismatches=0 wall=%.0fs" % (
        pid, tier, discharged, len(obligations), cov["evaluations"], cov["distinct_nontrivial"], time.time() - t0))
    return 0


def replay(prop, path):
    data = json.load(open(path if os.path.isabs(path) else os.path.join(VERIF, path)))
    print(json.dumps({k: data.get(k) for k in ("property", "kind", "monitor", "signature", "input", "detail", "obligation")}, indent=1))
    seed = data.get("seed", 1)
    tier = data.get("tier", "quick")
    print("re-running the check with the recorded seed/tier (deterministic generators) ...")
    return run_check(prop, tier, seed)
