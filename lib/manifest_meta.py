"""Text of the MANIFEST entries (what is claimed, at which level, under which assumptions)."""

BASELINE_CMD = "for m in $(cat /w/out/gomods.txt); do MF=$(cd /repo/$m && . /w/out/goenv.sh && gomodflag); (cd /repo/$m && go test $MF -json -vet=off -count=1 -timeout 25m ./...); done"

NOTES = ("Technique: machine-checked proof in Coq 8.16.1. Every check (1) regenerates translated definitions from /repo where a translator exists, "
         "(2) rebuilds the property theorems (full .vo), (3) builds the verif-tagged Go harness against /repo's working tree with go test -overlay "
         "and runs the real code, (4) re-evaluates the recorded cases on the Gallina model with vm_compute, (5) runs executable monitors (boolean "
         "reflections of the theorem statements) on the implementation's outputs to find a concrete failing input. No hooks are committed to /repo: "
         "the guard 'verif' is the build tag of the overlaid harness files. known_findings.json lists recorded / fixed defects.")

NOT_APPLICABLE = {"C%02d" % i: "check not built yet in this round (planned, see DESIGN.md section 11); not a claim that the technique cannot apply" for i in range(1, 21)}

